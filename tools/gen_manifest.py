#!/usr/bin/env python3
"""Regenerate MANIFEST.json from the per-property metadata below and the rule modules present."""
import json
import os

HERE = os.path.dirname(os.path.dirname(os.path.abspath(__file__)))

# id -> (technique, decides, does-not-decide)
META = {
 'C01': ('static analysis: MIR guarded must-pass-through + comparison-guard order abstraction + provenance slices',
         'every accepting path of AggregateSignature::verify/batch_verify passes each mandatory check with the accepting outcome; index<m; roles of lottery / membership / pairing arguments; structure of the BLS aggregation coefficients inside a member and of the per-member weights of a batch (transcript over the whole batch, same weight on key and signature, the weighted values are what is checked); members of a batch are coefficient-weighted aggregates; decoded signatures / keys pass the group check; final-node check of the batch path',
         'BLS / Merkle / Blake2b soundness; that the weighted batch equation implies each member equation (algebraic)'),
 'C02': ('static analysis: MIR path rules on the quorum selection routine and the aggregator error mapping',
         'invalid signatures are skipped not fatal; only NotEnoughSignatures maps to Ok(None); aggregated material derives from the selection; selection state (index map, removal lists, seen sets) is written only for verified signatures (typestate: collections filled behind a verification, least fixpoint); equal copies of a signature are merged (union of verified indices) before the contest, or an identity guard gates the removal bookkeeping; NotEnoughSignatures is constructed only where indices were counted',
         'completeness (>= k covered indices => success) and order insensitivity are value/history properties'),
 'C03': ('static analysis: MIR guarded must-pass-through per return kind + chaining-guard structure + who-may-call',
         'Ok(Some(prev)) only after all nine checks; Ok(None) only at verified genesis; key/argument provenance; structure of AVK/parameter chaining; epoch link direction; client cache discipline incl. a certificate downloaded for a cached link must carry the requested hash; served message -> verified entity conversion is field-faithful',
         'Ed25519/BLS cryptography; multi-hop cycles (hash)'),
 'C04': ('static analysis: field coverage of hash / conversion functions over the ADTs of the current tree',
         'every field reaches the hasher / the converted value; protocol-message key+value; variant payload fields and variant tag; phi_f fixed-point projection; signature choice; Display text of the message part keys is injective (one distinct literal per key)',
         'collision freedom of pre-images; JSON/chrono round trips'),
 'C05': ('static analysis: flow-sensitive wire-integer taint (bit-width abstraction) + audited panic inventory over the decoder call closure',
         'no allocation / raw arithmetic / panicking index on integers decoded from the input in workspace decoders; every other panic-capable site audited; no decoded wire type contains itself unless a hand-written Deserialize bounds the nesting (decode depth = stack depth)',
         'third-party decoders (ciborium, bincode, serde_json, serde_bytes, hex, blst) incl. what they allocate from a length prefix; value round trips'),
 'C07': ('static analysis: MIR must-pass-through + provenance of identity/stake/KES arguments',
         'registration succeeds only after KES (incl. op-cert cold signature), PoP (both halves), duplicate and stake-distribution checks; id from the cold key, stake from the distribution; the verified signer is rebuilt with the registered id; window constant +-1 and clamp to the last period of the Sum<N> KES scheme; leader ordering',
         'KES/Ed25519/BLS soundness; KES period arithmetic'),
 'C09': ('static analysis: MIR must-pass-through + comparison guards + provenance inside the Merkle verifiers',
         'structural guards and final root comparison of the STM batch path; sibling test of the batch path is an equality; MMR verdict gates MKProof::verify over the exposed fields and only for proofs that list every leaf position once (the MMR verifier ignores all but the first leaf of a position); sub-proof / master / linkage checks of MKMapProof; set-proof item containment',
         'absence of forged paths for every tree shape; third-party MMR'),
 'C10': ('static analysis: MIR must-pass-through + who-may-construct + provenance in the client database prover',
         'VerifiedDigests only after the recomputed root matched the certificate; success requires no missing file (unless allowed), a verified Merkle proof, and the per-file-name digest comparison; the client digester has no digest cache (every verification hashes the files) and lists every immutable file present',
         'file-system behaviour under every tampering; hash collisions'),
 'C18': ('static analysis: lock-region (lockset / check-then-act) analysis over MIR + ordering + provenance',
         'generation passed at every give-back; fullness and staleness tests atomic with the push; item tag stored with the resource; lock order; notify after push; refresh order in both provers and no suspension point between reading the current generation and installing the new one',
         'liveness of waiters beyond notify-follows-push'),
 'C06': ('static analysis: ADT/collection-type facts + ordering field coverage + who-may-construct + provenance',
         'registration collections are ordered sets iterated directly for leaves / slot / lookup; Ord reads exactly the committed fields; leaf encoding covers the leaf; AVK and closed registration built on one path; every node goes through SignerBuilder::new; total stake = checked sum; the signer associates every registered signer with a stake or fails (no dropping); the served Mithril stake distribution is the next-epoch set the signed key commits',
         'injectivity of the commitment (hash); codec round trips'),
 'C08': ('static analysis: who-may-call + argument-role provenance + effect-closure purity',
         'is_lottery_won has exactly the signer and verifier callers with identical argument roles; the draw hashes message, index and sigma; the decision closure is effect-free; the signer iterates 0..m; stake and total stake are converted losslessly; a signer exists only for an initializer whose whole (key, stake) entry is registered',
         'the numerical core: exactness of the Taylor comparison, error band, monotonicity, zero-stake / phi_f=1 outcomes'),
 'C11': ('static analysis: who-may-construct + must-pass-through + provenance + format-template injectivity + field coverage',
         'Verified* values only from verify(); per-set-proof verification, common root, at least one; v2 root/items/offset provenance; leaf identifier covers all fields with injective text templates; stake leaf template; every stake entry becomes a leaf; message recomputation from verified values; nested map proof rules',
         'hash-level injectivity; the aggregator prover'),
 'C12': ('static analysis: collection-type facts + comparison guards + provenance + effect-closure purity',
         'digests keyed by an ordered map feed the tree in key order; Ord(number, path); sorted listing; number <= beacon filter and beacon-exists guard; the listing is consumed only through the beacon filter (forward taint: files beyond the beacon decide nothing); digest per entry from its cache entry or its bytes; cache failures cannot change the result; no clock/RNG/hash-order dependence',
         'byte sensitivity (hash) incl. whether a hand-written block loop covers every byte (numeric, seed C12-5 declined); real directory layouts; cache staleness for changed files'),
 'C13': ('static analysis: effect ordering inside transactions + per-batch loop rules + embedded SQL comparison operators',
         'roll-back = begin < 3 deletes bound to one block number < commit; every polled batch stored or rolled back with errors propagated; resume cursor read/written only behind the end of the stream (directly or through an awaited helper whose Ok requires it); no element-dropping adapter between a polled batch and the store; a chain position kept in memory by an importer is the streaming cursor or is rewritten on the roll-back path; chunk-atomic store; SQL threshold directions; foreign-key enforcement on every chain-data connection; the block streamer forwards every roll-back but the opening one',
         'convergence over histories; restart behaviour'),
 'C14': ('static analysis: must-pass-through per return kind + effect ordering + provenance + who-may-call + state-relation guards + embedded SQL operator',
         'create_certificate: flags, multi-signature, self-verification < store < mark; certificate field provenance; who stores certificates; Idle->Ready guards; epoch-initialisation order; gap test before walk; strict pruning threshold of open messages',
         'the invariant over all interleavings; SQL uniqueness; master-certificate query'),
 'C15': ('static analysis: effect ordering + provenance + error-mapping + lock pairing',
         'verify < insert < mark order; AlreadyCertified is raised only under the open message\'s own flag (the stored-but-unflagged window stays re-sealable); nothing persisted on the no-certificate return; artifact record fields from the inputs; artifact only with the sealed certificate; ReInit/KeepState mapping; entity lock released on every exit of the spawned task; the restart-time clean-up keeps the current epoch\'s open messages (SQL operator)',
         'what a restart finds after each cut; progress'),
 'C16': ('static analysis: effect ordering + provenance + influence-on-control + who-may-call',
         'verify < store on an open non-expired message; stored = verified signature; key looked up by slot in the epoch registration; certificate signer filter; ingestion paths; DMQ sender pairing; party-label binding: the comparison of the slot key with the key registered by the claimed party gates success on every path',
         'storage-key semantics in SQL'),
 'C17': ('static analysis: effect-closure purity + who-may-construct + arithmetic-shape rules',
         'beacon function effect-free; block-number entity variants derived from a tip only there; rounding formula of each signing configuration with saturating subtraction and a structurally non-zero divisor (or checked division); operand roles incl. no dependence on another entity\'s signing configuration; all kinds handled',
         'the arithmetic claims (<= tip-k, monotone, multiples, range boundary)'),
 'C19': ('static analysis: effect ordering + who-may-construct + must-pass-through + provenance',
         'ancillary: temp-dir unpack < verify < move, temp dir removed on every exit; ValidatedAncillaryManifest only from verify (data hashes, signature present, configured key); only listed files moved; immutable archives unpacked into the target (known finding); unexpected files removed on every exit once downloads started; the restoring side uses the path-confining tar API only; every manifest entry hashed and compared',
         'archive-parser behaviour; fault injection while moving files'),
 'C20': ('static analysis: provenance + effect ordering + who-may-call/construct + constant relations',
         'offered beacons pass the already-signed filter; sign < publish < mark with errors propagated; signing only from ReadyToSign, entered after registration and can_sign; epoch change leaves it; offset algebra; offsets at the key-rotation sites; epoch roles (node vs aggregator epoch, registration vs aggregation configuration) of every input of the signer\'s epoch data; next-epoch message parts read the next retrieval epoch; registration accepted before the keys are stored; the beacon is computed for the state machine\'s time point',
         'exactly-once under faults; acceptance by the aggregator'),
}

NOT_YET = {
}

NOT_APPLICABLE = {
}


def main():
    props = []
    with open(os.path.join(HERE, 'properties.jsonl')) as f:
        for l in f:
            props.append(json.loads(l))
    checks = []
    na = []
    for p in props:
        pid = p['id']
        mod = os.path.join(HERE, 'rules', 'props', pid.lower() + '.py')
        if pid in META and os.path.exists(mod):
            tech, dec, nodec = META[pid]
            checks.append({
                'property_id': pid,
                'quick_cmd': './check %s quick' % pid,
                'thorough_cmd': './check %s thorough' % pid,
                'evidence_file': 'evidence/%s.json' % pid,
                'replay_cmd_template': './check %s --replay {path}' % pid,
                'engine': 'rules',
                'level_claimed': {
                    'category': 'other',
                    'text': 'Static analysis of the type-checked MIR of the current tree, exhaustive over all CFG paths / call sites of the '
                            'analysed build for these structural clauses: ' + dec + '. These are necessary conditions of the property, '
                            'not the property; a violated clause is reported as the concrete construct (file:line, fn, rule instance).',
                    'design_ref': 'DESIGN.md section 4, ' + pid,
                },
                'level_note': 'Trusted base: rustc nightly MIR construction, driver/, rules/. Only the default-feature x86-64 `cargo check --lib --bins` '
                              'build is analysed. Does not decide: ' + nodec + '.',
                'technique': tech,
            })
        elif pid in NOT_APPLICABLE:
            na.append({'property_id': pid, 'reason': NOT_APPLICABLE[pid]})
        else:
            na.append({'property_id': pid, 'reason': NOT_YET.get(pid, 'static check under construction in this round (rule tables for this property are not armed yet); '
                                                                      'not claimed until it runs clean on the pinned tree')})
    claimed = [c['property_id'] for c in checks]
    man = {
        'version': 1,
        'setup_cmd': './check --setup',
        'hooks': {
            'guard': 'mithril_verif',
            'enable': 'none needed: the checks are static (rustc_private driver under RUSTC_WORKSPACE_WRAPPER); no hook was added to /repo',
            'baseline_off_cmd': 'cd /repo && cargo nextest run --workspace --no-fail-fast --offline --test-threads 8',
            'source_commits': [],
            'add_only': True,
        },
        'engines': [
            {'name': 'mvs-driver', 'path': 'driver/', 'serves_properties': claimed,
             'kind_free_text': 'rustc_private fact extractor (RUSTC_WORKSPACE_WRAPPER under cargo +nightly check): type-checked mir_built of every '
                               'workspace body, ADTs, impls, consts, format templates; re-derived whenever the /repo tree hash changes'},
            {'name': 'rules', 'path': 'rules/', 'serves_properties': claimed,
             'kind_free_text': 'python rule engine over the fact base: guarded must-pass-through, ordering, who-may-call/construct, field coverage, '
                               'provenance slices, comparison guards (order abstraction), wire-integer taint, panic inventory, lock regions'},
            {'name': 'selftest', 'path': 'selftest/', 'serves_properties': claimed,
             'kind_free_text': 'checker self-test (thorough tier): semantic mutations that must fire, behaviour-preserving edits that must stay silent'},
        ],
        'checks': checks,
        'not_applicable': na,
        'notes': 'All checks are static analysis (no Mithril code is executed). quick = all rule instances of the property on facts of the current tree '
                 '(facts are re-derived when the tree hash changes, ~15-60 s; otherwise reused, ~1 s). thorough = quick + the checker self-test of that '
                 'property on a scratch copy outside /repo and /verif. Genuine defects found on the pinned tree were repaired by fix: commits in /repo or are '
                 'listed in known_findings.json (see DESIGN.md section 5).',
    }
    with open(os.path.join(HERE, 'MANIFEST.json'), 'w') as f:
        json.dump(man, f, indent=1)
    print('MANIFEST: %d checks, %d not claimed' % (len(checks), len(na)))


if __name__ == '__main__':
    main()
