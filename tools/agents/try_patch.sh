#!/bin/bash
# usage: try_rf.sh <prop> <patch>   -- applies a patch to a scratch copy of /repo, runs the check there
SC=/var/tmp/mvs-try/repo
mkdir -p /var/tmp/mvs-try
rsync -a --delete --exclude /target --exclude .git --exclude /docs --exclude /mithril-explorer /repo/ $SC/
cd $SC && git apply $2 2>/tmp/apply_err.txt || { echo "APPLY-FAILED $2: $(head -2 /tmp/apply_err.txt)"; exit 1; }
cd /verif && MVS_REPO=$SC MVS_NO_EVIDENCE=1 ./check $1 quick > /tmp/try_out.txt 2>&1; rc=$?
echo "== $1 $2 rc=$rc"; grep -A3 "FAIL\|ANCHOR-MISSING\|ANALYSIS\|rror" /tmp/try_out.txt | head -${3:-24}
