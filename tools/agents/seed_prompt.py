import sys
pid=sys.argv[1]
prop=open('/tmp/prop_%s.txt'%pid).read()
wt='/tmp/wt3-%s'%pid
print(f"""You are a software engineer helping to evaluate a verification tool. You work ONLY inside the git worktree {wt} (a checkout of the open-source Rust project input-output-hk/mithril: Cardano stake-based threshold multi-signature library plus aggregator, signer and client nodes). Do NOT read or write /repo, /verif or any other directory outside {wt}. There is no network: always pass --offline to cargo. Always set CARGO_TARGET_DIR={wt}/target and TMPDIR={wt}/tmp (mkdir it) and build/test only the crates you need (cargo test --offline -p <crate>), because disk is limited. Never kill processes you did not start yourself (no `pkill -f cargo` and the like): other jobs run on this machine.

PROPERTY (this is supposed to hold for the code base), as a JSON record:
{prop}

TASK: produce up to TWO independent, small, realistic source changes (the kind of regression a developer could introduce during a refactor, clean-up, optimisation or feature addition), each of which BREAKS this property, such that for each change:
 1. the workspace crates affected still compile;
 2. the EXISTING tests of the affected crate(s) still pass, unedited (run them and confirm);
 3. the violation needs something specific to manifest - a particular interleaving, a crash/fault at a particular point, a multi-step sequence of operations, an unusual/adversarial input, a boundary value, or two cooperating sites that each look fine alone - NOT something that ordinary use or the existing tests expose at once;
 4. the changes target DIFFERENT clauses / mechanisms / code sites of the property (read the property carefully: it usually has several parts, and several places in the code implement it - prefer the less obvious ones, e.g. a helper, a sibling implementation, a database query, a conversion, an error path, rather than deleting the most visible check).
Subtle changes are worth more than blunt ones: a weakened comparison, a value taken from a neighbouring source, a reordered pair of steps, an error turned into a default, a condition that is right except for one case. Only non-test source code may be changed by a mutation. Do not edit existing tests.

For each change also write a DEMONSTRATION: a new test (e.g. a new file under the crate's tests/ directory, or a new #[cfg(test)] module in a new file wired by one `mod` line - keep it separate from the mutation) or a small program, that FAILS (test failure / wrong output) with the change applied and PASSES on the unchanged tree. You must verify both directions yourself.

DELIVERABLES, for change N in {{1,2}}, under {wt}/OUT/N/ :
  - patch.diff : `git diff` of the source mutation ONLY (must apply with `git apply` on the pristine worktree HEAD; must not contain the demonstration)
  - demo/ : the demonstration file(s), plus demo/README.md with the exact relative path where each file must be placed and the exact command that runs it
  - demo.diff : a git diff that adds the demonstration to the pristine tree (so that `git apply demo.diff` then the command works)
  - meta.json : {{"property": "{pid.upper()}", "summary": "...", "mechanism_broken": "...", "needs_to_manifest": "...", "files_changed": [...], "existing_tests_run": "command + result", "demo_command": "...", "demo_result_with_patch": "...", "demo_result_without_patch": "..."}}
At the end leave the worktree's tracked files pristine (git checkout -- . ; remove untracked demo files outside OUT/), and delete {wt}/target and {wt}/tmp to free disk. Your final answer: a short summary of each change (file, what was changed, why it breaks the property, what is needed to expose it) and whether all verifications succeeded. If you cannot find a change satisfying everything for this property, say so honestly rather than delivering a weak one.""")
