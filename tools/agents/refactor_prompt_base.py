import sys
pid=sys.argv[1]
prop=open('/tmp/prop_%s.txt'%pid).read()
print(f"""You are a senior Rust engineer. You work ONLY inside the git worktree /tmp/rf-{pid} (a checkout of the open-source Rust project input-output-hk/mithril: Cardano stake-based threshold multi-signature library plus aggregator, signer and client nodes). Do NOT read or write /repo, /verif or any other directory outside /tmp/rf-{pid}. There is no network: always pass --offline to cargo. Always set CARGO_TARGET_DIR=/tmp/rf-{pid}/target and TMPDIR=/tmp/rf-{pid}/tmp (create it), and build/test only the crates you need (cargo test --offline -p <crate>; for mithril-client use `--features fs,unstable,rustls`), because disk is limited. Other engineers run builds on this machine at the same time: never use unscoped kill commands (no `pkill -f cargo`), kill only PIDs you started.

PROPERTY (it holds for the code base today and must STILL hold after your changes):
{prop}

TASK: first find the production code that implements this property (entry points, checks, ordering of effects, comparisons, data flow). Then produce up to FOUR independent, realistic, BEHAVIOUR-PRESERVING refactorings of that code — the kind of clean-up a maintainer would merge — such that the property still holds and the observable behaviour is unchanged for every input. Aim for refactorings that change the SHAPE of exactly the code that matters for the property, for example:
  - extract part of a function into a new private helper, or inline a helper into its caller;
  - move a check or a step from one function to another (caller <-> callee) without changing when it happens;
  - rewrite an iterator chain as a for loop or vice versa; `?` as match / if let / let-else or vice versa; early return vs nested if;
  - rename functions / parameters / locals; reorder parameters of a private function; reorder independent statements;
  - introduce an intermediate variable or a boolean flag for a condition, flip a comparison (`a < b` as `b > a`, `!(a >= b)`), De Morgan;
  - replace a construct by an equivalent library call (e.g. `.map_err(..)?.` vs `with_context`, `iter().any` vs `contains`, `checked_` + explicit handling that yields the same result);
  - split a large function in two, merge two small ones, change a method into a free function, move a function to another module of the same crate.
Each refactoring must: (1) compile for all workspace crates that depend on the changed code (cargo check --offline -p <crate> for the direct dependents); (2) keep the EXISTING tests of the affected crate(s) passing, unedited; (3) be genuinely behaviour-preserving — argue why in meta.json; if you are not sure, do not deliver it. The four refactorings should touch different functions / mechanisms where possible. Only non-test source code may be changed.

DELIVERABLES, for refactoring N in {{1,2,3,4}}, under /tmp/rf-{pid}/OUT/N/ :
  - patch.diff : `git diff` of the refactoring ONLY (must apply with `git apply` on the pristine worktree HEAD)
  - meta.json : {{"property": "{pid.upper()}", "summary": "...", "kind_of_refactoring": "...", "why_behaviour_preserving": "...", "files_changed": [...], "existing_tests_run": "command + result"}}
At the end leave the worktree's tracked files pristine (git checkout -- . ; remove untracked files outside OUT/), and delete /tmp/rf-{pid}/target and /tmp/rf-{pid}/tmp to free disk. Your final answer: a short summary of each refactoring (file, what was changed, why it is behaviour-preserving) and the test results.""")
