import json,sys,os,shutil
src,dst_id,detected=sys.argv[1],sys.argv[2],sys.argv[3]
dst='/verif/seeded/'+dst_id
os.makedirs(dst,exist_ok=True)
shutil.copy(src+'/patch.diff',dst+'/patch.diff')
shutil.copy(src+'/demo.diff',dst+'/demo.diff')
if os.path.isdir(dst+'/demo'): shutil.rmtree(dst+'/demo')
shutil.copytree(src+'/demo',dst+'/demo')
m=json.load(open(src+'/meta.json'))
conf=open(src+'/confirm.txt').read()
meta={'id':dst_id,'property':m['property'],'summary':m['summary'],'mechanism_broken':m.get('mechanism_broken'),
 'needs_to_manifest':m['needs_to_manifest'],'files_changed':m.get('files_changed'),
 'author':'independent sub-agent given only the property text and a scratch worktree',
 'confirmed_by_me':conf.strip().splitlines(),
 'what_i_ran':'scratch worktree /tmp/cf of /repo HEAD: git apply demo.diff; cargo test <demo> (must pass); git apply patch.diff; cargo test <demo> (must fail); pristine + patch.diff: existing tests of the affected crate (must pass)',
 'demo_command':m.get('demo_command'),
 'detected_by':detected}
json.dump(meta,open(dst+'/meta.json','w'),indent=1)
print('kept',dst)
