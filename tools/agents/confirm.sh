#!/bin/bash
# usage: confirm.sh <seed_dir> "<existing-tests cargo args>" "<demo cargo args>"
# confirms: demo passes on pristine, fails with patch; existing tests pass with patch.
SEED=$1; EXIST=$2; DEMO=$3
WT=/tmp/cf
export CARGO_TARGET_DIR=/tmp/cf-target CARGO_NET_OFFLINE=true
if [ ! -d $WT ]; then git -C /repo worktree add -q --detach $WT HEAD; fi
cd $WT && git checkout -q --detach $(git -C /repo rev-parse HEAD) 2>/dev/null; git checkout -q -- . ; git clean -qfd -e OUT
R=$SEED/confirm.txt; : > $R
echo "== seed $SEED at $(git rev-parse --short HEAD)" >> $R
git apply $SEED/demo.diff || { echo "DEMO-APPLY-FAILED" >> $R; exit 1; }
cargo test --offline $DEMO > /tmp/cf-log1.txt 2>&1; rc1=$?
echo "demo on pristine: rc=$rc1 $(grep -E '^test result' /tmp/cf-log1.txt | tr '\n' ' ')" >> $R
git apply $SEED/patch.diff || { echo "PATCH-APPLY-FAILED" >> $R; exit 1; }
cargo test --offline $DEMO > /tmp/cf-log2.txt 2>&1; rc2=$?
echo "demo with patch: rc=$rc2 $(grep -E '^test result|panicked' /tmp/cf-log2.txt | head -4 | tr '\n' ' ')" >> $R
git checkout -q -- . ; git clean -qfd -e OUT
git apply $SEED/patch.diff
cargo test --offline $EXIST > /tmp/cf-log3.txt 2>&1; rc3=$?
echo "existing tests with patch ($EXIST): rc=$rc3 $(grep -E '^test result' /tmp/cf-log3.txt | awk '{p+=$4; f+=$6} END {print p" passed "f" failed"}')" >> $R
git checkout -q -- . ; git clean -qfd -e OUT
if [ $rc1 -eq 0 ] && [ $rc2 -ne 0 ] && [ $rc3 -eq 0 ]; then echo "CONFIRMED" >> $R; else echo "NOT-CONFIRMED" >> $R; fi
cat $R
