import sys
pid=sys.argv[1]; focus=sys.argv[2]
base=__import__('subprocess').run(['python3','/verif/tools/agents/refactor_prompt_base.py',pid],capture_output=True,text=True).stdout
base=base.replace('/tmp/rf-%s'%pid,'/tmp/rf3-%s'%pid)
base=base.replace("TASK: first find the production code","FOCUS: this time concentrate on these recently changed functions and their direct callers/callees (they have had no clean-up pass yet): %s. Do not use `git stash` (the git directory is shared).\n\nTASK: first find the production code"%focus)
print(base)
