//! Probe: a real roll-back that lands exactly on the point the scan started from.
use std::sync::Arc;

use mithril_common::entities::{BlockNumber, SlotNumber};
use tokio::sync::Mutex;

use crate::chain_scanner::{BlockStreamer, ChainReaderBlockStreamer, ChainScannedBlocks};
use crate::entities::{ChainBlockNextAction, RawCardanoPoint, ScannedBlock};
use crate::test::TestLogger;
use crate::test::double::FakeChainReader;

fn block(hash: &str, number: u64, slot: u64) -> ChainBlockNextAction {
    ChainBlockNextAction::RollForward {
        parsed_block: ScannedBlock::new(hash, BlockNumber(number), SlotNumber(slot), Vec::<&str>::new()),
    }
}

/// What a store ends up with after applying the streamed events (the importer's semantics:
/// roll forward = append, roll backward(slot) = drop every block with a greater slot).
async fn replay(mut streamer: ChainReaderBlockStreamer) -> Vec<String> {
    let mut stored: Vec<ScannedBlock> = vec![];
    while let Some(event) = streamer.poll_next().await.unwrap() {
        match event {
            ChainScannedBlocks::RollForwards(blocks) => stored.extend(blocks),
            ChainScannedBlocks::RollBackward(slot) => stored.retain(|b| b.slot_number <= slot),
        }
    }
    stored.into_iter().map(|b| hex::encode(b.block_hash)).collect()
}

#[tokio::test]
async fn rollback_to_the_scan_start_point_after_blocks_were_streamed() {
    let start = RawCardanoPoint::new(SlotNumber(100), "start");
    let chain_reader = Arc::new(Mutex::new(FakeChainReader::new(vec![
        // chain-sync protocol: initial roll-back to the intersection
        ChainBlockNextAction::RollBackward { rollback_point: start.clone() },
        block("a1", 11, 101),
        block("a2", 12, 102),
        // the node switches fork; the fork point is the very point the scan started from
        ChainBlockNextAction::RollBackward { rollback_point: start.clone() },
        block("b1", 11, 103),
    ])));
    let streamer = ChainReaderBlockStreamer::try_new(chain_reader, Some(start), BlockNumber(1000), 100, TestLogger::stdout())
        .await
        .unwrap();

    let stored = replay(streamer).await;
    let expected: Vec<String> = vec![hex::encode("b1")];
    assert_eq!(expected, stored, "blocks a1/a2 of the abandoned fork must not survive");
}
