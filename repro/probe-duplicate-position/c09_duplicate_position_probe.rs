//! F18 probe (C09 / C11): a proof that lists a position twice - first with the committed leaf, then with a forged one - verifies against
//! the committed root, and `contains(forged)` answers Ok: the third-party verifier keeps the first leaf of a position and ignores the
//! others, while `contains` / `leaves` look at all of them.
//! Place under mithril-common/tests/ (create it) and run:
//!   cargo test --offline -p mithril-common --test c09_duplicate_position_probe -- --nocapture
use mithril_common::crypto_helper::{MKProof, MKTree, MKTreeNode, MKTreeStoreInMemory};

#[test]
fn a_leaf_that_was_not_committed_is_never_vouched_for() {
    let leaves: Vec<MKTreeNode> = (0..8).map(|i| MKTreeNode::from(format!("leaf-{i}"))).collect();
    let tree = MKTree::<MKTreeStoreInMemory>::new(&leaves).unwrap();
    let root = tree.compute_root().unwrap();
    let genuine = tree.compute_proof(&leaves[2..3]).unwrap();
    genuine.verify().unwrap();

    let forged_leaf = MKTreeNode::from("never-committed");
    let mut json = serde_json::to_value(&genuine).unwrap();
    let inner_leaves = json["inner_leaves"].as_array_mut().unwrap();
    let mut duplicate = inner_leaves[0].clone();
    duplicate[1] = serde_json::to_value(&forged_leaf).unwrap();
    inner_leaves.push(duplicate);
    let forged: MKProof = serde_json::from_value(json).unwrap();

    let accepted = forged.verify().is_ok() && forged.root() == &root && forged.contains(&[forged_leaf]).is_ok();
    assert!(!accepted, "a proof vouching for a leaf that is not in the tree verifies against the committed root");
}
