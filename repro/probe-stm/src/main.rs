use mithril_stm::*;
use rand_chacha::ChaCha20Rng;
use rand_core::{RngCore, SeedableRng};

type D = MithrilMembershipDigest;

fn setup(params: Parameters, nparties: usize) -> (Vec<Signer<D>>, Clerk<D>) {
    let mut rng = ChaCha20Rng::from_seed([7u8; 32]);
    let mut key_reg = KeyRegistration::initialize();
    let mut ps = vec![];
    for _ in 0..nparties {
        let p = Initializer::new(params, 1 + (rng.next_u64() % 999), &mut rng);
        let entry = RegistrationEntry::new(
            p.get_verification_key_proof_of_possession_for_concatenation(),
            p.stake,
        )
        .unwrap();
        key_reg.register_by_entry(&entry).unwrap();
        ps.push(p);
    }
    let closed = key_reg.close_registration(&params).unwrap();
    let signers: Vec<Signer<D>> = ps.into_iter().map(|p| p.try_create_signer(&closed).unwrap()).collect();
    let clerk = Clerk::new_clerk_from_signer(&signers[0]);
    (signers, clerk)
}

fn ancillary() -> AncillaryProofInput {
    AncillaryProofInput::new(None, AncillaryGenesisData::new())
}

fn main() {
    let which = std::env::args().nth(1).unwrap_or_default();
    let msg = [3u8; 16];
    match which.as_str() {
        "index_m" => {
            // phi_f = 1.0 : every index wins, so the only thing rejecting index == m is the bound check
            let params = Parameters { m: 10, k: 1, phi_f: 1.0 };
            let (signers, clerk) = setup(params, 2);
            let mut sig = signers[0].create_single_signature(&msg).unwrap();
            sig.set_concatenation_signature_indices(&[params.m]); // index == m, outside [0, m)
            let r = clerk.aggregate_signatures_with_type(&[sig], &msg, AggregateSignatureType::Concatenation, ancillary());
            match r {
                Ok((aggr, out)) => {
                    let v = aggr.verify(&msg, &clerk.compute_aggregate_verification_key(), &params, out.verifier_data().cloned(), None);
                    println!("index==m aggregate verify -> {:?}", v.map_err(|e| e.to_string()));
                }
                Err(e) => println!("aggregation refused: {e}"),
            }
            let mut sig = signers[0].create_single_signature(&msg).unwrap();
            sig.set_concatenation_signature_indices(&[params.m + 1]);
            let r = clerk.aggregate_signatures_with_type(&[sig], &msg, AggregateSignatureType::Concatenation, ancillary());
            println!("index==m+1 aggregation -> {:?}", r.map(|_| ()).map_err(|e| e.to_string()));
        }
        "dup" => {
            let params = Parameters { m: 20, k: 3, phi_f: 0.9 };
            let (signers, clerk) = setup(params, 2);
            let sigs: Vec<SingleSignature> = signers.iter().filter_map(|s| s.create_single_signature(&msg).ok()).collect();
            println!("indices per sig: {:?}", sigs.iter().map(|s| s.get_concatenation_signature_indices()).collect::<Vec<_>>());
            let once = clerk.aggregate_signatures_with_type(&sigs, &msg, AggregateSignatureType::Concatenation, ancillary());
            println!("once   -> {:?}", once.map(|_| ()).map_err(|e| format!("{e:#}")));
            let mut twice = sigs.clone();
            twice.extend(sigs.clone());
            let r = clerk.aggregate_signatures_with_type(&twice, &msg, AggregateSignatureType::Concatenation, ancillary());
            println!("twice  -> {:?}", r.map(|_| ()).map_err(|e| format!("{e:#}")));
        }
        "cap" => {
            let mut bytes = vec![0u8]; // legacy type prefix: Concatenation
            bytes.extend_from_slice(&u64::MAX.to_be_bytes()); // total_sigs
            let r = AggregateSignature::<D>::from_bytes(&bytes);
            println!("decode -> {:?}", r.map(|_| ()).map_err(|e| e.to_string()));
        }
        "cap2" => {
            let mut bytes = vec![0u8];
            bytes.extend_from_slice(&(1u64 << 40).to_be_bytes());
            let r = AggregateSignature::<D>::from_bytes(&bytes);
            println!("decode -> {:?}", r.map(|_| ()).map_err(|e| e.to_string()));
        }
        "ovf" => {
            // SingleSignatureWithRegisteredParty legacy: size_reg_party = usize::MAX - 3 -> 8 + size overflows
            let mut bytes = vec![0u8; 0];
            bytes.extend_from_slice(&(u64::MAX - 3).to_be_bytes());
            bytes.extend_from_slice(&[0u8; 32]);
            let r = SingleSignatureWithRegisteredParty::from_bytes::<D>(&bytes);
            println!("decode -> {:?}", r.map(|_| ()).map_err(|e| e.to_string()));
        }
        _ => println!("usage"),
    }
}
