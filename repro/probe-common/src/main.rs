use std::sync::Arc;
use std::time::Duration;

use mithril_common::certificate_chain::{CertificateVerifier, MithrilCertificateVerifier};
use mithril_common::crypto_helper::GenesisVerifier;
use mithril_common::test::builder::CertificateChainBuilder;
use mithril_common::test::double::FakeCertificaterRetriever;
use mithril_resource_pool::{Reset, ResourcePool};

#[derive(Debug, Clone, PartialEq)]
struct Res(&'static str);
impl Reset for Res {}

async fn epoch_direction() {
    // same number of signers every epoch => deterministic fixtures => same AVK every epoch
    let chain = CertificateChainBuilder::new()
        .with_total_certificates(8)
        .with_certificates_per_epoch(2)
        .with_total_signers_per_epoch_processor(&|_epoch| 3)
        .build();
    let certs = chain.reversed_chain(); // oldest first? print epochs
    let epochs: Vec<u64> = certs.iter().map(|c| *c.epoch).collect();
    println!("chain epochs (reversed_chain order): {epochs:?}");
    // pick a standard certificate C of epoch e, and a standard certificate P of epoch e+1
    let c = certs.iter().find(|c| !c.is_genesis() && certs.iter().any(|p| !p.is_genesis() && *p.epoch == *c.epoch + 1)).unwrap().clone();
    let p = certs.iter().find(|p| !p.is_genesis() && *p.epoch == *c.epoch + 1).unwrap().clone();
    println!("C epoch {} hash {}.., honest previous {}..", c.epoch, &c.hash[..8], &c.previous_hash[..8]);
    println!("P epoch {} hash {}..", p.epoch, &p.hash[..8]);
    println!("avk(C)==avk(P): {}", c.aggregate_verification_key == p.aggregate_verification_key);
    // re-target the link of C to P (a certificate of the FOLLOWING epoch) and recompute the hash
    let mut forged = c.clone();
    forged.previous_hash = p.hash.clone();
    forged.hash = forged.try_compute_hash().unwrap();
    let mut all = certs.clone();
    all.push(forged.clone());
    let retriever = FakeCertificaterRetriever::from_certificates(&all);
    let logger = slog::Logger::root(slog::Discard, slog::o!());
    let verifier = MithrilCertificateVerifier::new(
        logger,
        Arc::new(retriever),
        Arc::new(chain.genesis_verifier.clone()),
    );
    let r = verifier.verify_certificate(&forged).await;
    println!("verify_certificate(C re-linked to following-epoch P) -> {:?}", r.as_ref().map(|o| o.as_ref().map(|p| *p.epoch)).map_err(|e| format!("{e:#}")));
    let r = verifier.verify_certificate_chain(forged).await;
    println!("verify_certificate_chain(forged) -> {:?}", r.map_err(|e| format!("{e:#}")));
}

fn pool() {
    // F9a: explicit give-back of an item checked out under an older generation
    let pool = ResourcePool::new(2, vec![Res("old-A")]);
    let item = pool.acquire_resource(Duration::from_millis(10)).unwrap();
    println!("acquired {:?} under generation {}", *item, item.discriminant());
    pool.set_discriminant(1).unwrap();
    pool.clear();
    pool.give_back_resource(Res("new-1"), 1).unwrap();
    pool.give_back_resource_pool_item(item).unwrap();
    let mut got = vec![];
    while let Ok(i) = pool.acquire_resource(Duration::from_millis(10)) { got.push(i.clone()); std::mem::forget(i); }
    println!("F9a after refresh to generation 1 the pool hands out: {got:?}");

    // same history but implicit give-back on drop (control)
    let pool = ResourcePool::new(2, vec![Res("old-A")]);
    let item = pool.acquire_resource(Duration::from_millis(10)).unwrap();
    pool.set_discriminant(1).unwrap();
    pool.clear();
    pool.give_back_resource(Res("new-1"), 1).unwrap();
    drop(item);
    let mut got = vec![];
    while let Ok(i) = pool.acquire_resource(Duration::from_millis(10)) { got.push(i.clone()); std::mem::forget(i); }
    println!("ctrl drop-give-back: pool hands out: {got:?}");

    // F9c: acquire lands between the generation bump and the clear of a refresh
    let pool = ResourcePool::new(2, vec![Res("old-A")]);
    pool.set_discriminant(1).unwrap();                 // refresh step 1
    let item = pool.acquire_resource(Duration::from_millis(10)).unwrap(); // concurrent user
    println!("F9c item {:?} tagged generation {}", *item, item.discriminant());
    pool.clear();                                       // refresh step 2
    pool.give_back_resource(Res("new-1"), 1).unwrap(); // refresh step 3
    drop(item);                                         // user returns it (Drop path)
    let mut got = vec![];
    while let Ok(i) = pool.acquire_resource(Duration::from_millis(10)) { got.push(i.clone()); std::mem::forget(i); }
    println!("F9c after refresh to generation 1 the pool hands out: {got:?}");
}

fn label() {
    use mithril_common::entities::ProtocolMessage;
    use mithril_common::protocol::SignerBuilder;
    use mithril_common::test::builder::MithrilFixtureBuilder;
    let fixture = MithrilFixtureBuilder::default().with_signers(3).build();
    let message = ProtocolMessage::new();
    let multi_signer = SignerBuilder::new(&fixture.signers_with_stake(), &fixture.protocol_parameters()).unwrap().build_multi_signer();
    let sigs = fixture.sign_all(&message);
    let mut s = sigs[0].clone();
    let other = fixture.signers_with_stake().into_iter().map(|s| s.party_id).find(|p| *p != s.party_id).unwrap();
    println!("honest label {} (slot {})", s.party_id, s.signature.signer_index);
    println!("verify honest          -> {:?}", multi_signer.verify_single_signature(&message, &s).map_err(|e| e.to_string()));
    s.party_id = other.clone();
    println!("relabelled as {}", other);
    println!("verify under other name -> {:?}", multi_signer.verify_single_signature(&message, &s).map_err(|e| e.to_string()));
}

#[tokio::main]
async fn main() {
    match std::env::args().nth(1).as_deref() {
        Some("epoch") => epoch_direction().await,
        Some("pool") => pool(),
        Some("label") => label(),
        _ => println!("usage"),
    }
}
