//! NOT a mutation deliverable - side finding on the UNCHANGED tree (feature `unstable`, verifier cache).
//!
//! Place as `mithril-client/tests/c03_pristine_cache_wrong_hash_probe.rs` and run
//!   cargo test --offline -p mithril-client --features rustls,full,unstable --test c03_pristine_cache_wrong_hash_probe -- --nocapture
//! On the pristine HEAD this test FAILS: the second `verify_chain` of a fully adversarial chain returns Ok.
//! Reason: `verify_without_cache` caches (hash -> previous_hash) of a certificate as soon as it is verified against its
//! downloaded parent, even if the parent then fails; on the next attempt `verify_with_cache_enabled` follows the cached
//! link with `ToDownload { hash }` and never checks that the certificate served for that hash actually has that hash,
//! so the provider can answer the hash of the failing (adversarial) parent with any genuine certificate.
#![cfg(feature = "unstable")]
use std::collections::HashMap;
use std::sync::{Arc, Mutex};

use async_trait::async_trait;
use chrono::TimeDelta;

use mithril_client::certificate_client::{
    CertificateAggregatorRequest, CertificateClient, MemoryCertificateVerifierCache,
    MithrilCertificateVerifier,
};
use mithril_client::feedback::FeedbackSender;
use mithril_client::{MithrilCertificate, MithrilCertificateListItem, MithrilResult};
use mithril_common::entities::{Certificate, Epoch};
use mithril_common::test::builder::CertificateChainBuilder;

struct UntrustedAggregator {
    certificates: Mutex<HashMap<String, MithrilCertificate>>,
}

impl UntrustedAggregator {
    fn serve(&self, hash: &str, certificate: &Certificate) {
        let message: MithrilCertificate = certificate.clone().try_into().unwrap();
        self.certificates.lock().unwrap().insert(hash.to_string(), message);
    }
}

#[async_trait]
impl CertificateAggregatorRequest for UntrustedAggregator {
    async fn list_latest(&self) -> MithrilResult<Vec<MithrilCertificateListItem>> {
        Ok(vec![])
    }

    async fn get_by_hash(&self, hash: &str) -> MithrilResult<Option<MithrilCertificate>> {
        Ok(self.certificates.lock().unwrap().get(hash).cloned())
    }
}

fn logger() -> slog::Logger {
    slog::Logger::root(slog::Discard, slog::o!())
}

fn relink(certificate: &Certificate, previous: &Certificate) -> Certificate {
    let mut certificate = certificate.clone();
    certificate.previous_hash = previous.hash.clone();
    certificate.hash = certificate.try_compute_hash().unwrap();
    certificate
}

#[tokio::test]
async fn probe() {
    let genuine = CertificateChainBuilder::new()
        .with_total_certificates(6)
        .with_certificates_per_epoch(1)
        .build();
    let adversarial = CertificateChainBuilder::new()
        .with_total_certificates(6)
        .with_certificates_per_epoch(1)
        .with_total_signers_per_epoch_processor(&|_| 2)
        .build();
    let at = |chain: &[Certificate], epoch: u64| {
        chain.iter().find(|c| c.epoch == Epoch(epoch)).unwrap().clone()
    };
    let g2 = at(&genuine, 2);
    let g3 = at(&genuine, 3);
    let q = relink(&at(&adversarial, 3), &g2);
    let p = relink(&at(&adversarial, 4), &q);
    let c = relink(&at(&adversarial, 5), &p);

    let aggregator = Arc::new(UntrustedAggregator {
        certificates: Mutex::new(HashMap::new()),
    });
    for certificate in genuine.iter() {
        aggregator.serve(&certificate.hash, certificate);
    }
    for certificate in [&q, &p, &c] {
        aggregator.serve(&certificate.hash, certificate);
    }

    let genesis_verification_key: String = genuine
        .genesis_verifier
        .to_ed25519_verification_key()
        .try_into()
        .unwrap();
    let requester: Arc<dyn CertificateAggregatorRequest> = aggregator.clone();
    let cache = Arc::new(MemoryCertificateVerifierCache::new(TimeDelta::hours(1)));
    let verifier = MithrilCertificateVerifier::new(
        requester.clone(),
        &genesis_verification_key,
        FeedbackSender::new(&[]),
        Some(cache),
        logger(),
    )
    .unwrap();
    let client = CertificateClient::new(requester, Arc::new(verifier), logger());

    let first = client.verify_chain(&c.hash).await;
    println!("first attempt: {:?}", first.as_ref().map(|c| c.hash.clone()));
    assert!(first.is_err());

    // second attempt, same hash everywhere: the provider answers the hash of `q` with a genuine certificate
    aggregator.serve(&q.hash, &g3);
    let second = client.verify_chain(&c.hash).await;
    println!("second attempt: {:?}", second.as_ref().map(|c| c.hash.clone()));
    assert!(second.is_err(), "PRISTINE HOLE: adversarial chain accepted on second attempt");
}
