//! Side probe (NOT one of the three mutations): on the UNCHANGED tree, `batch_verify` accepts a
//! batch of two aggregate signatures for the same message and aggregate verification key, each
//! holding a single signature slot, whose sigmas were shifted by opposite offsets
//! (`BlsSignature::aggregate` returns `(vks[0], sigs[0])` untouched when there is one signature,
//! and `batch_verify_aggregates` adds the members without coefficients). Each member is rejected
//! by `verify`. Place under mithril-stm/tests/ and run with
//! `cargo test --offline -p mithril-stm --test pristine_batch_probe -- --nocapture`:
//! it prints `alone 0: false`, `alone 1: false`, `batch: true`.

use blake2::{Blake2b512, Digest};
use blst::{
    BLST_ERROR, blst_p1, blst_p1_add_or_double, blst_p1_affine, blst_p1_cneg, blst_p1_compress,
    blst_p1_from_affine, blst_p1_generator, blst_p1_uncompress,
};
use rand_chacha::ChaCha20Rng;
use rand_core::SeedableRng;
use serde_json::{Value, json};

use mithril_stm::{
    AggregateSignature, AggregateSignatureType, AggregateVerificationKey, AncillaryGenesisData,
    AncillaryProofInput, Clerk, ClosedKeyRegistration, Initializer, KeyRegistration,
    MithrilMembershipDigest, Parameters, RegistrationEntry, Signer, SingleSignature, Stake,
};

type D = MithrilMembershipDigest;

fn p1_uncompress(bytes: &[u8; 48]) -> Option<blst_p1> {
    unsafe {
        let mut affine = blst_p1_affine::default();
        if blst_p1_uncompress(&mut affine, bytes.as_ptr()) != BLST_ERROR::BLST_SUCCESS {
            return None;
        }
        let mut point = blst_p1::default();
        blst_p1_from_affine(&mut point, &affine);
        Some(point)
    }
}

fn p1_compress(point: &blst_p1) -> [u8; 48] {
    let mut out = [0u8; 48];
    unsafe { blst_p1_compress(out.as_mut_ptr(), point) };
    out
}

fn p1_add(a: &blst_p1, b: &blst_p1) -> blst_p1 {
    let mut out = blst_p1::default();
    unsafe { blst_p1_add_or_double(&mut out, a, b) };
    out
}

fn p1_neg(point: &blst_p1) -> blst_p1 {
    let mut out = *point;
    unsafe { blst_p1_cneg(&mut out, true) };
    out
}

/// The lottery of the concatenation proof system, restated: `ev / 2^512 < 1 - (1 - phi_f)^w`.
/// Only clear wins are reported (a safety margin absorbs the f64 rounding).
fn wins_lottery(
    params: &Parameters,
    stake: Stake,
    total_stake: Stake,
    msgp: &[u8],
    index: u64,
    sigma: &[u8],
) -> bool {
    let ev = Blake2b512::new()
        .chain_update(b"map")
        .chain_update(msgp)
        .chain_update(index.to_le_bytes())
        .chain_update(sigma)
        .finalize();
    let mut top = [0u8; 8];
    top.copy_from_slice(&ev[56..64]);
    let p = u64::from_le_bytes(top) as f64 / 2f64.powi(64);
    let phi = 1.0 - (1.0 - params.phi_f).powf(stake as f64 / total_stake as f64);
    p < phi - 1e-9
}

fn bytes_of(value: &Value) -> Vec<u8> {
    value
        .as_array()
        .unwrap()
        .iter()
        .map(|b| b.as_u64().unwrap() as u8)
        .collect()
}

fn no_ancillary_input() -> AncillaryProofInput {
    AncillaryProofInput::new(
        None,
        AncillaryGenesisData::new(
            #[cfg(feature = "future_snark")]
            Vec::new(),
            #[cfg(feature = "future_snark")]
            None,
            #[cfg(feature = "future_snark")]
            None,
        ),
        #[cfg(feature = "future_snark")]
        Vec::new(),
    )
}

fn setup(params: Parameters, stakes: &[Stake]) -> (Vec<Signer<D>>, ClosedKeyRegistration) {
    let mut rng = ChaCha20Rng::from_seed([7u8; 32]);
    let mut key_registration = KeyRegistration::initialize();
    let initializers: Vec<Initializer> = stakes
        .iter()
        .map(|stake| {
            let initializer = Initializer::new(params, *stake, &mut rng);
            let entry: RegistrationEntry = initializer.clone().try_into().unwrap();
            key_registration.register_by_entry(&entry).unwrap();
            initializer
        })
        .collect();
    let closed_registration = key_registration.close_registration(&params).unwrap();
    let signers = initializers
        .into_iter()
        .map(|initializer| initializer.try_create_signer::<D>(&closed_registration).unwrap())
        .collect();
    (signers, closed_registration)
}

#[test]
fn same_message_single_slot_members() {
    let params = Parameters {
        m: 60,
        k: 3,
        phi_f: 0.5,
    };
    let stakes = [1000, 1000, 1000, 1000];
    let total_stake: Stake = stakes.iter().sum();
    let (signers, closed_registration) = setup(params, &stakes);
    let msg = [0x5au8; 32];
    let avk: AggregateVerificationKey<D> =
        Clerk::new_clerk_from_signer(&signers[0]).compute_aggregate_verification_key();
    let avk_json = serde_json::to_value(avk.to_concatenation_aggregate_verification_key()).unwrap();
    let mut msgp = msg.to_vec();
    msgp.extend(bytes_of(&avk_json["mt_commitment"]["root"]));
    let clerk: Clerk<D> = Clerk::new_clerk_from_closed_key_registration(
        &Parameters { k: 1, ..params },
        &closed_registration,
    );
    let mut members = Vec::new();
    for signer in &signers[..2] {
        let signature: SingleSignature = signer.create_single_signature(&msg).unwrap();
        let (envelope, _) = clerk
            .aggregate_signatures_with_type(
                std::slice::from_ref(&signature),
                &msg,
                AggregateSignatureType::Concatenation,
                no_ancillary_input(),
            )
            .unwrap();
        members.push(serde_json::to_value(&envelope).unwrap());
    }
    let sigma = |json: &Value| -> blst_p1 {
        let mut bytes = [0u8; 48];
        bytes.copy_from_slice(&bytes_of(&json["signatures"][0][0]["sigma"]));
        p1_uncompress(&bytes).unwrap()
    };
    let (sigma_0, sigma_1) = (sigma(&members[0]), sigma(&members[1]));
    let generator = unsafe { *blst_p1_generator() };
    let mut delta = generator;
    let mut found = None;
    for _ in 0..100_000 {
        let moved_0 = p1_compress(&p1_add(&sigma_0, &delta));
        let moved_1 = p1_compress(&p1_add(&sigma_1, &p1_neg(&delta)));
        let won_0: Vec<u64> = (0..params.m)
            .filter(|i| wins_lottery(&params, stakes[0], total_stake, &msgp, *i, &moved_0))
            .collect();
        let won_1: Vec<u64> = (0..params.m)
            .filter(|i| wins_lottery(&params, stakes[1], total_stake, &msgp, *i, &moved_1))
            .collect();
        if won_0.len() as u64 >= params.k && won_1.len() as u64 >= params.k {
            found = Some((moved_0, won_0, moved_1, won_1));
            break;
        }
        delta = p1_add(&delta, &generator);
    }
    let (moved_0, won_0, moved_1, won_1) = found.unwrap();
    members[0]["signatures"][0][0]["sigma"] = json!(moved_0.to_vec());
    members[0]["signatures"][0][0]["indexes"] = json!(won_0);
    members[1]["signatures"][0][0]["sigma"] = json!(moved_1.to_vec());
    members[1]["signatures"][0][0]["indexes"] = json!(won_1);
    let member_0: AggregateSignature<D> = serde_json::from_value(members[0].clone()).unwrap();
    let member_1: AggregateSignature<D> = serde_json::from_value(members[1].clone()).unwrap();
    let member_0_alone = member_0.verify(&msg, &avk, &params, None, None).is_ok();
    let member_1_alone = member_1.verify(&msg, &avk, &params, None, None).is_ok();
    println!("alone 0: {member_0_alone:?}");
    println!("alone 1: {member_1_alone:?}");
    let batch = AggregateSignature::<D>::batch_verify(
        &[member_0, member_1],
        &[msg.to_vec(), msg.to_vec()],
        &[avk.clone(), avk.clone()],
        &[params, params],
        &[None, None],
        &[None, None],
    );
    println!("batch: {:?}", batch.is_ok());
    assert!(!member_0_alone && !member_1_alone, "each member must be invalid alone");
    assert!(batch.is_err(), "a batch of two members that are each rejected alone is accepted");
}
