use std::collections::BTreeMap;
use std::fs;
use std::path::Path;

use mithril_client::cardano_database_client::{ImmutableFileRange, VerifiedDigests};
use mithril_client::{CardanoDatabaseSnapshot, ClientBuilder, MithrilCertificate};
use mithril_common::crypto_helper::{MKTree, MKTreeStoreInMemory};
use mithril_common::test::double::{Dummy, fake_keys};
use sha2::{Digest, Sha256};

fn digest(p: &Path) -> String {
    hex::encode(Sha256::digest(fs::read(p).unwrap()))
}

#[tokio::main]
async fn main() {
    let db = std::env::temp_dir().join("probe-client-db");
    let _ = fs::remove_dir_all(&db);
    let imm = db.join("immutable");
    fs::create_dir_all(&imm).unwrap();
    let mut names = vec![];
    for n in 1..=3u64 {
        for ext in ["chunk", "primary", "secondary"] {
            let name = format!("{n:05}.{ext}");
            fs::write(imm.join(&name), format!("content of {name}")).unwrap();
            names.push(name);
        }
    }
    // the certified name -> digest list, as an honest aggregator would serve it
    let digests: BTreeMap<String, String> = names.iter().map(|n| (n.clone(), digest(&imm.join(n)))).collect();
    let values: Vec<&String> = digests.values().collect();
    let merkle_tree: MKTree<MKTreeStoreInMemory> = MKTree::new(&values).unwrap();
    let verified = VerifiedDigests { digests, merkle_tree };

    let client = ClientBuilder::aggregator("http://localhost:1/aggregator", fake_keys::genesis_verification_key()[0]).build().unwrap();
    let mut snapshot = CardanoDatabaseSnapshot::dummy();
    snapshot.beacon.immutable_file_number = 3;
    let certificate = MithrilCertificate::dummy();
    let dbc = client.cardano_database_v2();

    let r = dbc.verify_cardano_database(&certificate, &snapshot, &ImmutableFileRange::Range(1, 3), false, &db, &verified).await;
    println!("honest directory          -> {}", if r.is_ok() { "Ok".to_string() } else { format!("Err({})", r.unwrap_err()) });

    // swap the contents of two certified files (every content is still a certified one, under the wrong name)
    let a = fs::read(imm.join("00001.chunk")).unwrap();
    let b = fs::read(imm.join("00002.chunk")).unwrap();
    fs::write(imm.join("00001.chunk"), &b).unwrap();
    fs::write(imm.join("00002.chunk"), &a).unwrap();
    let r = dbc.verify_cardano_database(&certificate, &snapshot, &ImmutableFileRange::Range(1, 3), false, &db, &verified).await;
    println!("00001.chunk <-> 00002.chunk -> {}", if r.is_ok() { "Ok".to_string() } else { format!("Err({})", r.unwrap_err()) });

    // copy one certified file's content over another
    fs::write(imm.join("00003.chunk"), &a).unwrap();
    let r = dbc.verify_cardano_database(&certificate, &snapshot, &ImmutableFileRange::Range(1, 3), false, &db, &verified).await;
    println!("00003.chunk := content of 00001 -> {}", if r.is_ok() { "Ok".to_string() } else { format!("Err({})", r.unwrap_err()) });

    // control: fresh bytes
    fs::write(imm.join("00003.chunk"), b"garbage").unwrap();
    let r = dbc.verify_cardano_database(&certificate, &snapshot, &ImmutableFileRange::Range(1, 3), false, &db, &verified).await;
    println!("control, fresh bytes       -> {}", if r.is_ok() { "Ok".to_string() } else { "Err(..)".to_string() });
    let _ = fs::remove_dir_all(&db);
}
