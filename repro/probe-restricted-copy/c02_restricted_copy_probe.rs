//! F15 probe (C02): a copy of an honest signature restricted to the lowest index it holds, handed to the aggregator BEFORE the
//! original, must not turn a successful aggregation into a failure.
//! Place under mithril-stm/tests/ and run: cargo test --offline -p mithril-stm --test c02_restricted_copy_probe -- --nocapture
use rand_chacha::ChaCha20Rng;
use rand_core::SeedableRng;
use std::collections::BTreeSet;

use mithril_stm::{
    AggregateSignatureType, AggregateVerificationKey, AncillaryGenesisData, AncillaryProofInput,
    Clerk, ClosedKeyRegistration, Initializer, KeyRegistration, MithrilMembershipDigest,
    Parameters, RegistrationEntry, Signer, SingleSignature, Stake,
};

type D = MithrilMembershipDigest;

fn no_ancillary_input() -> AncillaryProofInput {
    AncillaryProofInput::new(
        None,
        AncillaryGenesisData::new(
            #[cfg(feature = "future_snark")]
            Vec::new(),
            #[cfg(feature = "future_snark")]
            None,
            #[cfg(feature = "future_snark")]
            None,
        ),
        #[cfg(feature = "future_snark")]
        Vec::new(),
    )
}

fn setup(params: Parameters, stakes: &[Stake]) -> (Vec<Signer<D>>, ClosedKeyRegistration) {
    let mut rng = ChaCha20Rng::from_seed([7u8; 32]);
    let mut key_registration = KeyRegistration::initialize();
    let initializers: Vec<Initializer> = stakes
        .iter()
        .map(|stake| {
            let initializer = Initializer::new(params, *stake, &mut rng);
            let entry: RegistrationEntry = initializer.clone().try_into().unwrap();
            key_registration.register_by_entry(&entry).unwrap();
            initializer
        })
        .collect();
    let closed_registration = key_registration.close_registration(&params).unwrap();
    let signers = initializers
        .into_iter()
        .map(|initializer| initializer.try_create_signer::<D>(&closed_registration).unwrap())
        .collect();
    (signers, closed_registration)
}


#[test]
fn restricted_copy_delivered_first_does_not_break_the_aggregation() {
    let params = Parameters { m: 60, k: 1, phi_f: 0.5 };
    let stakes = [1000, 1000, 1000, 1000];
    let (signers, closed_registration) = setup(params, &stakes);
    let msg = [0x5au8; 32];
    let avk: AggregateVerificationKey<D> =
        Clerk::new_clerk_from_signer(&signers[0]).compute_aggregate_verification_key();
    let honest: Vec<SingleSignature> =
        signers.iter().filter_map(|s| s.create_single_signature(&msg).ok()).collect();
    let covered: BTreeSet<u64> = honest
        .iter()
        .flat_map(|s| s.get_concatenation_signature_indices())
        .collect();
    // the quorum is exactly what the honest signatures cover
    let params = Parameters { k: covered.len() as u64, ..params };
    let clerk: Clerk<D> = Clerk::new_clerk_from_closed_key_registration(&params, &closed_registration);
    let aggregate = |sigs: &[SingleSignature]| {
        clerk.aggregate_signatures_with_type(
            sigs,
            &msg,
            AggregateSignatureType::Concatenation,
            no_ancillary_input(),
        )
    };
    let (honest_aggregate, _) = aggregate(&honest).expect("the honest set reaches the quorum");
    honest_aggregate
        .verify(&msg, &avk, &params, None, None)
        .expect("the honest aggregate verifies");

    // a copy of a signature holding several indices, restricted to the lowest one
    let original = honest
        .iter()
        .find(|s| s.get_concatenation_signature_indices().len() >= 2)
        .expect("a signature with at least two indices");
    let mut restricted = original.clone();
    let lowest = *original.get_concatenation_signature_indices().iter().min().unwrap();
    restricted.set_concatenation_signature_indices(&[lowest]);

    let mut input = vec![restricted];
    input.extend(honest.iter().cloned());
    match aggregate(&input) {
        Ok((aggregate_signature, _)) => aggregate_signature
            .verify(&msg, &avk, &params, None, None)
            .expect("the aggregate built from honest + restricted copy verifies"),
        Err(e) => panic!("the restricted copy turned a successful aggregation into a failure: {e:?}"),
    }
}
