//! C07 demonstration: the KES signature of the verification key of a registration must verify at
//! a KES evolution which is within ONE period of the announced one, for every announced value,
//! including the boundary `0`.

use std::{path::PathBuf, sync::Arc};

use kes_summed_ed25519::{kes::Sum6Kes, traits::KesSk};
use rand_chacha::ChaCha20Rng;
use rand_core::SeedableRng;

use mithril_common::{
    crypto_helper::{
        ColdKeyGenerator, KesEvolutions, KesPeriod, KesSigner, KesSignerStandard, KesVerifier,
        KesVerifierStandard, OpCert, ProtocolInitializer, ProtocolKeyRegistration,
        ProtocolParameters, SerDeShelleyFileFormat, SignerRegistrationParameters, Sum6KesBytes,
    },
    test::crypto_helper::SerDeShelleyFileFormatTestExtension,
};

struct PoolMaterial {
    party_id: String,
    operational_certificate_file: PathBuf,
    kes_secret_key_file: PathBuf,
}

fn create_pool_material(seed: u8, start_kes_period: KesPeriod, test_name: &str) -> PoolMaterial {
    let temp_dir = std::env::temp_dir()
        .join("c07_kes_evolution_window")
        .join(format!("{test_name}_{seed}"));
    std::fs::create_dir_all(&temp_dir).unwrap();

    let cold_keypair = ColdKeyGenerator::create_deterministic_keypair([seed; 32]);
    let mut key_buffer = [0u8; Sum6Kes::SIZE + 4];
    let mut kes_seed = [seed; 32];
    let (kes_secret_key, kes_verification_key) = Sum6Kes::keygen(&mut key_buffer, &mut kes_seed);
    let mut kes_bytes = Sum6KesBytes([0u8; Sum6Kes::SIZE + 4]);
    kes_bytes.0.copy_from_slice(&kes_secret_key.clone_sk());
    let operational_certificate =
        OpCert::new(kes_verification_key, 0, start_kes_period, cold_keypair);

    let kes_secret_key_file = temp_dir.join("kes.skey");
    kes_bytes.to_file(&kes_secret_key_file).unwrap();
    let operational_certificate_file = temp_dir.join("pool.cert");
    operational_certificate.to_file(&operational_certificate_file).unwrap();

    PoolMaterial {
        party_id: operational_certificate.compute_protocol_party_id().unwrap(),
        operational_certificate_file,
        kes_secret_key_file,
    }
}


/// F13 probe: announcing KES evolution 65 must not accept a signature made at evolution 63 (two periods off).
#[test]
fn announced_65_does_not_accept_a_signature_made_at_evolution_63() {
    let start_kes_period = KesPeriod(10);
    let pool = create_pool_material(7, start_kes_period, "f13_probe");
    let kes_signer = KesSignerStandard::new(
        pool.kes_secret_key_file.clone(),
        pool.operational_certificate_file.clone(),
    );
    let message = b"message signed with the KES key";
    let (signature, operational_certificate) =
        kes_signer.sign(message, start_kes_period + KesEvolutions(63)).unwrap();
    for (announced, expected) in [(62u64, true), (63, true), (64, true), (65, false), (66, false)] {
        let accepted = KesVerifierStandard
            .verify(message, &signature, &operational_certificate, KesEvolutions(announced))
            .is_ok();
        assert_eq!(expected, accepted, "signature made at evolution 63, announced {announced}");
    }
}
