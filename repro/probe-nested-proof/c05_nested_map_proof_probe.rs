//! F17 probe (C05): `MKMapProof::from_bytes` recurses once per nesting level of the encoded proof, with no depth bound: a small input
//! made of nested (otherwise empty) sub proofs overflows the stack, which aborts the process (not a catchable panic).
//! Place under internal/mithril-merkle-tree/tests/ and run:
//!   cargo test --offline -p mithril-merkle-tree --test c05_nested_map_proof_probe -- --nocapture
//! Expected on a tree that bounds the depth: the decoder returns (Ok or Err) for every depth. On the pinned tree the test process
//! dies with "thread ... has overflowed its stack" / SIGABRT at the first depth that does not fit.
use std::collections::BTreeMap;

use mithril_merkle_tree::{MKMapKey, MKMapProof, MKTree, MKTreeNode, MKTreeStoreInMemory};
use serde::{Deserialize, Serialize};

#[derive(Clone, Debug, PartialEq, Eq, PartialOrd, Ord, Hash, Serialize, Deserialize)]
struct Key(u64);

impl From<Key> for MKTreeNode {
    fn from(key: Key) -> Self {
        MKTreeNode::from(key.0.to_string())
    }
}

impl MKMapKey for Key {}

fn encoded_nested_proof(depth: usize) -> Vec<u8> {
    let leaves: Vec<MKTreeNode> = vec![MKTreeNode::from("leaf-1"), MKTreeNode::from("leaf-2")];
    let tree = MKTreeStoreInMemoryTree::new(&leaves).unwrap();
    let master = tree.compute_proof(&leaves[..1]).unwrap();
    let depth_0: MKMapProof<Key> = MKMapProof::new(master.clone(), BTreeMap::new());
    let depth_1: MKMapProof<Key> = MKMapProof::new(master, BTreeMap::from([(Key(7), depth_0.clone())]));
    let b0 = depth_0.to_bytes().unwrap();
    let b1 = depth_1.to_bytes().unwrap();
    // standard bincode layout: master proof, number of sub proofs, then (key, sub proof) pairs
    let master_bytes = &b0[..b0.len() - 1];
    assert_eq!(&b1[..master_bytes.len()], master_bytes);
    assert_eq!(b1[master_bytes.len()], 1);
    let key_bytes = &b1[master_bytes.len() + 1..b1.len() - b0.len()];
    let mut level = master_bytes.to_vec();
    level.push(1);
    level.extend_from_slice(key_bytes);
    let mut bytes = Vec::with_capacity(level.len() * depth + b0.len());
    for _ in 0..depth {
        bytes.extend_from_slice(&level);
    }
    bytes.extend_from_slice(&b0);
    bytes
}

type MKTreeStoreInMemoryTree = MKTree<MKTreeStoreInMemory>;

#[test]
fn decoding_a_deeply_nested_map_proof_returns() {
    for depth in [1usize, 10, 100, 1_000, 10_000, 100_000] {
        let bytes = encoded_nested_proof(depth);
        println!("depth {depth}: {} bytes", bytes.len());
        // decoded values are leaked on purpose: dropping a deeply nested value recurses too, and is not what is probed here
        match MKMapProof::<Key>::from_bytes(&bytes) {
            Ok(proof) => {
                println!("  decoded");
                std::mem::forget(proof);
            }
            Err(e) => println!("  rejected: {e}"),
        }
    }
}
