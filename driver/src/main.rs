//! mvs-driver: rustc_private fact extractor for the mithril static checks.
//!
//! Used as RUSTC_WORKSPACE_WRAPPER under `cargo +nightly check`.  For every workspace crate it
//! dumps (from the `after_expansion` callback, i.e. before borrowck steals `mir_built`):
//!   <out>/<crate>.<kind>.idx.json   whole-crate index (fn table, call edges, ADTs, impls, consts, fmt)
//!   <out>/<crate>.<kind>.mir.jsonl  one JSON line per body (full reduced MIR), addressed by offset
//! and then lets compilation continue normally.  No rule lives here: this is only the fact base.
#![feature(rustc_private)]
#![allow(rustc::internal)]

extern crate rustc_abi;
extern crate rustc_ast;
extern crate rustc_ast_pretty;
extern crate rustc_data_structures;
extern crate rustc_driver;
extern crate rustc_hir;
extern crate rustc_interface;
extern crate rustc_middle;
extern crate rustc_session;
extern crate rustc_span;

use std::collections::{BTreeMap, HashMap};
use std::sync::{Mutex, OnceLock};
use std::fmt::Write as _;
use std::io::Write as _;

use rustc_driver::{Callbacks, Compilation};
use rustc_hir::def::DefKind;
use rustc_hir::def_id::{DefId, LocalDefId, LOCAL_CRATE};
use rustc_interface::interface::Compiler;
use rustc_middle::mir::{
    self, AggregateKind, BasicBlock, Body, Operand, Place, PlaceElem, Rvalue, StatementKind,
    TerminatorKind, UnwindAction,
};
use rustc_middle::ty::print::{
    with_crate_prefix, with_no_trimmed_paths, with_no_visible_paths, PrintTraitRefExt,
};
use rustc_data_structures::steal::Steal;
use rustc_middle::ty::{self, Instance, Ty, TyCtxt, TypingEnv};
use rustc_span::Span;

// ---------------------------------------------------------------- JSON helpers

fn jstr(out: &mut String, s: &str) {
    out.push('"');
    for c in s.chars() {
        match c {
            '"' => out.push_str("\\\""),
            '\\' => out.push_str("\\\\"),
            '\n' => out.push_str("\\n"),
            '\r' => out.push_str("\\r"),
            '\t' => out.push_str("\\t"),
            c if (c as u32) < 0x20 => {
                let _ = write!(out, "\\u{:04x}", c as u32);
            }
            c => out.push(c),
        }
    }
    out.push('"');
}

struct Interner {
    map: HashMap<String, usize>,
    vec: Vec<String>,
}
impl Interner {
    fn new() -> Self {
        Interner { map: HashMap::new(), vec: Vec::new() }
    }
    fn get(&mut self, s: &str) -> usize {
        if let Some(i) = self.map.get(s) {
            return *i;
        }
        let i = self.vec.len();
        self.vec.push(s.to_string());
        self.map.insert(s.to_string(), i);
        i
    }
}

// ---------------------------------------------------------------- naming

macro_rules! np {
    ($tcx:expr; $e:expr) => {
        fix_crate($tcx, with_crate_prefix!(with_no_visible_paths!(with_no_trimmed_paths!($e))))
    };
}


/// Canonical, generics-free name of a definition; stable under reordering of impls.
fn canon_name<'tcx>(tcx: TyCtxt<'tcx>, did: DefId) -> String {
    let s = with_crate_prefix!(with_no_visible_paths!(with_no_trimmed_paths!(canon_name_inner(tcx, did))));
    fix_crate(tcx, s)
}

/// `crate::` (printed for local paths under with_crate_prefix) -> the crate's name, so that a
/// definition has the same name whether it is seen from its own crate or from a dependent one.
fn fix_crate<'tcx>(tcx: TyCtxt<'tcx>, s: String) -> String {
    if !s.contains("crate::") {
        return s;
    }
    let cn = tcx.crate_name(LOCAL_CRATE).to_string();
    let mut out = String::with_capacity(s.len() + 16);
    let b = s.as_bytes();
    let mut i = 0;
    while i < b.len() {
        if s[i..].starts_with("crate::") {
            let prev_ok = i == 0 || !(b[i - 1].is_ascii_alphanumeric() || b[i - 1] == b'_');
            if prev_ok {
                out.push_str(&cn);
                out.push_str("::");
                i += 7;
                continue;
            }
        }
        let ch = s[i..].chars().next().unwrap();
        out.push(ch);
        i += ch.len_utf8();
    }
    out
}

fn ty_head<'tcx>(tcx: TyCtxt<'tcx>, t: Ty<'tcx>) -> String {
    match t.kind() {
        ty::Adt(adt, _) => tcx.def_path_str(adt.did()),
        ty::Ref(_, inner, m) => {
            format!("&{}{}", if m.is_mut() { "mut " } else { "" }, ty_head(tcx, *inner))
        }
        ty::Slice(inner) => format!("[{}]", ty_head(tcx, *inner)),
        ty::Array(inner, _) => format!("[{}; N]", ty_head(tcx, *inner)),
        ty::Tuple(ts) => {
            let v: Vec<String> = ts.iter().map(|x| ty_head(tcx, x)).collect();
            format!("({})", v.join(", "))
        }
        ty::Dynamic(..) | ty::Param(_) | ty::Str | ty::Bool | ty::Char | ty::Int(_) | ty::Uint(_)
        | ty::Float(_) => format!("{}", t),
        ty::Foreign(d) => tcx.def_path_str(*d),
        _ => format!("{}", t),
    }
}

fn canon_name_inner<'tcx>(tcx: TyCtxt<'tcx>, did: DefId) -> String {
    let kind = tcx.def_kind(did);
    match kind {
        DefKind::Closure | DefKind::InlineConst | DefKind::AnonConst | DefKind::SyntheticCoroutineBody => {
            let parent = tcx.parent(did);
            let key = tcx.def_key(did);
            return format!(
                "{}::{{{}#{}}}",
                canon_name_inner(tcx, parent),
                match kind {
                    DefKind::Closure => "closure",
                    DefKind::InlineConst => "inline_const",
                    DefKind::AnonConst => "anon_const",
                    _ => "synthetic",
                },
                key.disambiguated_data.disambiguator
            );
        }
        _ => {}
    }
    if let Some(parent) = tcx.opt_parent(did) {
        match tcx.def_kind(parent) {
            DefKind::Impl { of_trait } => {
                let self_ty = tcx.type_of(parent).instantiate_identity().skip_norm_wip();
                let self_s = ty_head(tcx, self_ty);
                let name = tcx.item_name(did);
                if of_trait {
                    let tr = tcx.impl_trait_ref(parent).instantiate_identity().skip_norm_wip();
                    return format!("<{} as {}>::{}", self_s, tcx.def_path_str(tr.def_id), name);
                } else {
                    return format!("{}::{}", self_s, name);
                }
            }
            DefKind::Fn | DefKind::AssocFn | DefKind::Closure | DefKind::Const { .. } | DefKind::AssocConst { .. }
            | DefKind::Static { .. } => {
                // nested item inside a fn body
                if let Some(name) = tcx.opt_item_name(did) {
                    return format!("{}::{}", canon_name_inner(tcx, parent), name);
                }
            }
            _ => {}
        }
    }
    tcx.def_path_str(did)
}

fn span_loc<'tcx>(tcx: TyCtxt<'tcx>, sp: Span) -> (String, usize, usize) {
    let sm = tcx.sess.source_map();
    let sp = sp.source_callsite();
    let lo = sm.lookup_char_pos(sp.lo());
    let hi = sm.lookup_char_pos(sp.hi());
    let fname = match &lo.file.name {
        rustc_span::FileName::Real(r) => match r.local_path() {
            Some(p) => p.to_string_lossy().to_string(),
            None => format!("{:?}", lo.file.name),
        },
        other => format!("{:?}", other),
    };
    (fname, lo.line, hi.line)
}

// ---------------------------------------------------------------- body dump

struct Cx<'a, 'tcx> {
    tcx: TyCtxt<'tcx>,
    body: &'a Body<'tcx>,
    tenv: TypingEnv<'tcx>,
    strs: &'a mut Interner,
    // summaries
    calls: Vec<(usize, Option<usize>, usize)>, // callee name idx, resolved idx, line
    aggs: Vec<(usize, usize)>,                 // adt name idx, variant
    fwrites: Vec<(usize, String)>,             // adt name idx, field name
}

impl<'a, 'tcx> Cx<'a, 'tcx> {
    fn ty_idx(&mut self, t: Ty<'tcx>) -> usize {
        let s = np!(self.tcx; format!("{}", t));
        self.strs.get(&s)
    }

    fn line(&self, sp: Span) -> usize {
        let sm = self.tcx.sess.source_map();
        sm.lookup_char_pos(sp.source_callsite().lo()).line
    }

    fn place(&mut self, out: &mut String, p: &Place<'tcx>) {
        let _ = write!(out, "[{}", p.local.as_usize());
        let mut pty = mir::PlaceTy::from_ty(self.body.local_decls[p.local].ty);
        for elem in p.projection.iter() {
            out.push(',');
            match elem {
                PlaceElem::Deref => out.push_str("\"*\""),
                PlaceElem::Field(f, _) => {
                    let mut fname = String::new();
                    let mut adt_i: i64 = -1;
                    if let ty::Adt(adt, _) = pty.ty.kind() {
                        let an = canon_name(self.tcx, adt.did());
                        adt_i = self.strs.get(&an) as i64;
                        let vidx = pty.variant_index.unwrap_or(rustc_abi::FIRST_VARIANT);
                        if adt.is_enum() || adt.is_struct() || adt.is_union() {
                            if let Some(v) = adt.variants().get(vidx) {
                                if let Some(fd) = v.fields.get(f) {
                                    fname = fd.name.to_string();
                                }
                            }
                        }
                    }
                    let _ = write!(out, "[\"f\",{},", f.as_usize());
                    jstr(out, &fname);
                    let _ = write!(out, ",{}]", adt_i);
                }
                PlaceElem::Downcast(name, v) => {
                    let _ = write!(out, "[\"d\",{},", v.as_usize());
                    jstr(out, &name.map(|s| s.to_string()).unwrap_or_default());
                    out.push(']');
                }
                PlaceElem::Index(l) => {
                    let _ = write!(out, "[\"i\",{}]", l.as_usize());
                }
                PlaceElem::ConstantIndex { offset, min_length, from_end } => {
                    let _ = write!(out, "[\"ci\",{},{},{}]", offset, min_length, from_end as u8);
                }
                PlaceElem::Subslice { from, to, from_end } => {
                    let _ = write!(out, "[\"s\",{},{},{}]", from, to, from_end as u8);
                }
                PlaceElem::OpaqueCast(_) => out.push_str("\"o\""),
                PlaceElem::UnwrapUnsafeBinder(_) => out.push_str("\"u\""),
            }
            pty = pty.projection_ty(self.tcx, elem);
        }
        out.push(']');
    }

    fn operand(&mut self, out: &mut String, op: &Operand<'tcx>) {
        match op {
            Operand::Copy(p) => {
                out.push_str("[0,");
                self.place(out, p);
                out.push(']');
            }
            Operand::Move(p) => {
                out.push_str("[1,");
                self.place(out, p);
                out.push(']');
            }
            Operand::Constant(c) => {
                let cty = c.const_.ty();
                match cty.kind() {
                    ty::FnDef(did, args) => {
                        let n = canon_name(self.tcx, *did);
                        let ni = self.strs.get(&n);
                        let a = np!(self.tcx; format!("{:?}", args));
                        let ai = self.strs.get(&a);
                        let _ = write!(out, "[3,{},{}]", ni, ai);
                    }
                    _ => {
                        let disp = np!(self.tcx; format!("{}", c.const_));
                        let mut disp = disp;
                        if disp.len() > 200 {
                            disp.truncate(200);
                        }
                        let ti = self.ty_idx(cty);
                        out.push_str("[2,");
                        jstr(out, &disp);
                        let _ = write!(out, ",{}", ti);
                        // evaluated scalar
                        let scalar_ok = matches!(
                            cty.kind(),
                            ty::Bool | ty::Char | ty::Int(_) | ty::Uint(_)
                        );
                        if scalar_ok {
                            if let Some(si) = c.const_.try_eval_scalar_int(self.tcx, self.tenv) {
                                let bits = si.to_bits_unchecked();
                                let _ = write!(out, ",\"{}\"", bits);
                            }
                        }
                        out.push(']');
                    }
                }
            }
            Operand::RuntimeChecks(_) => out.push_str("[4]"),
        }
    }

    fn rvalue(&mut self, out: &mut String, rv: &Rvalue<'tcx>) {
        match rv {
            Rvalue::Use(op, _) => {
                out.push_str("[\"use\",");
                self.operand(out, op);
                out.push(']');
            }
            Rvalue::Repeat(op, _) => {
                out.push_str("[\"rep\",");
                self.operand(out, op);
                out.push(']');
            }
            Rvalue::Ref(_, bk, p) => {
                let m = matches!(bk, mir::BorrowKind::Mut { .. });
                out.push_str("[\"ref\",");
                self.place(out, p);
                let _ = write!(out, ",{}]", m as u8);
            }
            Rvalue::ThreadLocalRef(d) => {
                let n = canon_name(self.tcx, *d);
                out.push_str("[\"tlr\",");
                jstr(out, &n);
                out.push(']');
            }
            Rvalue::RawPtr(_, p) => {
                out.push_str("[\"ptr\",");
                self.place(out, p);
                out.push(']');
            }
            Rvalue::Cast(kind, op, t) => {
                let k = format!("{:?}", kind);
                let k = k.split('(').next().unwrap_or("").to_string();
                out.push_str("[\"cast\",");
                jstr(out, &k);
                out.push(',');
                self.operand(out, op);
                let ti = self.ty_idx(*t);
                let _ = write!(out, ",{}]", ti);
            }
            Rvalue::BinaryOp(op, ab) => {
                let _ = write!(out, "[\"bin\",\"{:?}\",", op);
                self.operand(out, &ab.0);
                out.push(',');
                self.operand(out, &ab.1);
                out.push(']');
            }
            Rvalue::UnaryOp(op, a) => {
                let o = format!("{:?}", op);
                out.push_str("[\"un\",");
                jstr(out, &o);
                out.push(',');
                self.operand(out, a);
                out.push(']');
            }
            Rvalue::Discriminant(p) => {
                out.push_str("[\"discr\",");
                self.place(out, p);
                out.push(']');
            }
            Rvalue::Aggregate(kind, ops) => {
                out.push_str("[\"agg\",");
                match &**kind {
                    AggregateKind::Array(_) => out.push_str("\"array\",null,0,\"\""),
                    AggregateKind::Tuple => out.push_str("\"tuple\",null,0,\"\""),
                    AggregateKind::Adt(did, vidx, _, _, _) => {
                        let n = canon_name(self.tcx, *did);
                        let ni = self.strs.get(&n);
                        let adt = self.tcx.adt_def(*did);
                        let vname = adt.variant(*vidx).name.to_string();
                        let _ = write!(out, "\"adt\",{},{},", ni, vidx.as_usize());
                        jstr(out, &vname);
                        self.aggs.push((ni, vidx.as_usize()));
                    }
                    AggregateKind::Closure(did, _) => {
                        let n = canon_name(self.tcx, *did);
                        let ni = self.strs.get(&n);
                        let _ = write!(out, "\"closure\",{},0,\"\"", ni);
                    }
                    AggregateKind::Coroutine(did, _) => {
                        let n = canon_name(self.tcx, *did);
                        let ni = self.strs.get(&n);
                        let _ = write!(out, "\"coroutine\",{},0,\"\"", ni);
                    }
                    AggregateKind::CoroutineClosure(did, _) => {
                        let n = canon_name(self.tcx, *did);
                        let ni = self.strs.get(&n);
                        let _ = write!(out, "\"coroutine_closure\",{},0,\"\"", ni);
                    }
                    AggregateKind::RawPtr(..) => out.push_str("\"rawptr\",null,0,\"\""),
                }
                out.push_str(",[");
                for (i, o) in ops.iter().enumerate() {
                    if i > 0 {
                        out.push(',');
                    }
                    self.operand(out, o);
                }
                out.push_str("]]");
            }
            Rvalue::CopyForDeref(p) => {
                out.push_str("[\"cfd\",");
                self.place(out, p);
                out.push(']');
            }
            Rvalue::WrapUnsafeBinder(op, _) => {
                out.push_str("[\"use\",");
                self.operand(out, op);
                out.push(']');
            }
        }
    }

    fn note_field_write(&mut self, p: &Place<'tcx>) {
        // record the innermost ADT field written (who-may-write facts)
        let mut pty = mir::PlaceTy::from_ty(self.body.local_decls[p.local].ty);
        let mut last: Option<(usize, String)> = None;
        for elem in p.projection.iter() {
            if let PlaceElem::Field(f, _) = elem {
                if let ty::Adt(adt, _) = pty.ty.kind() {
                    let vidx = pty.variant_index.unwrap_or(rustc_abi::FIRST_VARIANT);
                    if let Some(v) = adt.variants().get(vidx) {
                        if let Some(fd) = v.fields.get(f) {
                            let n = canon_name(self.tcx, adt.did());
                            let ni = self.strs.get(&n);
                            last = Some((ni, fd.name.to_string()));
                        }
                    }
                }
            }
            pty = pty.projection_ty(self.tcx, elem);
        }
        if let Some(x) = last {
            self.fwrites.push(x);
        }
    }

    fn unwind(&self, u: &UnwindAction) -> String {
        match u {
            UnwindAction::Cleanup(bb) => format!("{}", bb.as_usize()),
            _ => "null".to_string(),
        }
    }

    fn bb(&self, b: BasicBlock) -> usize {
        b.as_usize()
    }

    fn terminator(&mut self, out: &mut String, t: &mir::Terminator<'tcx>) {
        match &t.kind {
            TerminatorKind::Goto { target } => {
                let _ = write!(out, "[\"goto\",{}]", self.bb(*target));
            }
            TerminatorKind::SwitchInt { discr, targets } => {
                out.push_str("[\"sw\",");
                self.operand(out, discr);
                out.push_str(",[");
                for (i, (v, bb)) in targets.iter().enumerate() {
                    if i > 0 {
                        out.push(',');
                    }
                    let _ = write!(out, "[\"{}\",{}]", v, bb.as_usize());
                }
                let _ = write!(out, "],{}]", targets.otherwise().as_usize());
            }
            TerminatorKind::UnwindResume => out.push_str("[\"res\"]"),
            TerminatorKind::UnwindTerminate(_) => out.push_str("[\"term\"]"),
            TerminatorKind::Return => out.push_str("[\"ret\"]"),
            TerminatorKind::Unreachable => out.push_str("[\"unr\"]"),
            TerminatorKind::Drop { place, target, unwind, .. } => {
                out.push_str("[\"drop\",");
                self.place(out, place);
                let _ = write!(out, ",{},{}]", self.bb(*target), self.unwind(unwind));
            }
            TerminatorKind::Call { func, args, destination, target, unwind, fn_span, .. } => {
                let line = self.line(*fn_span);
                let _ = write!(out, "[\"call\",{},", line);
                let fty = func.ty(&self.body.local_decls, self.tcx);
                match fty.kind() {
                    ty::FnDef(did, gargs) => {
                        let n = canon_name(self.tcx, *did);
                        let ni = self.strs.get(&n);
                        let a = np!(self.tcx; format!("{:?}", gargs));
                        let ai = self.strs.get(&a);
                        // resolve trait methods to their impl when statically known
                        let mut resolved: Option<usize> = None;
                        let is_trait_item = self.tcx.trait_of_assoc(*did).is_some();
                        if is_trait_item {
                            use rustc_middle::ty::TypeVisitableExt;
                            if !gargs.has_infer() {
                                if let Ok(Some(inst)) =
                                    Instance::try_resolve(self.tcx, self.tenv, *did, gargs)
                                {
                                    let rd = inst.def_id();
                                    if rd != *did {
                                        let rn = canon_name(self.tcx, rd);
                                        resolved = Some(self.strs.get(&rn));
                                    }
                                }
                            }
                        }
                        let _ = write!(
                            out,
                            "[{},{},{},{}],",
                            ni,
                            ai,
                            resolved.map(|x| x.to_string()).unwrap_or("null".into()),
                            is_trait_item as u8
                        );
                        self.calls.push((ni, resolved, line));
                    }
                    _ => {
                        out.push_str("[\"ind\",");
                        self.operand(out, func);
                        let ti = self.ty_idx(fty);
                        let _ = write!(out, ",{}],", ti);
                    }
                }
                out.push('[');
                for (i, a) in args.iter().enumerate() {
                    if i > 0 {
                        out.push(',');
                    }
                    self.operand(out, &a.node);
                }
                out.push_str("],");
                self.place(out, destination);
                let _ = write!(
                    out,
                    ",{},{}]",
                    target.map(|b| b.as_usize().to_string()).unwrap_or("null".into()),
                    self.unwind(unwind)
                );
            }
            TerminatorKind::TailCall { .. } => out.push_str("[\"tail\"]"),
            TerminatorKind::Assert { cond, expected, msg, target, unwind } => {
                out.push_str("[\"assert\",");
                self.operand(out, cond);
                let k = format!("{:?}", msg);
                let k: String = k.split(|c| c == '(' || c == '{' || c == ' ').next().unwrap_or("").into();
                let _ = write!(out, ",{},", *expected as u8);
                jstr(out, &k);
                let _ = write!(out, ",{},{},{}]", self.bb(*target), self.unwind(unwind), self.line(t.source_info.span));
            }
            TerminatorKind::Yield { value, resume, resume_arg, drop } => {
                out.push_str("[\"yield\",");
                self.operand(out, value);
                let _ = write!(out, ",{},", self.bb(*resume));
                self.place(out, resume_arg);
                let _ = write!(
                    out,
                    ",{}]",
                    drop.map(|b| b.as_usize().to_string()).unwrap_or("null".into())
                );
            }
            TerminatorKind::CoroutineDrop => out.push_str("[\"cdrop\"]"),
            TerminatorKind::FalseEdge { real_target, imaginary_target } => {
                let _ = write!(out, "[\"fe\",{},{}]", self.bb(*real_target), self.bb(*imaginary_target));
            }
            TerminatorKind::FalseUnwind { real_target, unwind } => {
                let _ = write!(out, "[\"fu\",{},{}]", self.bb(*real_target), self.unwind(unwind));
            }
            TerminatorKind::InlineAsm { .. } => out.push_str("[\"asm\"]"),
        }
    }

    fn body_json(&mut self, out: &mut String) {
        // locals
        let mut names: HashMap<usize, String> = HashMap::new();
        for vdi in &self.body.var_debug_info {
            if let mir::VarDebugInfoContents::Place(p) = &vdi.value {
                if p.projection.is_empty() {
                    names.entry(p.local.as_usize()).or_insert_with(|| vdi.name.to_string());
                }
            }
        }
        out.push_str("\"L\":[");
        let decls: Vec<Ty<'tcx>> = self.body.local_decls.iter().map(|d| d.ty).collect();
        for (i, t) in decls.iter().enumerate() {
            if i > 0 {
                out.push(',');
            }
            let ti = self.ty_idx(*t);
            let _ = write!(out, "[{},", ti);
            match names.get(&i) {
                Some(n) => jstr(out, n),
                None => out.push_str("null"),
            }
            out.push(']');
        }
        out.push_str("],\"B\":[");
        let nblocks = self.body.basic_blocks.len();
        for bi in 0..nblocks {
            let bb = BasicBlock::from_usize(bi);
            let data = &self.body.basic_blocks[bb];
            if bi > 0 {
                out.push(',');
            }
            out.push_str("[[");
            let mut first = true;
            for st in &data.statements {
                match &st.kind {
                    StatementKind::Assign(b) => {
                        let (p, rv) = &**b;
                        if !first {
                            out.push(',');
                        }
                        first = false;
                        let line = self.line(st.source_info.span);
                        let _ = write!(out, "[{},", line);
                        self.place(out, p);
                        out.push(',');
                        self.rvalue(out, rv);
                        out.push(']');
                        if !p.projection.is_empty() {
                            self.note_field_write(p);
                        }
                    }
                    StatementKind::SetDiscriminant { place, variant_index } => {
                        if !first {
                            out.push(',');
                        }
                        first = false;
                        let line = self.line(st.source_info.span);
                        let _ = write!(out, "[{},", line);
                        self.place(out, place);
                        let _ = write!(out, ",[\"setdiscr\",{}]]", variant_index.as_usize());
                    }
                    _ => {}
                }
            }
            out.push_str("],");
            match &data.terminator {
                Some(t) => self.terminator(out, t),
                None => out.push_str("[\"none\"]"),
            }
            let _ = write!(out, ",{}]", data.is_cleanup as u8);
        }
        out.push(']');
    }
}

// ---------------------------------------------------------------- AST format_args collection

struct FmtSite {
    file: String,
    line: usize,
    pieces: Vec<(bool, String, i64)>, // (is_literal, text, arg index)
    args: Vec<String>,
}

struct FmtVisitor<'a> {
    sm: &'a rustc_span::source_map::SourceMap,
    sites: Vec<FmtSite>,
}

impl<'a, 'ast> rustc_ast::visit::Visitor<'ast> for FmtVisitor<'a> {
    fn visit_expr(&mut self, e: &'ast rustc_ast::Expr) {
        if let rustc_ast::ExprKind::FormatArgs(fa) = &e.kind {
            let sp = fa.span.source_callsite();
            let lo = self.sm.lookup_char_pos(sp.lo());
            let fname = match &lo.file.name {
                rustc_span::FileName::Real(r) => match r.local_path() {
                    Some(p) => p.to_string_lossy().to_string(),
                    None => format!("{:?}", lo.file.name),
                },
                other => format!("{:?}", other),
            };
            let mut pieces = Vec::new();
            for p in &fa.template {
                match p {
                    rustc_ast::FormatArgsPiece::Literal(s) => {
                        pieces.push((true, s.to_string(), -1));
                    }
                    rustc_ast::FormatArgsPiece::Placeholder(ph) => {
                        let idx = match ph.argument.index {
                            Ok(i) => i as i64,
                            Err(_) => -1,
                        };
                        let tr = format!("{:?}", ph.format_trait);
                        pieces.push((false, tr, idx));
                    }
                }
            }
            let mut args = Vec::new();
            for a in fa.arguments.all_args() {
                let mut s = rustc_ast_pretty::pprust::expr_to_string(&a.expr);
                if s.len() > 300 {
                    s.truncate(300);
                }
                args.push(s);
            }
            self.sites.push(FmtSite { file: fname, line: lo.line, pieces, args });
        }
        rustc_ast::visit::walk_expr(self, e);
    }
}

// ---------------------------------------------------------------- the callback

struct Cb {
    out_dir: String,
}

fn vis_str<'tcx>(tcx: TyCtxt<'tcx>, did: DefId) -> &'static str {
    match tcx.def_kind(did) {
        DefKind::Fn | DefKind::AssocFn | DefKind::Struct | DefKind::Enum | DefKind::Union | DefKind::Const { .. }
        | DefKind::AssocConst { .. } | DefKind::Static { .. } => {
            let v = tcx.visibility(did);
            if v.is_public() {
                "pub"
            } else {
                "restricted"
            }
        }
        _ => "",
    }
}

type MirBuiltFn = for<'tcx> fn(TyCtxt<'tcx>, LocalDefId) -> &'tcx Steal<Body<'tcx>>;
static ORIG_MIR_BUILT: OnceLock<MirBuiltFn> = OnceLock::new();
static STASH: Mutex<BTreeMap<u32, usize>> = Mutex::new(BTreeMap::new());

/// Replacement provider of the `mir_built` query: run the real provider, clone the body into the
/// tcx arena before anybody can steal it, remember where the clone lives.
fn stash_mir_built<'tcx>(tcx: TyCtxt<'tcx>, def: LocalDefId) -> &'tcx Steal<Body<'tcx>> {
    let orig = ORIG_MIR_BUILT.get().expect("original mir_built provider");
    let r = orig(tcx, def);
    let clone: Body<'tcx> = r.borrow().clone();
    let p: &'tcx Body<'tcx> = tcx.arena.alloc(clone);
    STASH.lock().unwrap().insert(def.local_def_index.as_u32(), p as *const Body<'tcx> as usize);
    r
}

impl Callbacks for Cb {
    fn config(&mut self, config: &mut rustc_interface::interface::Config) {
        config.override_queries = Some(|_sess, providers| {
            let _ = ORIG_MIR_BUILT.set(providers.queries.mir_built);
            providers.queries.mir_built = stash_mir_built;
        });
    }

    fn after_expansion<'tcx>(&mut self, _c: &Compiler, tcx: TyCtxt<'tcx>) -> Compilation {
        let crate_name = tcx.crate_name(LOCAL_CRATE).to_string();
        if crate_name.starts_with("build_script") {
            return Compilation::Continue;
        }
        let ctype = {
            let cts = tcx.crate_types();
            if cts.iter().any(|c| matches!(c, rustc_session::config::CrateType::Executable)) {
                "bin"
            } else if cts.iter().any(|c| matches!(c, rustc_session::config::CrateType::ProcMacro)) {
                "proc"
            } else {
                "lib"
            }
        };
        let is_test = tcx.sess.opts.test;
        let tag = if is_test { format!("{}-test", ctype) } else { ctype.to_string() };

        // 1. format_args sites from the expanded AST (before HIR lowering steals it)
        let mut fmt_sites: Vec<FmtSite> = Vec::new();
        {
            let steal = tcx.resolver_for_lowering();
            let guard = steal.borrow();
            let krate = &guard.1;
            let mut v = FmtVisitor { sm: tcx.sess.source_map(), sites: Vec::new() };
            rustc_ast::visit::walk_crate(&mut v, krate);
            fmt_sites = std::mem::take(&mut v.sites);
            let _ = &mut fmt_sites;
        }

        let mut strs = Interner::new();
        let mut mir_out: Vec<u8> = Vec::new();
        let mut fns_json = String::new();
        let eff = tcx.effective_visibilities(());

        let owners: Vec<LocalDefId> = tcx.hir_body_owners().collect();
        let mut index_of: HashMap<LocalDefId, usize> = HashMap::new();
        for (i, o) in owners.iter().enumerate() {
            index_of.insert(*o, i);
        }
        let mut nfns = 0usize;
        let mut stolen = 0usize;
        // Pass 1: force mir_built for every body owner.  The overridden provider (see
        // `stash_mir_built`) clones each body the moment it is built, so nothing that later
        // steals it (borrowck triggered by type_of(opaque), const eval, ...) can lose it and the
        // fact base does not depend on query order or incremental state.
        let mut bodies: HashMap<LocalDefId, &'tcx Body<'tcx>> = HashMap::new();
        let mut stolen_names: Vec<String> = Vec::new();
        for ldid in owners.iter() {
            let kind = tcx.def_kind(ldid.to_def_id());
            if !matches!(
                kind,
                DefKind::Fn | DefKind::AssocFn | DefKind::Closure | DefKind::Const { .. } | DefKind::AssocConst { .. }
                    | DefKind::Static { .. } | DefKind::InlineConst
            ) {
                continue;
            }
            let _ = tcx.mir_built(*ldid);
            let key = ldid.local_def_index.as_u32();
            let ptr = STASH.lock().unwrap().get(&key).copied();
            match ptr {
                Some(p) => {
                    // SAFETY: the pointer was produced from a `&'tcx Body<'tcx>` allocated in the
                    // tcx arena by `stash_mir_built` during this very compilation session.
                    let b: &'tcx Body<'tcx> = unsafe { &*(p as *const Body<'tcx>) };
                    bodies.insert(*ldid, b);
                }
                None => {
                    stolen += 1;
                    if matches!(kind, DefKind::Fn | DefKind::AssocFn | DefKind::Closure) {
                        stolen_names.push(canon_name(tcx, ldid.to_def_id()));
                    }
                }
            }
        }
        for (i, ldid) in owners.iter().enumerate() {
            let did = ldid.to_def_id();
            let kind = tcx.def_kind(did);
            let kind_s = match kind {
                DefKind::Fn => "fn",
                DefKind::AssocFn => "assoc_fn",
                DefKind::Closure => "closure",
                DefKind::Const { .. } => "const",
                DefKind::AssocConst { .. } => "assoc_const",
                DefKind::Static { .. } => "static",
                DefKind::AnonConst => "anon_const",
                DefKind::InlineConst => "inline_const",
                DefKind::SyntheticCoroutineBody => "synthetic",
                _ => "other",
            };
            let has_mir = matches!(
                kind,
                DefKind::Fn | DefKind::AssocFn | DefKind::Closure | DefKind::Const { .. } | DefKind::AssocConst { .. }
                    | DefKind::Static { .. } | DefKind::InlineConst
            );
            if !has_mir {
                continue;
            }
            let name = canon_name(tcx, did);
            let body: &'tcx Body<'tcx> = match bodies.get(ldid) {
                Some(b) => *b,
                None => continue,
            };
            let tenv = TypingEnv::post_analysis(tcx, did);
            let mut cx = Cx {
                tcx,
                body,
                tenv,
                strs: &mut strs,
                calls: Vec::new(),
                aggs: Vec::new(),
                fwrites: Vec::new(),
            };
            let mut line = String::with_capacity(4096);
            let _ = write!(line, "{{\"i\":{},", i);
            cx.body_json(&mut line);
            line.push_str("}\n");
            let calls = std::mem::take(&mut cx.calls);
            let aggs = std::mem::take(&mut cx.aggs);
            let fwrites = std::mem::take(&mut cx.fwrites);
            drop(cx);
            let off = mir_out.len();
            mir_out.extend_from_slice(line.as_bytes());
            let len = line.len();

            let (file, l0, l1) = span_loc(tcx, body.span);
            let from_exp = body.span.from_expansion();
            let parent_fn = {
                let root = tcx.typeck_root_def_id(did);
                if root != did {
                    // immediate enclosing body owner
                    let mut p = tcx.local_parent(*ldid);
                    loop {
                        if index_of.contains_key(&p) {
                            break Some(index_of[&p]);
                        }
                        if p.to_def_id() == root {
                            break index_of.get(&p).copied();
                        }
                        p = tcx.local_parent(p);
                    }
                } else {
                    None
                }
            };
            let ni = strs.get(&name);
            let fi = strs.get(&file);
            let reach = eff.is_reachable(*ldid);
            let ret_ty = {
                let t = body.local_decls[mir::RETURN_PLACE].ty;
                let s = np!(tcx; format!("{}", t));
                strs.get(&s)
            };
            if nfns > 0 {
                fns_json.push(',');
            }
            nfns += 1;
            let _ = write!(
                fns_json,
                "{{\"i\":{},\"n\":{},\"k\":\"{}\",\"par\":{},\"vis\":\"{}\",\"reach\":{},\"file\":{},\"l0\":{},\"l1\":{},\"exp\":{},\"argc\":{},\"cor\":{},\"ret\":{},\"off\":{},\"len\":{},\"nb\":{},",
                i,
                ni,
                kind_s,
                parent_fn.map(|x| x.to_string()).unwrap_or("null".into()),
                vis_str(tcx, did),
                reach as u8,
                fi,
                l0,
                l1,
                from_exp as u8,
                body.arg_count,
                body.coroutine.is_some() as u8,
                ret_ty,
                off,
                len,
                body.basic_blocks.len()
            );
            fns_json.push_str("\"calls\":[");
            for (k, (c, r, l)) in calls.iter().enumerate() {
                if k > 0 {
                    fns_json.push(',');
                }
                let _ = write!(
                    fns_json,
                    "[{},{},{}]",
                    c,
                    r.map(|x| x.to_string()).unwrap_or("null".into()),
                    l
                );
            }
            fns_json.push_str("],\"aggs\":[");
            for (k, (a, v)) in aggs.iter().enumerate() {
                if k > 0 {
                    fns_json.push(',');
                }
                let _ = write!(fns_json, "[{},{}]", a, v);
            }
            fns_json.push_str("],\"fw\":[");
            for (k, (a, f)) in fwrites.iter().enumerate() {
                if k > 0 {
                    fns_json.push(',');
                }
                let _ = write!(fns_json, "[{},", a);
                jstr(&mut fns_json, f);
                fns_json.push(']');
            }
            fns_json.push_str("]}");
        }

        // ADTs, impls, consts
        let mut adts_json = String::new();
        let mut impls_json = String::new();
        let mut consts_json = String::new();
        let mut nadt = 0;
        let mut nimpl = 0;
        let mut nconst = 0;
        for ldid in tcx.hir_crate_items(()).definitions() {
            let did = ldid.to_def_id();
            match tcx.def_kind(did) {
                DefKind::Struct | DefKind::Enum | DefKind::Union => {
                    let adt = tcx.adt_def(did);
                    if nadt > 0 {
                        adts_json.push(',');
                    }
                    nadt += 1;
                    let name = canon_name(tcx, did);
                    let (file, l0, _) = span_loc(tcx, tcx.def_span(did));
                    adts_json.push_str("{\"n\":");
                    jstr(&mut adts_json, &name);
                    let _ = write!(
                        adts_json,
                        ",\"kind\":\"{}\",\"vis\":\"{}\",\"file\":",
                        if adt.is_enum() { "enum" } else if adt.is_union() { "union" } else { "struct" },
                        vis_str(tcx, did)
                    );
                    jstr(&mut adts_json, &file);
                    let _ = write!(adts_json, ",\"line\":{},\"variants\":[", l0);
                    for (vi, v) in adt.variants().iter().enumerate() {
                        if vi > 0 {
                            adts_json.push(',');
                        }
                        adts_json.push_str("{\"n\":");
                        jstr(&mut adts_json, &v.name.to_string());
                        adts_json.push_str(",\"fields\":[");
                        for (fi, f) in v.fields.iter().enumerate() {
                            if fi > 0 {
                                adts_json.push(',');
                            }
                            let fty = tcx.type_of(f.did).instantiate_identity().skip_norm_wip();
                            let fty_s = np!(tcx; format!("{}", fty));
                            adts_json.push_str("{\"n\":");
                            jstr(&mut adts_json, &f.name.to_string());
                            adts_json.push_str(",\"ty\":");
                            jstr(&mut adts_json, &fty_s);
                            let _ = write!(
                                adts_json,
                                ",\"pub\":{}}}",
                                f.vis.is_public() as u8
                            );
                        }
                        adts_json.push_str("]}");
                    }
                    adts_json.push_str("]}");
                }
                DefKind::Impl { of_trait } => {
                    if nimpl > 0 {
                        impls_json.push(',');
                    }
                    nimpl += 1;
                    let self_ty = tcx.type_of(did).instantiate_identity().skip_norm_wip();
                    let self_s = np!(tcx; ty_head(tcx, self_ty));
                    let self_full = np!(tcx; format!("{}", self_ty));
                    impls_json.push_str("{\"self\":");
                    jstr(&mut impls_json, &self_s);
                    impls_json.push_str(",\"self_full\":");
                    jstr(&mut impls_json, &self_full);
                    impls_json.push_str(",\"trait\":");
                    if of_trait {
                        let tr = tcx.impl_trait_ref(did).instantiate_identity().skip_norm_wip();
                        let ts = np!(tcx; tcx.def_path_str(tr.def_id));
                        jstr(&mut impls_json, &ts);
                        let tfull = np!(tcx; format!("{}", tr.print_only_trait_path()));
                        impls_json.push_str(",\"trait_full\":");
                        jstr(&mut impls_json, &tfull);
                    } else {
                        impls_json.push_str("null");
                    }
                    let derived = tcx.is_automatically_derived(did);
                    let (file, l0, _) = span_loc(tcx, tcx.def_span(did));
                    let _ = write!(impls_json, ",\"derived\":{},\"file\":", derived as u8);
                    jstr(&mut impls_json, &file);
                    let _ = write!(impls_json, ",\"line\":{},\"items\":[", l0);
                    let mut k = 0;
                    for item in tcx.associated_items(did).in_definition_order() {
                        if k > 0 {
                            impls_json.push(',');
                        }
                        k += 1;
                        impls_json.push('[');
                        jstr(&mut impls_json, &item.name().to_string());
                        impls_json.push(',');
                        jstr(&mut impls_json, &canon_name(tcx, item.def_id));
                        impls_json.push(']');
                    }
                    impls_json.push_str("]}");
                }
                DefKind::Const { .. } | DefKind::AssocConst { .. } => {
                    let t = tcx.type_of(did).instantiate_identity().skip_norm_wip();
                    let mut scalar_ok = matches!(t.kind(), ty::Bool | ty::Char | ty::Int(_) | ty::Uint(_));
                    // a constant of a newtype over an integer (`BlockNumber(15)`) evaluates to a scalar as well
                    if let ty::Adt(adt, args) = t.kind() {
                        if adt.is_struct() && args.is_empty() && adt.all_fields().count() == 1 {
                            if let Some(fd) = adt.all_fields().next() {
                                let ft = tcx.type_of(fd.did).instantiate_identity().skip_norm_wip();
                                scalar_ok = matches!(ft.kind(), ty::Int(_) | ty::Uint(_));
                            }
                        }
                    }
                    if !scalar_ok {
                        continue;
                    }
                    // only consts without generic parameters in scope can be evaluated here
                    let generics = tcx.generics_of(did);
                    if generics.count() != 0 {
                        continue;
                    }
                    if let Ok(val) = tcx.const_eval_poly(did) {
                        if let Some(si) = val.try_to_scalar_int() {
                            if nconst > 0 {
                                consts_json.push(',');
                            }
                            nconst += 1;
                            consts_json.push_str("{\"n\":");
                            jstr(&mut consts_json, &canon_name(tcx, did));
                            consts_json.push_str(",\"ty\":");
                            jstr(&mut consts_json, &format!("{}", t));
                            let _ = write!(consts_json, ",\"bits\":\"{}\"}}", si.to_bits_unchecked());
                        }
                    }
                }
                _ => {}
            }
        }

        // fmt sites
        let mut fmt_json = String::new();
        for (k, s) in fmt_sites.iter().enumerate() {
            if k > 0 {
                fmt_json.push(',');
            }
            fmt_json.push_str("{\"file\":");
            jstr(&mut fmt_json, &s.file);
            let _ = write!(fmt_json, ",\"line\":{},\"pieces\":[", s.line);
            for (j, (lit, text, idx)) in s.pieces.iter().enumerate() {
                if j > 0 {
                    fmt_json.push(',');
                }
                let _ = write!(fmt_json, "[{},", *lit as u8);
                jstr(&mut fmt_json, text);
                let _ = write!(fmt_json, ",{}]", idx);
            }
            fmt_json.push_str("],\"args\":[");
            for (j, a) in s.args.iter().enumerate() {
                if j > 0 {
                    fmt_json.push(',');
                }
                jstr(&mut fmt_json, a);
            }
            fmt_json.push_str("]}");
        }

        let mut idx = String::new();
        idx.push_str("{\"crate\":");
        jstr(&mut idx, &crate_name);
        let _ = write!(idx, ",\"type\":\"{}\",\"nfns\":{},\"stolen\":{},\"stolen_fns\":[", tag, nfns, stolen);
        for (k, s) in stolen_names.iter().enumerate() {
            if k > 0 {
                idx.push(',');
            }
            jstr(&mut idx, s);
        }
        idx.push_str("],\"strs\":[");
        for (k, s) in strs.vec.iter().enumerate() {
            if k > 0 {
                idx.push(',');
            }
            jstr(&mut idx, s);
        }
        idx.push_str("],\"fns\":[");
        idx.push_str(&fns_json);
        idx.push_str("],\"adts\":[");
        idx.push_str(&adts_json);
        idx.push_str("],\"impls\":[");
        idx.push_str(&impls_json);
        idx.push_str("],\"consts\":[");
        idx.push_str(&consts_json);
        idx.push_str("],\"fmt\":[");
        idx.push_str(&fmt_json);
        idx.push_str("]}");

        let base = format!("{}/{}.{}", self.out_dir, crate_name, tag);
        let tmp_mir = format!("{}.mir.jsonl.tmp{}", base, std::process::id());
        let tmp_idx = format!("{}.idx.json.tmp{}", base, std::process::id());
        std::fs::File::create(&tmp_mir).and_then(|mut f| f.write_all(&mir_out)).expect("write mir");
        std::fs::rename(&tmp_mir, format!("{}.mir.jsonl", base)).expect("rename mir");
        std::fs::File::create(&tmp_idx).and_then(|mut f| f.write_all(idx.as_bytes())).expect("write idx");
        std::fs::rename(&tmp_idx, format!("{}.idx.json", base)).expect("rename idx");
        Compilation::Continue
    }
}

fn main() {
    let mut args: Vec<String> = std::env::args().collect();
    // RUSTC_WORKSPACE_WRAPPER: argv[1] is the real rustc path
    if args.len() > 1 && (args[1].ends_with("rustc") || args[1].contains("/rustc")) {
        args.remove(1);
    }
    let out_dir = std::env::var("MVS_FACTS_DIR").unwrap_or_default();
    // Pass through when not asked to dump, or for non-compiling invocations (-vV, --print)
    let passthrough = out_dir.is_empty()
        || args.iter().any(|a| a == "-vV" || a == "-V" || a.starts_with("--print") || a == "--version");
    if passthrough {
        struct Nop;
        impl Callbacks for Nop {}
        rustc_driver::run_compiler(&args, &mut Nop);
        return;
    }
    let _ = std::fs::create_dir_all(&out_dir);
    let mut cb = Cb { out_dir };
    rustc_driver::run_compiler(&args, &mut cb);
}
