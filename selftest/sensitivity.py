"""Checker-sensitivity step of the thorough tier.

For one property: copy the CURRENT /repo working tree to a scratch directory outside /repo and /verif,
and for every recorded semantic mutation (selftest/mutations.py), behaviour-preserving edit
(selftest/benign.py) and kept seeded change (seeded/<id>/patch.diff) of that property: apply it to the
scratch copy, re-analyse the scratch copy with the same driver and rules, and record whether the
property's check reports a violation naming the expected rule instance (mutations, seeds) or stays
silent (benign edits).  Nothing is executed: each step is a type-check + MIR dump of the variant and
the same static rules.

The step never changes the verdict on /repo: a variant whose pattern no longer matches the current
tree is recorded as `stale` and skipped; a variant that no longer fires is recorded as `missed` and
printed as SELFTEST-MISSED (a weakness of the checker, not a violation of the property).
"""
import fcntl
import json
import os
import shutil
import subprocess
import sys
import time

HERE = os.path.dirname(os.path.abspath(__file__))
VERIF = os.path.dirname(HERE)
sys.path.insert(0, HERE)

SCRATCH_BASE = os.environ.get('MVS_SCRATCH', '/var/tmp/mvs-scratch')


def _run_check(prop, repo):
    env = dict(os.environ, MVS_REPO=repo, MVS_NO_EVIDENCE='1')
    env.pop('VERIF_TIER', None)
    r = subprocess.run([os.path.join(VERIF, 'check'), prop, 'quick'], cwd=VERIF, env=env,
                       stdout=subprocess.PIPE, stderr=subprocess.STDOUT, text=True)
    return r.returncode, r.stdout


def _fail_lines(out, n=6):
    ls = [l.strip() for l in out.splitlines() if l.lstrip().startswith('FAIL') or 'key=' in l or 'ANALYSIS' in l
          or 'ANCHOR-MISSING' in l or l.startswith('error')]
    return ls[:n]


def variants_for(prop):
    from mutations import MUTATIONS
    from benign import BENIGN
    vs = []
    for m in MUTATIONS:
        if m['prop'] == prop:
            vs.append(dict(m, kind='mutation'))
    for m in BENIGN:
        if m['prop'] == prop:
            vs.append(dict(m, kind='benign'))
    sd = os.path.join(VERIF, 'seeded')
    if os.path.isdir(sd):
        for d in sorted(os.listdir(sd)):
            if d.startswith(prop + '-') and os.path.exists(os.path.join(sd, d, 'patch.diff')):
                declined = False
                try:
                    declined = json.load(open(os.path.join(sd, d, 'meta.json')))['detected_by'].startswith('NOT DETECTED')
                except Exception:
                    pass
                vs.append({'prop': prop, 'id': 'seed:' + d, 'kind': 'seed', 'patch': os.path.join(sd, d, 'patch.diff'), 'declined': declined})
    return vs


def run(prop, repo='/repo', log=print):
    """Returns a dict for the evidence file."""
    vs = variants_for(prop)
    res = {'scratch': None, 'variants': [], 'mutations': 0, 'fired': 0, 'benign': 0, 'silent': 0,
           'seeds': 0, 'seeds_fired': 0, 'stale': 0, 'missed': [], 'false_alarms': []}
    if not vs:
        return res
    os.makedirs(SCRATCH_BASE, exist_ok=True)
    lock = open(os.path.join(SCRATCH_BASE, 'lock'), 'w')
    fcntl.flock(lock, fcntl.LOCK_EX)
    scratch = os.path.join(SCRATCH_BASE, 'repo')
    res['scratch'] = scratch
    try:
        if os.path.isdir(scratch):
            shutil.rmtree(scratch)
        subprocess.check_call(['rsync', '-a', '--exclude', '/target', '--exclude', '.git', '--exclude', '/docs',
                               '--exclude', '/mithril-explorer', '--exclude', 'node_modules',
                               repo.rstrip('/') + '/', scratch + '/'])
        # the pristine copy must give the same verdict as /repo (sanity: same hash -> same facts)
        for v in vs:
            t0 = time.time()
            entry = {'id': v['id'], 'kind': v['kind']}
            restore = None
            if 'patch' in v and not os.path.isabs(v['patch']):
                v = dict(v, patch=os.path.join(HERE, 'patches', v['patch']))
            if 'patches' in v:
                # several independent patches applied together (those that apply, in order)
                applied = []
                for pn in v['patches']:
                    pp = os.path.join(HERE, 'patches', pn)
                    if subprocess.run(['git', 'apply', '--check', pp], cwd=scratch, stdout=subprocess.DEVNULL, stderr=subprocess.DEVNULL).returncode == 0:
                        subprocess.check_call(['git', 'apply', pp], cwd=scratch)
                        applied.append(pp)
                entry['applied'] = [os.path.basename(x) for x in applied]
                if len(applied) < 2:
                    for pp in reversed(applied):
                        subprocess.check_call(['git', 'apply', '-R', pp], cwd=scratch)
                    entry['status'] = 'stale'
                    entry['detail'] = 'fewer than two of the patches apply together'
                    res['stale'] += 1
                    res['variants'].append(entry)
                    log('  selftest stale       %s %s' % (prop, v['id']))
                    continue

                def restore(ps=applied):
                    for pp in reversed(ps):
                        subprocess.check_call(['git', 'apply', '-R', pp], cwd=scratch)
            elif 'patch' in v:
                r = subprocess.run(['git', 'apply', '--check', v['patch']], cwd=scratch,
                                   stdout=subprocess.PIPE, stderr=subprocess.STDOUT, text=True)
                if r.returncode != 0:
                    entry['status'] = 'stale'
                    entry['detail'] = 'patch does not apply to the current tree'
                    res['stale'] += 1
                    res['variants'].append(entry)
                    log('  selftest stale       %s %s' % (prop, v['id']))
                    continue
                subprocess.check_call(['git', 'apply', v['patch']], cwd=scratch)
                restore = lambda p=v['patch']: subprocess.check_call(['git', 'apply', '-R', p], cwd=scratch)
            else:
                path = os.path.join(scratch, v['file'])
                try:
                    src = open(path).read()
                except OSError:
                    src = None
                if src is None or src.count(v['old']) != 1:
                    entry['status'] = 'stale'
                    entry['detail'] = 'source pattern not found exactly once in the current tree'
                    res['stale'] += 1
                    res['variants'].append(entry)
                    log('  selftest stale       %s %s' % (prop, v['id']))
                    continue
                open(path, 'w').write(src.replace(v['old'], v['new']))
                restore = lambda p=path, s=src: open(p, 'w').write(s)
                entry['file'] = v['file']
                entry['why'] = v.get('why', '')
            try:
                rc, out = _run_check(prop, scratch)
            finally:
                restore()
            fired = rc == 1 and ('VIOLATION property=%s' % prop) in out
            named = all(x in out for x in v.get('expect', []))
            if v['kind'] == 'benign':
                res['benign'] += 1
                if rc == 0:
                    entry['status'] = 'silent'
                    res['silent'] += 1
                else:
                    entry['status'] = 'false-alarm' if fired else 'no-verdict'
                    entry['detail'] = _fail_lines(out)
                    res['false_alarms'].append(v['id'])
            else:
                key = 'seeds' if v['kind'] == 'seed' else 'mutations'
                res[key] += 1
                if fired and named:
                    entry['status'] = 'fired'
                    entry['reported'] = _fail_lines(out, 3)
                    res['seeds_fired' if v['kind'] == 'seed' else 'fired'] += 1
                elif v.get('declined') and rc == 0:
                    # a seeded change outside what the static rules decide (recorded as such in its meta.json)
                    entry['status'] = 'documented-miss'
                    res.setdefault('documented_misses', []).append(v['id'])
                else:
                    entry['status'] = 'fired-other-instance' if fired else ('no-verdict' if rc == 2 else 'missed')
                    entry['detail'] = _fail_lines(out)
                    res['missed'].append(v['id'])
            entry['wall_s'] = round(time.time() - t0, 1)
            res['variants'].append(entry)
            log('  selftest %-11s %s %-34s %.0fs' % (entry['status'], prop, v['id'], time.time() - t0))
            if entry['status'] not in ('fired', 'silent', 'documented-miss'):
                log('SELFTEST-%s property=%s variant=%s' % ('FALSE-ALARM' if v['kind'] == 'benign' else 'MISSED', prop, v['id']))
    finally:
        shutil.rmtree(scratch, ignore_errors=True)
        fcntl.flock(lock, fcntl.LOCK_UN)
        lock.close()
    return res


if __name__ == '__main__':
    print(json.dumps(run(sys.argv[1]), indent=1))
