"""One-off audit aid (not a check): which rule instances silently DISAPPEAR under a variant?

For one property: the instance names evaluated on the pristine tree and on every behaviour-preserving variant give the
set of STABLE instances (present in all of them).  For every mutation / seed the stable instances that are no longer
evaluated are printed: each is a place where a rule is vacuous when its construct disappears (the rule should then
report, not stay silent).  Usage: python3 selftest/vacuity_audit.py C07 [C08 ...]
"""
import json
import os
import re
import shutil
import subprocess
import sys

HERE = os.path.dirname(os.path.abspath(__file__))
VERIF = os.path.dirname(HERE)
sys.path.insert(0, HERE)
import sensitivity  # noqa: E402

LINE = re.compile(r'^\s+(ok|FAIL|known)\s+(\S+)\s+(\S+)\s+(.*)$')


def instances(out):
    s = set()
    for l in out.splitlines():
        m = LINE.match(l)
        if m:
            s.add((m.group(2), m.group(3), m.group(4).strip()))
    return s


def audit(prop, repo='/repo'):
    base = os.environ.get('MVS_SCRATCH', '/var/tmp/mvs-scratch') + '-audit'
    os.makedirs(base, exist_ok=True)
    scratch = os.path.join(base, 'repo')
    if os.path.isdir(scratch):
        shutil.rmtree(scratch)
    subprocess.check_call(['rsync', '-a', '--exclude', '/target', '--exclude', '.git', '--exclude', '/docs', '--exclude', '/mithril-explorer',
                           '--exclude', 'node_modules', repo + '/', scratch + '/'])
    rc, out = sensitivity._run_check(prop, scratch)
    base_i = instances(out)
    stable = set(base_i)
    res = {}
    for v in sensitivity.variants_for(prop):
        applied = []
        if 'patches' in v:
            ps = [os.path.join(HERE, 'patches', x) for x in v['patches']]
        elif 'patch' in v:
            ps = [v['patch'] if os.path.isabs(v['patch']) else os.path.join(HERE, 'patches', v['patch'])]
        else:
            ps = None
        restore = None
        if ps is not None:
            for pp in ps:
                if subprocess.run(['git', 'apply', '--check', pp], cwd=scratch, stdout=subprocess.DEVNULL, stderr=subprocess.DEVNULL).returncode == 0:
                    subprocess.check_call(['git', 'apply', pp], cwd=scratch)
                    applied.append(pp)
            if not applied:
                continue
        else:
            path = os.path.join(scratch, v['file'])
            src = open(path).read()
            if src.count(v['old']) != 1:
                continue
            open(path, 'w').write(src.replace(v['old'], v['new']))
            restore = (path, src)
        try:
            rc, out = sensitivity._run_check(prop, scratch)
        finally:
            for pp in reversed(applied):
                subprocess.check_call(['git', 'apply', '-R', pp], cwd=scratch)
            if restore:
                open(restore[0], 'w').write(restore[1])
        ins = instances(out)
        res[v['id']] = (v['kind'], rc, ins)
        if v['kind'] == 'benign' and rc == 0:
            stable &= ins
    print('== %s: %d instances on the pristine tree, %d stable across %d silent benign variants' % (
        prop, len(base_i), len(stable), sum(1 for k, (kd, rc, _i) in res.items() if kd == 'benign' and rc == 0)))
    for vid, (kind, rc, ins) in sorted(res.items()):
        if kind == 'benign':
            continue
        gone = sorted(stable - ins)
        if gone:
            print('  %-8s %-40s rc=%d  vanished: %s' % (kind, vid, rc, [g[2][:90] for g in gone]))
    shutil.rmtree(scratch, ignore_errors=True)
    return {'stable': sorted(stable)}


if __name__ == '__main__':
    for p in sys.argv[1:]:
        audit(p)
