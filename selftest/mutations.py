"""Semantic mutations used to test the checker (each compiles; each breaks one rule instance)."""
MUTATIONS = []


def M(prop, id, file, old, new, expect=(), why=''):
    MUTATIONS.append({'prop': prop, 'id': id, 'file': file, 'old': old, 'new': new, 'expect': list(expect), 'why': why})


def MP(prop, id, patch, expect=(), why=''):
    """A mutation given as a patch (selftest/patches/): a behaviour-preserving refactoring plus the breaking edit, to test a rule on a
    layout other than today's."""
    MUTATIONS.append({'prop': prop, 'id': id, 'patch': patch, 'expect': list(expect), 'why': why})


STM = 'mithril-stm/src/'
COMMON = 'mithril-common/src/'

# ---------------------------------------------------------------- C01
M('C01', 'index-bound-gt', STM + 'proof_system/concatenation/single_signature.rs',
  'if index >= params.m {', 'if index > params.m {', ['index<m'], 'F1 comes back')
M('C01', 'drop-check-indices-q', STM + 'proof_system/concatenation/proof.rs',
  '.with_context(|| "Preliminary verification for basic verifier failed.")?;',
  '.with_context(|| "Preliminary verification for basic verifier failed.").ok();', ['check_indices'], 'result of per-signature check ignored')
M('C01', 'quorum-le', STM + 'proof_system/concatenation/proof.rs',
  'if (nr_indices as u64) < parameters.k {', 'if (nr_indices as u64) + 1 < parameters.k {', ['quorum'], 'k-1 indices accepted')
M('C01', 'unique-dropped', STM + 'proof_system/concatenation/proof.rs',
  'if nr_indices != unique_indices.len() {', 'if nr_indices < unique_indices.len() {', ['unique'], 'duplicates accepted')
M('C01', 'membership-ignored', STM + 'proof_system/concatenation/proof.rs',
  '.with_context(|| "Batch proof is invalid in preliminary verification.")?;',
  '.with_context(|| "Batch proof is invalid in preliminary verification.").unwrap_or_default();', ['verify_leaves_membership'], 'membership failure swallowed')
M('C01', 'lottery-stake-swapped', STM + 'proof_system/concatenation/single_signature.rs',
  'is_lottery_won(params.phi_f, ev, *stake, *total_stake)', 'is_lottery_won(params.phi_f, ev, *total_stake, *total_stake)', ['is_lottery_won'], 'stake role')
M('C01', 'total-stake-from-sig', STM + 'proof_system/concatenation/proof.rs',
  '&avk.get_total_stake(),\n                )\n                .with_context(|| "Preliminary',
  '&sig_reg.reg_party.get_stake(),\n                )\n                .with_context(|| "Preliminary', ['total stake'], 'total stake taken from the signature')

# ---------------------------------------------------------------- C03
CV = COMMON + 'certificate_chain/certificate_verifier.rs'
M('C03', 'epoch-direction-removed', CV,
  '            || previous_certificate.epoch > certificate.epoch\n', '', ['previous.epoch <= certificate.epoch'], 'F3 comes back')
M('C03', 'hash-check-dropped', CV,
  '        self.verify_is_not_in_infinite_loop(certificate)?;\n        self.verify_hash_matches_content(certificate)?;',
  '        self.verify_is_not_in_infinite_loop(certificate)?;', ['computed hash == certificate.hash'], 'standard certificate hash unchecked')
M('C03', 'multisig-result-ignored', CV,
  '                .map(|ancillary_verifier_data| ancillary_verifier_data.into_inner()),\n        )?;',
  '                .map(|ancillary_verifier_data| ancillary_verifier_data.into_inner()),\n        ).ok();', ['AggregateSignature::verify'], '? dropped')
M('C03', 'avk-chaining-swapped', CV,
  'let previous_certificate_has_same_epoch = previous_certificate.epoch == certificate.epoch;\n        let certificate_has_valid_aggregate_verification_key =\n            if previous_certificate_has_same_epoch {',
  'let previous_certificate_has_same_epoch = previous_certificate.epoch == certificate.epoch;\n        let certificate_has_valid_aggregate_verification_key =\n            if !previous_certificate_has_same_epoch {', ['avk'], 'branches swapped')
M('C03', 'genesis-key-from-cert', CV,
  '        self.verify_epoch_matches_protocol_message(genesis_certificate)?;\n\n        Ok(())',
  '        Ok(())', ['CurrentEpoch part'], 'genesis epoch part unchecked')
M('C03', 'return-before-verify', CV,
  '        self.verify_standard_certificate(certificate, &previous_certificate)\n            .await?;\n',
  '        if certificate.epoch != previous_certificate.epoch {\n            self.verify_standard_certificate(certificate, &previous_certificate)\n                .await?;\n        }\n', ['Ok(Some)'], 'same-epoch links unverified')
M('C03', 'client-cache-in-loop1', 'mithril-client/src/certificate_client/verify.rs',
  'current_certificate.as_ref().is_some_and(|c| c.epoch != start_epoch);\n                    if has_crossed_epoch_boundary {',
  'current_certificate.as_ref().is_some_and(|c| c.epoch != start_epoch);\n                    if has_crossed_epoch_boundary || current_certificate.is_some() {', ['verify_chain'], 'cache phase entered without crossing an epoch boundary')
M('C03', 'cached-link-hash-unchecked', 'mithril-client/src/certificate_client/verify.rs',
  'if certificate.hash != hash {', 'if certificate.hash.is_empty() {', ['client:cached-link-hash'], 'the certificate served for a cached link is not compared with the requested hash (F12 reintroduced)')
M('C03', 'cached-link-hash-wrong-operand', 'mithril-client/src/certificate_client/verify.rs',
  'if certificate.hash != hash {', 'if certificate.hash != certificate.hash.clone() {', ['client:cached-link-hash'], 'the served hash is compared with itself')
M('C07', 'kes-clamp-past-last-period', COMMON + 'crypto_helper/cardano/kes/verifier_standard.rs',
  'std::cmp::min(63, kes_evolutions.saturating_add(1))', 'std::cmp::min(64, kes_evolutions.saturating_add(1))', ['kes:last-period'], 'F13 reintroduced: evolution 64 aliases the last period')
M('C01', 'batch-weights-unused', STM + 'signature_scheme/bls_multi_signature/signature.rs',
  'let (vks, sigs) = (scaled_vks, scaled_sigs);', 'let _ = (scaled_vks, scaled_sigs);', ['batch:weights'], 'F14 reintroduced: the unweighted members are summed')
M('C01', 'batch-weights-constant', STM + 'signature_scheme/bls_multi_signature/signature.rs',
  '            let mut hasher = hashed_batch.clone();\n            hasher.update(index.to_be_bytes());', '            let mut hasher = Blake2b::<U16>::new();\n            hasher.update(index.to_be_bytes());', ['batch:weights:transcript'], 'the weights no longer depend on the batch: predictable, offsets can be chosen to cancel')
M('C01', 'decoded-signature-not-group-checked', STM + 'signature_scheme/bls_multi_signature/signature.rs',
  'match BlstSig::sig_validate(bytes, true) {', 'match BlstSig::from_bytes(bytes) {', ['subgroup check'], 'on-curve only: sigma + small-order point verifies in the aggregate path with other bytes')
M('C13', 'rollback-before-first-keeps-everything', 'internal/mithril-persistence/src/database/repository/cardano_transaction_repository.rs',
  '            None => self.remove_all_blocks_transactions_and_block_ranges().await,', '            None => Ok(()),', ['every Ok return has passed a removal'], 'F16 comes back')
M('C13', 'remove-all-forgets-range-roots', 'internal/mithril-persistence/src/database/repository/cardano_transaction_repository.rs',
  """        connection.fetch_first(DeleteCardanoBlockAndTransactionQuery::all())?;
        connection.fetch_first(
            DeleteBlockRangeRootQuery::contains_or_above_block_number_threshold(BlockNumber(0))?,
        )?;
""", """        connection.fetch_first(DeleteCardanoBlockAndTransactionQuery::all())?;
""", ['rollback:remove-all'], 'the remove-everything arm leaves the block range roots of the abandoned fork')
M('C05', 'nesting-bound-removed', 'internal/mithril-merkle-tree/src/merkle_map.rs',
  'let result = if nested_levels > MAX_NESTED_LEVELS {', 'let result = if nested_levels > MAX_NESTED_LEVELS && false {', ['recursive-wire-type'], 'F17 comes back: the nesting bound is dead')
M('C09', 'duplicate-positions-accepted', 'internal/mithril-merkle-tree/src/merkle_tree.rs',
  '            .all(|(position, _)| positions.insert(*position))', '            .all(|(position, _)| { positions.insert(*position); true })', ['mkproof:unique-positions'], 'F18 comes back')

# ---------------------------------------------------------------- C02
CLERK = STM + 'proof_system/concatenation/clerk.rs'
M('C02', 'copies-not-merged', CLERK,
  "                .chain(sig_reg.sig.get_concatenation_signature_indices())\n", '', ['select:copies-merged'], 'F15 comes back: the indices of later copies are not merged into the entry')
M('C02', 'contest-over-raw-input', CLERK,
  'for sig_reg in valid_sigs.iter() {', 'for sig_reg in sigs.iter() {', ['select:verified-before'], 'the contest iterates the unverified input again')
M('C02', 'invalid-sig-fatal', CLERK,
  """                .is_err()
            {
                continue;
            }""", """                .is_err()
            {
                return Err(anyhow!(AggregationError::NotEnoughSignatures(0, params.k)));
            }""", ['skip-invalid'], 'an invalid signature aborts aggregation')
M('C02', 'all-errors-to-none', 'mithril-aggregator/src/multi_signer.rs',
  """                _ => Err(err.context(format!(
                    "Multi Signer can not create multi-signature for entity type '{:?}'",
                    open_message.signed_entity_type
                ))),""", """                _ => Ok(None),""", ['create_multi_signature'], 'every aggregation error hidden as "not yet"')
M('C02', 'aggregate-unselected', STM + 'proof_system/concatenation/proof.rs',
  """        Ok(Self {
            signatures: unique_sigs,
            batch_proof,
        })""", """        let _ = unique_sigs;
        Ok(Self {
            signatures: sig_reg_list,
            batch_proof,
        })""", ['from-selection'], 'proof built from unselected signatures')

# ---------------------------------------------------------------- C04
ENT = COMMON + 'entities/'
M('C04', 'signed-message-unhashed', ENT + 'certificate.rs',
  '        hasher.update(self.signed_message.as_bytes());\n', '', ['Certificate.signed_message'], 'field dropped from the hash')
M('C04', 'sealed-at-unhashed', ENT + 'certificate_metadata.rs',
  '        hasher.update(self.sealed_at.timestamp_nanos_opt().unwrap_or_default().to_be_bytes());\n', '', ['sealed_at'], 'metadata field dropped')
M('C04', 'offset-unhashed', ENT + 'signed_entity_type.rs',
  '                hasher.update(&block_number_offset.to_be_bytes());\n', '                let _ = block_number_offset;\n', ['CardanoBlocksTransactions.2'], 'variant payload field dropped')
M('C04', 'conversion-drops-field', COMMON + 'messages/certificate.rs',
  '            signed_message: certificate_message.signed_message,\n            aggregate_verification_key: certificate_message\n                .aggregate_verification_key\n                .try_into()',
  '            signed_message: String::new(),\n            aggregate_verification_key: certificate_message\n                .aggregate_verification_key\n                .try_into()', ['CertificateMessage.signed_message'], 'conversion defaults a field')
M('C04', 'value-not-in-digest', ENT + 'protocol_message.rs',
  '            hasher.update(value.as_bytes());\n        }\n        hasher.finalize().into()', '            let _ = value;\n        }\n        hasher.finalize().into()', ['key and value'], 'part values not hashed')
M('C04', 'signature-choice-flipped', COMMON + 'messages/certificate.rs',
  'signature: if certificate_message.genesis_signature.is_empty() {', 'signature: if !certificate_message.genesis_signature.is_empty() {', ['signature-choice'], 'wrong signature rebuilt')

# ---------------------------------------------------------------- C18
POOLF = 'internal/mithril-resource-pool/src/resource_pool.rs'
M('C18', 'explicit-give-back-current-gen', POOLF,
  '            .map(|resource_item| self.give_back_resource(resource_item, discriminant));',
  '            .map(|resource_item| self.give_back_resource(resource_item, self.discriminant()?));', ['give_back:gen'], 'F9a comes back')
M('C18', 'fullness-only-outside', POOLF,
  """        resource.reset()?;
        let mut resources = self
            .resources
            .lock()
            .map_err(|_| ResourcePoolError::PoisonedLock)
            .with_context(|| "Resource pool 'give_back_resource' failed locking Mutex")?;
        if resources.len() >= self.size {
            // Pool is full
            return Ok(());
        }
""", """        resource.reset()?;
        if self.count()? >= self.size {
            // Pool is full
            return Ok(());
        }
        let mut resources = self
            .resources
            .lock()
            .map_err(|_| ResourcePoolError::PoisonedLock)
            .with_context(|| "Resource pool 'give_back_resource' failed locking Mutex")?;
""", ['fullness'], 'F9b comes back: fullness tested in its own lock region')
M('C18', 'item-tagged-current', POOLF,
  """        Ok(ResourcePoolItem {
            resource_pool: self,
            discriminant,
            resource: Some(resource),
        })""", """        let _ = discriminant;
        Ok(ResourcePoolItem::new(self, resource))""", ['item:tag'], 'F9c comes back')
M('C18', 'no-notify', POOLF,
  '        self.not_empty.notify_one();\n', '', ['notify'], 'waiters never woken')

# ---------------------------------------------------------------- C05
PROOF = STM + 'proof_system/concatenation/proof.rs'
M('C05', 'prealloc-from-wire-count', PROOF,
  '        let mut sig_reg_list = Vec::new();\n', '        let mut sig_reg_list = Vec::with_capacity(total_sigs);\n', ['alloc'], 'F5 comes back')
M('C05', 'unchecked-offset-add', PROOF,
  """            let sig_reg_end = sig_reg_start
                .checked_add(sig_reg_size)
                .ok_or(AggregateSignatureError::SerializationError)?;""",
  """            let sig_reg_end = sig_reg_start + sig_reg_size;""", ['arith'], 'F5 comes back')
M('C05', 'panicking-slice-index', PROOF,
  """                bytes
                    .get(sig_reg_start..sig_reg_end)
                    .ok_or(AggregateSignatureError::SerializationError)?,
            )?;""", """                &bytes[sig_reg_start..sig_reg_end],
            )?;""", ['index'], 'get() replaced by a panicking index')
M('C05', 'unwrap-in-decoder', STM + 'membership_commitment/merkle_tree/commitment.rs',
  'u64_bytes.copy_from_slice(bytes.get(..8).ok_or(MerkleTreeError::SerializationError)?);', 'u64_bytes.copy_from_slice(bytes.get(..8).unwrap());', ['panic:'], 'new unwrap on attacker-controlled length')

# ---------------------------------------------------------------- C09
MT = 'internal/mithril-merkle-tree/src/'
M('C09', 'mmr-verdict-dropped', MT + 'merkle_tree.rs',
  """        .verify(self.inner_root.to_owned(), self.inner_leaves.to_owned())?
        .then_some(())
        .with_context(|| "Invalid MKProof")""",
  """        .verify(self.inner_root.to_owned(), self.inner_leaves.to_owned())?;
        Ok(())""", ['MKProof::verify'], 'Ok(false) of the MMR verifier accepted')
M('C09', 'subproof-result-ignored', MT + 'merkle_map.rs',
  """                .with_context(|| "MKMapProof could not verify sub proof")?;""",
  """                .with_context(|| "MKMapProof could not verify sub proof")
                .ok();""", ['sub proof'], 'invalid sub proof accepted')
M('C09', 'linkage-skipped-for-single', MT + 'merkle_map.rs',
  'if !self.sub_proofs.is_empty() {', 'if self.sub_proofs.len() > 1 {', ['linkage'], 'a single sub proof is not linked to the master')
M('C09', 'item-containment-ignored', COMMON + 'entities/mk_set_proof.rs',
  '            self.proof.contains(&node)?;', '            let _ = self.proof.contains(&node);', ['contains'], 'items not bound to the proof')
M('C09', 'sortedness-check-weakened', STM + 'membership_commitment/merkle_tree/commitment.rs',
  'if ordered_indices != proof.indices {', 'if ordered_indices.len() != proof.indices.len() {', ['sorted'], 'unsorted index lists accepted')
M('C09', 'root-check-dropped', STM + 'membership_commitment/merkle_tree/commitment.rs',
  'if leaves.len() == 1 && leaves[0] == self.root {', 'if leaves.len() == 1 && !leaves[0].is_empty() {', ['final-node==root'], 'any final node accepted')

# ---------------------------------------------------------------- C07
KC = COMMON + 'crypto_helper/cardano/key_certification.rs'
M('C07', 'kes-check-dropped', KC,
  '                .with_context(|| "invalid KES signature for Concatenation")?;', '                .with_context(|| "invalid KES signature for Concatenation").ok();', ['KesVerifier::verify'], 'KES failure ignored')
M('C07', 'opcert-not-validated', COMMON + 'crypto_helper/cardano/kes/verifier_standard.rs',
  """        operational_certificate
            .validate()
            .map_err(|_| KesVerifyError::OpCertInvalid)?;
""", '', ['OpCert::validate'], 'cold-key signature of the op cert unchecked')
M('C07', 'kes-window-2', COMMON + 'crypto_helper/cardano/kes/verifier_standard.rs',
  'kes_evolutions.saturating_add(1)', 'kes_evolutions.saturating_add(2)', ['kes:window'], 'window widened')
M('C07', 'duplicate-key-accepted', STM + 'protocol/key_registration/register.rs',
  """        if is_already_registered {
            return Err(RegisterError::EntryAlreadyRegistered(Box::new(*entry)).into());
        }
""", '        let _ = is_already_registered;\n', ['duplicate'], 'same key registered twice')
M('C07', 'leader-saves-unverified', 'mithril-aggregator/src/services/signer_registration/verifier.rs',
  '            .get(&party_id_registered)', '            .get(&signer.party_id)', ['agg_verifier'], 'stake looked up by the claimed id')

# ---------------------------------------------------------------- C10
PRV = 'mithril-client/src/cardano_database_client/proving.rs'
M('C10', 'per-name-check-dropped', PRV,
  """            && files_not_verified.tampered_files.is_empty()
            && files_not_verified.non_verifiable_files.is_empty()
""", '', ['tampered'], 'F6 comes back')
M('C10', 'missing-check-dropped', PRV,
  """            && missing_immutable_files.is_empty()
""", '', ['missing'], 'missing files tolerated although not allowed')
M('C10', 'root-check-ignored', PRV,
  """            &merkle_tree.compute_root()?,
        )?;""", """            &merkle_tree.compute_root()?,
        )
        .ok();""", ['match_message'], 'digest list not bound to the certificate')
M('C10', 'proof-unverified', PRV,
  """            merkle_proof
                .verify()
                .map_err(CardanoDatabaseVerificationError::MerkleProofVerification)?;
""", '', ['MKProof::verify'], 'proof not verified')

# ---------------------------------------------------------------- C14 / C15
CSF = 'mithril-aggregator/src/services/certifier/certifier_service.rs'
M('C14', 'self-verification-ignored', CSF,
  """                    "CertificateVerifier can not verify certificate with hash: '{}'",
                    certificate.hash
                )
            })?;""", """                    "CertificateVerifier can not verify certificate with hash: '{}'",
                    certificate.hash
                )
            }).ok();""", ['verify_certificate'], 'unverifiable certificate stored')
M('C14', 'certified-flag-ignored', CSF,
  """            return Err(CertifierServiceError::AlreadyCertified(signed_entity_type.clone()).into());
        }

        if open_message.is_expired {
            warn!(
                self.logger,
                "create_certificate: open message""", """        }

        if open_message.is_expired {
            warn!(
                self.logger,
                "create_certificate: open message""", ['is_certified'], 'already certified open message sealed again')
M('C14', 'avk-from-next-epoch', CSF,
  'epoch_service.current_aggregate_verification_key()?.clone(),', 'epoch_service.next_aggregate_verification_key()?.clone(),', ['aggregate_verification_key'], 'wrong AVK in the certificate')
M('C14', 'ready-without-genesis', 'mithril-aggregator/src/runtime/state_machine.rs',
  '        } else if last_genesis_certificate_epoch.is_none() {', '        } else if last_genesis_certificate_epoch.is_none() && self.config.is_follower {', ['genesis'], 'leader becomes Ready without genesis')
M('C15', 'open-message-marked-before-insert', CSF,
  """        let certificate = self
            .certificate_repository
            .create_certificate(certificate)
            .await
            .with_context(|| {format!(
                "Certifier can not create certificate for signed entity type: '{signed_entity_type}'")
            })?;

        let mut open_message_certified: OpenMessageRecord = open_message_record.into();
        open_message_certified.is_certified = true;
        self.open_message_repository
            .update_open_message(&open_message_certified)
            .await
            .with_context(|| format!("Certifier can not update open message for signed entity type: '{signed_entity_type}'"))
            ?;
""", """        let mut open_message_certified: OpenMessageRecord = open_message_record.into();
        open_message_certified.is_certified = true;
        self.open_message_repository
            .update_open_message(&open_message_certified)
            .await
            .with_context(|| format!("Certifier can not update open message for signed entity type: '{signed_entity_type}'"))
            ?;

        let certificate = self
            .certificate_repository
            .create_certificate(certificate)
            .await
            .with_context(|| {format!(
                "Certifier can not create certificate for signed entity type: '{signed_entity_type}'")
            })?;
""", ['update_open_message'], 'a crash between the two leaves a certified open message without certificate')
M('C15', 'lock-not-released-on-error', 'mithril-aggregator/src/services/signed_entity.rs',
  """            .await;
            service
                .signed_entity_type_lock
                .release(signed_entity_type.clone())
                .await;

            result.with_context""", """            .await;
            if result.is_ok() {
                service
                    .signed_entity_type_lock
                    .release(signed_entity_type.clone())
                    .await;
            }

            result.with_context""", ['lock'], 'lock leaked when the task panics')
M('C15', 'artifact-error-keeps-state', 'mithril-aggregator/src/runtime/state_machine.rs',
  """            .map_err(|e| RuntimeError::ReInit {
                message: "transiting SIGNING → READY: failed to create artifact. Retrying…"
                    .to_string(),
                nested_error: Some(e),
            })?;""", """            .map_err(|e| RuntimeError::KeepState {
                message: "transiting SIGNING → READY: failed to create artifact. Retrying…"
                    .to_string(),
                nested_error: Some(e),
            })?;""", ['ReInit'], 'artifact failure leaves the machine in SIGNING')

# ---------------------------------------------------------------- C16
M('C16', 'store-before-verify', CSF,
  """        self.multi_signer
            .verify_single_signature(&open_message.protocol_message.to_message(), signature)
            .await
            .map_err(|err| {
                CertifierServiceError::InvalidSingleSignature(
                    signed_entity_type.clone(),
                    signature.party_id.clone(),
                    err,
                )
            })?;
""", """        if let Err(err) = self.multi_signer
            .verify_single_signature(&open_message.protocol_message.to_message(), signature)
            .await
        {
            warn!(self.logger, "invalid single signature"; "error" => ?err);
        }
""", ['verify_single_signature'], 'invalid signatures stored')
M('C16', 'expired-flag-ignored', CSF,
  """            return Err(CertifierServiceError::Expired(signed_entity_type.clone()).into());
        }

        self.multi_signer""", """        }

        self.multi_signer""", ['is_expired'], 'signatures accepted for an expired round')
M('C16', 'route-skips-authentication', 'mithril-aggregator/src/http_server/routes/signatures_routes.rs',
  '        if !single_signature.is_authenticated() {', '        if !single_signature.is_authenticated() && single_signature.party_id.is_empty() {', ['route'], 'unauthenticated signatures registered')

# ---------------------------------------------------------------- C06
REGF = STM + 'protocol/key_registration/register.rs'
M('C06', 'ord-ignores-key', STM + 'protocol/key_registration/closed_registration_entry.rs',
  """        self.stake.cmp(&other.stake).then(
            self.verification_key_for_concatenation
                .cmp(&other.verification_key_for_concatenation),
        )""", """        self.stake.cmp(&other.stake)""", ['ord:'], 'equal-stake parties collapse / order by insertion')
M('C06', 'leaf-omits-stake', STM + 'membership_commitment/merkle_tree/leaf.rs',
  '        result[96..].copy_from_slice(&self.1.to_be_bytes());\n', '', ['MerkleTreeConcatenationLeaf.1'], 'stake not committed')
M('C06', 'leaves-sorted-differently', REGF,
  """        MerkleTree::new(
            &self
                .closed_registration_entries
                .iter()
                .filter_map(|entry| (*entry).clone().into())
                .collect::<Vec<L>>(),
        )""", """        let mut leaves = self
            .closed_registration_entries
            .iter()
            .filter_map(|entry| (*entry).clone().into())
            .collect::<Vec<L>>();
        leaves.reverse();
        MerkleTree::new(&leaves)""", ['regset:iter'], 'leaf order differs from slot order')
M('C06', 'total-stake-unchecked', REGF,
  """                acc.checked_add(entry.get_stake())
                    .ok_or(RegisterError::TotalStakeOverflow {
                        accumulated_stake: acc,
                        stake: entry.get_stake(),
                    })""", """                Ok::<u64, RegisterError>(acc.wrapping_add(entry.get_stake()))""", ['total-stake'], 'total stake wraps')

# ---------------------------------------------------------------- C08
M('C08', 'signer-range-inclusive', STM + 'proof_system/concatenation/signer.rs',
  'for index in 0..self.parameters.m {', 'for index in 0..=self.parameters.m {', ['signer:range'], 'signer tries index m')
M('C08', 'signer-roles-swapped', STM + 'proof_system/concatenation/signer.rs',
  """                self.stake,
                self.total_stake,
            ) {""", """                self.total_stake,
                self.stake,
            ) {""", ['is_lottery_won'], 'signer and verifier disagree on roles')
M('C08', 'draw-ignores-index', STM + 'signature_scheme/bls_multi_signature/signature.rs',
  '            .chain_update(index.to_le_bytes())\n', '            .chain_update({ let _ = index; 0u64.to_le_bytes() })\n', ['dense_mapping:inputs'], 'same draw for every index')

# ---------------------------------------------------------------- C11
MSG = COMMON + 'messages/'
M('C11', 'roots-not-compared', MSG + 'cardano_transactions_proof.rs',
  """            } else if merkle_root != tx_merkle_root {
                return Err(VerifyCardanoTransactionsProofsError::NonMatchingMerkleRoot);
            }""", """            }""", ['same-root'], 'proofs of different roots accepted')
M('C11', 'set-proof-unverified', MSG + 'cardano_transactions_proof.rs',
  """                    source: e,
                }
            })?;

            let tx_merkle_root""", """                    source: e,
                }
            }).ok();

            let tx_merkle_root""", ['CardanoTransactionsSetProof::verify'], 'invalid set proof accepted')
M('C11', 'v2-reports-unchecked-items', MSG + 'proof_v2/cardano_transactions_proof.rs',
  '            latest_block_number: self.latest_block_number,\n            security_parameter: self.security_parameter,',
  '            latest_block_number: self.latest_block_number,\n            security_parameter: Default::default(),', ['result-fields'], 'offset not taken from the message')
M('C11', 'leaf-id-drops-delimiter', COMMON + 'entities/cardano_block_transaction_mktree_node.rs',
  'format!("Block/{block_hash}/{block_number}/{slot_number}")', 'format!("Block/{block_hash}/{block_number}{slot_number}")', ['templates'], 'ambiguous leaf text')
M('C11', 'leaf-id-drops-field', COMMON + 'entities/cardano_block_transaction_mktree_node.rs',
  'format!("Tx/{transaction_hash}/{block_hash}/{block_number}/{slot_number}",)', 'format!("Tx/{transaction_hash}/{block_hash}/{block_number}",)', ['slot_number'], 'field not committed')
M('C11', 'message-root-from-certificate', 'mithril-client/src/message.rs',
  """                ProtocolMessagePartKey::CardanoBlocksTransactionsMerkleRoot,
                verified_transactions.certified_merkle_root().to_string(),""", """                ProtocolMessagePartKey::CardanoBlocksTransactionsMerkleRoot,
                transactions_proofs_certificate.protocol_message.get_message_part(&ProtocolMessagePartKey::CardanoBlocksTransactionsMerkleRoot).cloned().unwrap_or_default(),""", ['message:'], 'message recomputed from itself')

# ---------------------------------------------------------------- C12
DBD = 'internal/cardano-node/mithril-cardano-node-internal-database/src/'
M('C12', 'beacon-filter-strict', DBD + 'digesters/cardano_immutable_digester.rs',
  '        .filter(|f| f.number <= up_to_file_number)', '        .filter(|f| f.number < up_to_file_number)', ['list:'], 'beacon trio excluded')
M('C12', 'beacon-file-not-required', DBD + 'digesters/cardano_immutable_digester.rs',
  'Some(last_immutable_file) if last_immutable_file.number < up_to_file_number => {', 'Some(last_immutable_file) if last_immutable_file.number + 1 < up_to_file_number => {', ['beacon-exists'], 'missing beacon file tolerated')
M('C12', 'ord-by-path-only', DBD + 'entities/immutable_file.rs',
  'self.number.cmp(&other.number).then(self.path.cmp(&other.path))', 'self.path.cmp(&other.path)', ['immutable_file:ord'], 'order depends on the directory path only')
M('C12', 'cache-error-fatal', DBD + 'digesters/cardano_immutable_digester.rs',
  """                    BTreeMap::from_iter(immutables.into_iter().map(|i| (i, None)))
                }
            },""", """                    BTreeMap::new()
                }
            },""", ['fetch:fallback'], 'cache read error drops every file')
M('C12', 'unsorted-listing', DBD + 'entities/immutable_file.rs',
  '        files.sort();\n\n        Ok(files)', '        Ok(files)', ['list_all:sort'], 'directory order reaches the digest list')

# ---------------------------------------------------------------- C13
CTR = 'internal/mithril-persistence/src/database/repository/cardano_transaction_repository.rs'
BTI = 'internal/cardano-node/mithril-cardano-node-chain/src/chain_importer/blocks_and_transactions_importer.rs'
M('C13', 'legacy-roots-not-rolled-back', CTR,
  """        connection.fetch_first(
            DeleteLegacyBlockRangeRootQuery::contains_or_above_block_number_threshold(
                block_number,
            )?,
        )?;
""", """        let _ = DeleteLegacyBlockRangeRootQuery::contains_or_above_block_number_threshold(
            block_number,
        )?;
""", ['rollback:transaction'], 'stale legacy range roots survive a roll-back')
M('C13', 'rollback-not-committed', CTR,
  """        transaction.commit()?;
        Ok(())
    }

    /// Remove blocks, transactions, and block range roots that are in a rolled-back fork""", """        let _ = transaction;
        Ok(())
    }

    /// Remove blocks, transactions, and block range roots that are in a rolled-back fork""", ['rollback:transaction'], 'roll-back never committed')
M('C13', 'rollback-error-ignored', BTI,
  """                        .remove_rolled_chain_data_and_block_range(slot_number)
                        .await?;""", """                        .remove_rolled_chain_data_and_block_range(slot_number)
                        .await
                        .ok();""", ['importer:loop'], 'failed roll-back ignored')
M('C13', 'cursor-advanced-in-loop', BTI,
  """                        .store_blocks_and_transactions(parsed_blocks_with_transactions)
                        .await?;
                }""", """                        .store_blocks_and_transactions(parsed_blocks_with_transactions)
                        .await?;
                    if let Some(point) = streamer.last_polled_point() {
                        *self.last_polled_point.lock().await = Some(point);
                    }
                }""", ['importer:cursor'], 'cursor moves before the batch loop completed')
M('C13', 'rollback-threshold-inclusive', 'internal/mithril-persistence/src/database/query/cardano_block/delete_cardano_block_and_transactions.rs',
  'WhereCondition::new("block_number > ?*", vec![threshold])', 'WhereCondition::new("block_number >= ?*", vec![threshold])', ['sql:'], 'the block at the roll-back point is deleted too')

# ---------------------------------------------------------------- C17
SEC = COMMON + 'entities/signed_entity_config.rs'
M('C17', 'step-zero-division', SEC,
  '    let adjusted_step = std::cmp::max(step, BlockNumber(1));\n    (block_number - security_parameter) / adjusted_step * adjusted_step',
  '    let adjusted_step = step;\n    (block_number - security_parameter) / adjusted_step * adjusted_step', ['beacon:formula'], 'division by a zero step')
M('C17', 'raw-subtraction', SEC,
  '(block_number - security_parameter) / adjusted_step * adjusted_step', 'BlockNumber(*block_number - *security_parameter) / adjusted_step * adjusted_step', ['beacon:formula'], 'underflow when the tip is below the security parameter')
M('C17', 'beacon-from-clock', SEC,
  """            SignedEntityTypeDiscriminants::MithrilStakeDistribution => {
                SignedEntityType::MithrilStakeDistribution(time_point.epoch)
            }""", """            SignedEntityTypeDiscriminants::MithrilStakeDistribution => {
                let _now = std::time::SystemTime::now();
                SignedEntityType::MithrilStakeDistribution(time_point.epoch)
            }""", ['beacon:purity'], 'clock read in the beacon function')
M('C17', 'roles-swapped', SEC,
  'compute_block_number_to_be_signed(block_number, self.security_parameter, self.step)', 'compute_block_number_to_be_signed(self.step, self.security_parameter, block_number)', ['beacon:formula'], 'tip and step swapped')

# ---------------------------------------------------------------- C19
ANV = 'mithril-client/src/utils/ancillary_verifier.rs'
DTK = 'mithril-client/src/cardano_database_client/download_unpack/download_task.rs'
M('C19', 'manifest-signature-optional', ANV,
  """        let signature = manifest
            .signature()
            .ok_or(AncillaryVerificationError::SignatureMissing)?;
        self.verifier
            .verify(&manifest.compute_hash(), &signature)
            .map_err(AncillaryVerificationError::SignatureInvalid)?;
""", """        if let Some(signature) = manifest.signature() {
            self.verifier
                .verify(&manifest.compute_hash(), &signature)
                .map_err(AncillaryVerificationError::SignatureInvalid)?;
        }
""", ['verify'], 'unsigned manifest accepted')
M('C19', 'data-hashes-unchecked', ANV,
  '        manifest.verify_data(temp_ancillary_dir).await?;\n', '', ['verify_data'], 'file hashes unchecked')
M('C19', 'ancillary-unpacked-into-target', DTK,
  '        self.download_unpack_file(ancillary_files_temp_dir, logger).await?;', '        self.download_unpack_file(target_dir, logger).await?;', ['unpack-dir'], 'ancillary archive unpacked into the database directory')
M('C19', 'tempdir-kept-on-error', DTK,
  """                    if let Err(e) = tokio::fs::remove_dir_all(&ancillary_files_temp_dir).await {""",
  """                    if download_unpack_verify_result.is_err() {
                        return download_unpack_verify_result;
                    }
                    if let Err(e) = tokio::fs::remove_dir_all(&ancillary_files_temp_dir).await {""", ['tempdir'], 'unverified files stay under the target directory')

# ---------------------------------------------------------------- C20
SCF = 'mithril-signer/src/services/certifier.rs'
SSM = 'mithril-signer/src/runtime/state_machine.rs'
M('C20', 'already-signed-filter-skipped', SCF,
  """        let not_already_signed_entities = self
            .signed_beacon_store
            .filter_out_already_signed_entities(unlocked_signed_entities)
            .await?;

        Ok(not_already_signed_entities)""", """        Ok(unlocked_signed_entities)""", ['filter'], 'beacons signed again')
M('C20', 'publish-error-still-marks', SCF,
  """                    protocol_message,
                )
                .await?;
        } else {""", """                    protocol_message,
                )
                .await
                .ok();
        } else {""", ['publish:mark'], 'a failed publish is marked as signed')
M('C20', 'ready-without-can-sign', SSM,
  '            false => Ok(SignerState::RegisteredNotAbleToSign { epoch }),', '            false => Ok(SignerState::ReadyToSign { epoch }),', ['ready-guard'], 'signing without eligible keys')
M('C20', 'initializer-saved-under-current-epoch', 'mithril-signer/src/runtime/runner.rs',
  '                .save_protocol_initializer(epoch_offset_to_recording_epoch, protocol_initializer)', '                .save_protocol_initializer(epoch, protocol_initializer)', ['offset-site'], 'key stored under the wrong epoch')
M('C20', 'epoch-change-ignored', SSM,
  '        if current_time_point.epoch > epoch {\n            Ok(EpochStatus::NewEpoch(current_time_point.epoch))', '        if current_time_point.epoch > epoch + 1 {\n            Ok(EpochStatus::NewEpoch(current_time_point.epoch))', ['epoch-changed'], 'keeps signing one epoch too long')

# ---------------------------------------------------------------- added after seeds C06-2 / C12-1 / C12-2 (other sites of the same kind)
M('C06', 'vk-ord-truncated', STM + 'signature_scheme/bls_multi_signature/verification_key.rs',
  'for (i, j) in self_bytes.iter().zip(other_bytes.iter()) {', 'for (i, j) in self_bytes.iter().zip(other_bytes.iter()).skip(1) {',
  ['complete canonical encodings'], 'first byte (flags + top bits) left out of the key order')
IDB = 'internal/cardano-node/mithril-cardano-node-internal-database/src/'
M('C12', 'cache-get-other-key', IDB + 'digesters/cache/json_provider.rs',
  'let value = values.get(&immutable.filename).map(|f| f.to_owned());', 'let value = values.get(&immutable.number.to_string()).map(|f| f.to_owned());',
  ['own name'], 'cache read under a key that is not the file name')
M('C12', 'walker-depth-2', IDB + 'entities/immutable_file.rs',
  '        .max_depth(1)\n        .into_iter()\n        .filter_entry(is_immutable)', '        .max_depth(2)\n        .into_iter()\n        .filter_entry(is_immutable)',
  ['walker depth'], 'sub-directories of immutable/ are listed')
M('C12', 'cache-store-shifted', IDB + 'digesters/cardano_immutable_digester.rs',
  '.map(|(file, hash)| (file.filename.clone(), hash.clone()))\n                .collect();',
  '.map(|(file, _hash)| file.filename.clone())\n                .zip(computed_immutables_digests.entries.values().cloned())\n                .collect();',
  ['positional'], 'names of the new entries zipped with the digests of all entries')

# ---------------------------------------------------------------- C16 after the F8 repair
MS = COMMON + 'protocol/multi_signer.rs'
M('C16', 'party-binding-removed', MS,
  """        if self.registered_verification_keys.get(&single_signature.party_id) != Some(&vk) {
            return Err(anyhow!(
                "Signature was not issued with the key registered by party: '{}'",
                single_signature.party_id
            ));
        }
""", """        let _ = anyhow!("unused {}", self.registered_verification_keys.len());
""", ['key registered by signature.party_id'], 'F8 comes back')
M('C16', 'party-binding-presence-only', MS,
  'if self.registered_verification_keys.get(&single_signature.party_id) != Some(&vk) {',
  'if !self.registered_verification_keys.contains_key(&single_signature.party_id) {',
  ['key registered by signature.party_id'], 'the claimed party must be registered but its key is not compared with the slot key')

# ---------------------------------------------------------------- C08 after seed C08-2
M('C08', 'stake-narrowed', STM + 'proof_system/concatenation/eligibility.rs',
  'let w = Ratio::new_raw(BigInt::from(stake), BigInt::from(total_stake));',
  'let w = Ratio::new_raw(BigInt::from(stake as u32), BigInt::from(total_stake));',
  ['without narrowing'], 'stake truncated to 32 bits before the exact arithmetic')

# ---------------------------------------------------------------- C13 after seeds C13-1 / C13-2
PERS = 'internal/mithril-persistence/src/'
M('C13', 'fk-pragma-error-dropped', PERS + 'sqlite/connection_builder.rs',
  '''                .execute("pragma foreign_keys=true")
                .with_context(|| "SQLite initialization: could not enable FOREIGN KEY support.")?;
        }

        Ok(connection)
    }

    /// Apply a list''', '''                .execute("pragma foreign_keys=true")
                .with_context(|| "SQLite initialization: could not enable FOREIGN KEY support.")
                .ok();
        }

        Ok(connection)
    }

    /// Apply a list''', ['foreign_keys'], 'pragma failure ignored: connection returned without enforcement')
M('C13', 'signer-pool-without-fk', 'mithril-signer/src/dependency_injection/builder.rs',
  '            &[ConnectionOptions::EnableForeignKeys],\n        )?\n        .build_pool(pool_size)', '            &[],\n        )?\n        .build_pool(pool_size)',
  ['EnableForeignKeys'], 'signer cardano_tx pool built without the option')
M('C13', 'streamer-skips-any-rollback-at-or-after-start', 'internal/cardano-node/mithril-cardano-node-chain/src/chain_scanner/chain_reader_block_streamer.rs',
  '&& rollback_slot_number == self.from.slot_number;', '&& rollback_slot_number >= self.from.slot_number;',
  ['skipped only when'], 'roll-backs to any later point dropped')
M('C13', 'streamer-skip-stateless', 'internal/cardano-node/mithril-cardano-node-chain/src/chain_scanner/chain_reader_block_streamer.rs',
  'let is_initial_rollback = self.last_polled_point.is_none()\n                    && rollback_slot_number == self.from.slot_number;',
  'let is_initial_rollback = rollback_slot_number == self.from.slot_number;',
  ['gated by streamer state'], 'F11 comes back')

# ---------------------------------------------------------------- C19 after seed C19-2
M('C19', 'markers-written-before-unpack', 'mithril-client/src/cardano_database_client/download_unpack/internal_downloader.rs',
  """        // Return the result later so unexpected file removal is always run
        let download_result = self""", """        create_bootstrap_node_files(&self.logger, target_dir, &cardano_database_snapshot.network)?;
        // Return the result later so unexpected file removal is always run
        let download_result = self""", ['precedes create_bootstrap_node_files'], 'markers written first: an archive entry unpacked later overwrites them')

# ---------------------------------------------------------------- C20 after seeds C20-1 / C20-2 (other role sites)
M('C20', 'signers-swapped-in-transition', 'mithril-signer/src/runtime/state_machine.rs',
  """                    signer_registrations.current_signers,
                    signer_registrations.next_signers,
                )
                .await
                .map(CycleOutcome::TransitionTo)""", """                    signer_registrations.next_signers,
                    signer_registrations.current_signers,
                )
                .await
                .map(CycleOutcome::TransitionTo)""", ['current_signers'], 'current and next signers exchanged on the way to the epoch service')
M('C20', 'discriminants-from-registration-config', 'mithril-signer/src/services/epoch_service.rs',
  """        let allowed_discriminants = mithril_network_configuration
            .configuration_for_aggregation""", """        let allowed_discriminants = mithril_network_configuration
            .configuration_for_registration""", ['allowed_discriminants'], 'signing configuration of the wrong epoch')
M('C20', 'settings-recorded-for-node-epoch', 'mithril-signer/src/runtime/state_machine.rs',
  '.inform_epoch_settings(aggregator_signer_registration_epoch, mithril_network_configuration, current_signer,  next_signer)',
  '.inform_epoch_settings(epoch, mithril_network_configuration, current_signer,  next_signer)',
  ['inform_epoch_settings(epoch)'], 'epoch settings stored under the node epoch')

MP('C04', 'as-str-table-duplicate', 'mut-c04-as-str-duplicate.diff', ['part_key:display-injective'],
   'on the layout of rf3-c04-1 (the key text comes from a private `as_str` table used by Display and by the digest): two keys get the same literal')

M('C07', 'kes-helper-ignores-announced-evolutions', COMMON + 'crypto_helper/cardano/key_certification.rs',
  '.verify(message, &signature, opcert, kes_evolutions)', '.verify(message, &signature, opcert, KesEvolutions(0))',
  ['register:kes-args:4'], 'the private KES helper tries evolution 0 whatever the signer announced')
M('C07', 'kes-check-over-claimed-party-id', COMMON + 'crypto_helper/cardano/key_certification.rs',
  '                    &parameters.verification_key_for_concatenation.to_bytes(),\n                    parameters\n                        .verification_key_signature_for_concatenation',
  '                    parameters.party_id.clone().unwrap_or_default().as_bytes(),\n                    parameters\n                        .verification_key_signature_for_concatenation',
  ['register:kes-args:1'], 'the KES signature is checked over the claimed party id instead of the verification key')
MP('C17', 'zero-test-wrong-constant', 'mut-c17-zero-test-wrong-constant.diff', ['beacon:formula'],
   'on the layout of rf3-c17-4 (the shared helper inlined, `if step == 0 { 1 } else { step }` instead of max): the test compares with 1, so a step of 0 reaches the division')

for _p in ('C14', 'C15'):
    M(_p, 'prune-threshold-next-epoch', 'mithril-aggregator/src/services/certifier/certifier_service.rs',
      '            .clean_epoch(epoch)\n', '            .clean_epoch(epoch.next())\n', ['open_message:prune-threshold'],
      'the clean-up run when an epoch is entered deletes below the NEXT epoch: the open messages of the epoch being entered go too')
MP('C14', 'loop-selection-ignores-ids', 'mut-c14-loop-selection-ignores-ids.diff', ['create_certificate:field:metadata'],
   'on the layout of rf4-c14-1 (signers selected by a for loop with `contains`): every current signer is listed as soon as anybody signed')
MP('C15', 'lock-helper-result-ignored', 'mut-c15-lock-helper-result-ignored.diff', ['create_artifact:lock-pairing'],
   'on the layout of rf4-c15-1 (check-and-lock in a private async helper): create_artifact ignores the helper\'s refusal and spawns a second task for a locked entity type')
MP('C04', 'preimage-forgets-m', 'mut-c04-preimage-forgets-m.diff', ['cover:protocol_parameters::ProtocolParameters.m'],
   'on the layout of rf4-c04-3 (pre-image built by a private helper, hashed in one call): m is read but left out of the pre-image')
