"""Behaviour-preserving edits: the checks must stay silent on each (false-alarm guard)."""
BENIGN = []


def B(prop, id, file, old, new, why=''):
    BENIGN.append({'prop': prop, 'id': id, 'file': file, 'old': old, 'new': new, 'why': why})


POOLF = 'internal/mithril-resource-pool/src/resource_pool.rs'
B('C18', 'extra-early-fullness-test', POOLF,
  """        resource.reset()?;
        let mut resources = self""", """        resource.reset()?;
        if self.count()? >= self.size {
            return Ok(());
        }
        let mut resources = self""", 'an extra early-out outside the region; the in-region test remains')
