"""Behaviour-preserving edits: the checks must stay silent on each (false-alarm guard)."""
BENIGN = []


def B(prop, id, file, old, new, why=''):
    BENIGN.append({'prop': prop, 'id': id, 'file': file, 'old': old, 'new': new, 'why': why})


def BP(prop, id, patch, why=''):
    """a multi-file behaviour-preserving edit kept as selftest/patches/<patch>"""
    BENIGN.append({'prop': prop, 'id': id, 'patch': patch, 'why': why})


POOLF = 'internal/mithril-resource-pool/src/resource_pool.rs'
B('C18', 'extra-early-fullness-test', POOLF,
  """        resource.reset()?;
        let mut resources = self""", """        resource.reset()?;
        if self.count()? >= self.size {
            return Ok(());
        }
        let mut resources = self""", 'an extra early-out outside the region; the in-region test remains')

DTK = 'mithril-client/src/cardano_database_client/download_unpack/download_task.rs'
B('C19', 'verification-failure-swallowed-nothing-moved', DTK,
  """        let validated_manifest = ancillary_verifier.verify(ancillary_files_temp_dir).await?;
        validated_manifest.move_to_final_location(target_dir).await""",
  """        let validated_manifest = ancillary_verifier.verify(ancillary_files_temp_dir).await;
        match validated_manifest {
            Ok(manifest) => manifest.move_to_final_location(target_dir).await,
            Err(e) => {
                slog::warn!(logger, "ancillary verification failed"; "error" => ?e);
                Ok(())
            }
        }""", 'a failed verification is turned into Ok(()) but nothing is moved and the temp dir is removed: the restored directory still holds only verified files')

STMB = 'mithril-stm/src/'
B('C06', 'vk-ord-array-cmp', STMB + 'signature_scheme/bls_multi_signature/verification_key.rs',
  """        let self_bytes = self.to_bytes();
        let other_bytes = other.to_bytes();
        let mut result = Ordering::Equal;

        for (i, j) in self_bytes.iter().zip(other_bytes.iter()) {
            result = i.cmp(j);
            if result != Ordering::Equal {
                return result;
            }
        }

        result
    }""", """        self.to_bytes().cmp(&other.to_bytes())
    }""", 'lexicographic comparison of the same two complete encodings, written with the array Ord')

IDBB = 'internal/cardano-node/mithril-cardano-node-internal-database/src/'
B('C12', 'update-cache-for-loop', IDBB + 'digesters/cardano_immutable_digester.rs',
  """            let new_cached_entries = computed_immutables_digests
                .entries
                .iter()
                .filter(|(file, _hash)| {
                    computed_immutables_digests
                        .new_cached_entries
                        .contains(&file.filename)
                })
                .map(|(file, hash)| (file.filename.clone(), hash.clone()))
                .collect();
""", """            let mut new_cached_entries = Vec::new();
            for (file, hash) in computed_immutables_digests.entries.iter() {
                if computed_immutables_digests
                    .new_cached_entries
                    .contains(&file.filename)
                {
                    new_cached_entries.push((file.filename.clone(), hash.clone()));
                }
            }
""", 'the same per-entry pairs built by a for loop instead of an iterator chain')
B('C12', 'walker-depth-order', IDBB + 'entities/immutable_file.rs',
  """        .min_depth(1)
        .max_depth(1)
        .into_iter()
        .filter_entry(is_immutable)""", """        .max_depth(1)
        .min_depth(1)
        .into_iter()
        .filter_entry(is_immutable)""", 'builder calls swapped')

B('C13', 'streamer-skip-inline-condition', 'internal/cardano-node/mithril-cardano-node-chain/src/chain_scanner/chain_reader_block_streamer.rs',
  """                let is_initial_rollback = self.last_polled_point.is_none()
                    && rollback_slot_number == self.from.slot_number;
                let block_streamer_next_action = if is_initial_rollback {""",
  """                let block_streamer_next_action = if rollback_slot_number == self.from.slot_number
                    && self.last_polled_point.is_none()
                {""", 'same condition, operands swapped, no intermediate flag')


BP('C19', 'move-relocated-with-cleanup', 'c19-move-relocated-with-cleanup.diff',
   'the move of the validated manifest relocated from download_unpack_verify_ancillary into build_download_future (the refactoring of seed '
   'C19-1) but WITHOUT the early return: the temporary directory is still removed on every exit')

B('C17', 'formula-checked-rem', 'mithril-common/src/entities/signed_entity_config.rs',
  """    let adjusted_step = std::cmp::max(step, BlockNumber(1));
    (block_number - security_parameter) / adjusted_step * adjusted_step
}""", """    let stable_block_number = block_number - security_parameter;

    // Round down to the closest multiple of the step
    match stable_block_number.checked_rem(*step) {
        Some(remainder) => stable_block_number - remainder,
        None => stable_block_number,
    }
}""", 'the rounding written with checked_rem (the refactoring of seed C17-1) with the CORRECT fall-back for a zero step')
