"""Behaviour-preserving edits: the checks must stay silent on each (false-alarm guard)."""
BENIGN = []


def B(prop, id, file, old, new, why=''):
    BENIGN.append({'prop': prop, 'id': id, 'file': file, 'old': old, 'new': new, 'why': why})


def BP(prop, id, patch, why=''):
    """a multi-file behaviour-preserving edit kept as selftest/patches/<patch>"""
    BENIGN.append({'prop': prop, 'id': id, 'patch': patch, 'why': why})


POOLF = 'internal/mithril-resource-pool/src/resource_pool.rs'
B('C18', 'extra-early-fullness-test', POOLF,
  """        resource.reset()?;
        let mut resources = self""", """        resource.reset()?;
        if self.count()? >= self.size {
            return Ok(());
        }
        let mut resources = self""", 'an extra early-out outside the region; the in-region test remains')

DTK = 'mithril-client/src/cardano_database_client/download_unpack/download_task.rs'
B('C19', 'verification-failure-swallowed-nothing-moved', DTK,
  """        let validated_manifest = ancillary_verifier.verify(ancillary_files_temp_dir).await?;
        validated_manifest.move_to_final_location(target_dir).await""",
  """        let validated_manifest = ancillary_verifier.verify(ancillary_files_temp_dir).await;
        match validated_manifest {
            Ok(manifest) => manifest.move_to_final_location(target_dir).await,
            Err(e) => {
                slog::warn!(logger, "ancillary verification failed"; "error" => ?e);
                Ok(())
            }
        }""", 'a failed verification is turned into Ok(()) but nothing is moved and the temp dir is removed: the restored directory still holds only verified files')

STMB = 'mithril-stm/src/'
B('C06', 'vk-ord-array-cmp', STMB + 'signature_scheme/bls_multi_signature/verification_key.rs',
  """        let self_bytes = self.to_bytes();
        let other_bytes = other.to_bytes();
        let mut result = Ordering::Equal;

        for (i, j) in self_bytes.iter().zip(other_bytes.iter()) {
            result = i.cmp(j);
            if result != Ordering::Equal {
                return result;
            }
        }

        result
    }""", """        self.to_bytes().cmp(&other.to_bytes())
    }""", 'lexicographic comparison of the same two complete encodings, written with the array Ord')

IDBB = 'internal/cardano-node/mithril-cardano-node-internal-database/src/'
B('C12', 'update-cache-for-loop', IDBB + 'digesters/cardano_immutable_digester.rs',
  """            let new_cached_entries = computed_immutables_digests
                .entries
                .iter()
                .filter(|(file, _hash)| {
                    computed_immutables_digests
                        .new_cached_entries
                        .contains(&file.filename)
                })
                .map(|(file, hash)| (file.filename.clone(), hash.clone()))
                .collect();
""", """            let mut new_cached_entries = Vec::new();
            for (file, hash) in computed_immutables_digests.entries.iter() {
                if computed_immutables_digests
                    .new_cached_entries
                    .contains(&file.filename)
                {
                    new_cached_entries.push((file.filename.clone(), hash.clone()));
                }
            }
""", 'the same per-entry pairs built by a for loop instead of an iterator chain')
B('C12', 'walker-depth-order', IDBB + 'entities/immutable_file.rs',
  """        .min_depth(1)
        .max_depth(1)
        .into_iter()
        .filter_entry(is_immutable)""", """        .max_depth(1)
        .min_depth(1)
        .into_iter()
        .filter_entry(is_immutable)""", 'builder calls swapped')

B('C13', 'streamer-skip-inline-condition', 'internal/cardano-node/mithril-cardano-node-chain/src/chain_scanner/chain_reader_block_streamer.rs',
  """                let is_initial_rollback = self.last_polled_point.is_none()
                    && rollback_slot_number == self.from.slot_number;
                let block_streamer_next_action = if is_initial_rollback {""",
  """                let block_streamer_next_action = if rollback_slot_number == self.from.slot_number
                    && self.last_polled_point.is_none()
                {""", 'same condition, operands swapped, no intermediate flag')


BP('C19', 'move-relocated-with-cleanup', 'c19-move-relocated-with-cleanup.diff',
   'the move of the validated manifest relocated from download_unpack_verify_ancillary into build_download_future (the refactoring of seed '
   'C19-1) but WITHOUT the early return: the temporary directory is still removed on every exit')

B('C17', 'formula-checked-rem', 'mithril-common/src/entities/signed_entity_config.rs',
  """    let adjusted_step = std::cmp::max(step, BlockNumber(1));
    (block_number - security_parameter) / adjusted_step * adjusted_step
}""", """    let stable_block_number = block_number - security_parameter;

    // Round down to the closest multiple of the step
    match stable_block_number.checked_rem(*step) {
        Some(remainder) => stable_block_number - remainder,
        None => stable_block_number,
    }
}""", 'the rounding written with checked_rem (the refactoring of seed C17-1) with the CORRECT fall-back for a zero step')

B('C02', 'redundant-self-competition-guard-removed', 'mithril-stm/src/proof_system/concatenation/clerk.rs',
  """                    if previous_sig == sig_reg {
                        // A repeated copy of the signature already holding this index is not a competitor
                        continue;
                    }
""", '', 'since F15 the contest runs over one merged entry per signature: the guard added for F2 can no longer be met (it was a mutation before the fix)')

# ---------------------------------------------------------------- behaviour-preserving refactorings written by independent sub-agents
# (each agent was given only the property text and a scratch worktree; every patch compiles and passes the crate's existing tests)
BP('C01', 'rf-c01-1', 'rf-c01-1.diff',
   'independent refactoring: Split ConcatenationProof::preliminary_verify (the non-BLS half of aggregate verification, used by both verify and batch_verify) into two new private helpers: check_lottery_indices_reach_quorum (per-signature check_indices call, index counting, uniqueness check, k-threshold check) and check_signers_m')
BP('C01', 'rf-c01-2', 'rf-c01-2.diff',
   'independent refactoring: SingleSignatureForConcatenation::check_indices (the m-bound and lottery-win check applied to every claimed index, reached from both ConcatenationProof::preliminary_verify and single-signature verification): the explicit `for &index in &self.indexes { .. }` loop body is extracted into a new private m')
BP('C01', 'rf-c01-3', 'rf-c01-3.diff',
   'independent refactoring: ConcatenationProof::batch_verify: the per-proof loop no longer discards the result of preliminary_verify and then re-collects the BLS signatures and verification keys with two hand-written iterator chains; it uses the (signatures, verification keys) pair that preliminary_verify already returns (coll')
BP('C01', 'rf-c01-4', 'rf-c01-4.diff',
   "independent refactoring: MerkleTreeBatchCommitment::verify_leaves_membership_from_batch_path (the check that every (verification key, stake) leaf of an aggregate signature is committed by the aggregate key). (a) The 'indices must be ordered' check `sorted_copy != proof.indices` (clone + sort_unstable + compare) is replaced ")
BP('C02', 'rf-c02-1', 'rf-c02-1.diff',
   'the refactoring of an independent sub-agent (selection routine split into is_valid_signature / assign / collect helpers, verification as an iterator filter, match instead of if-let, entry API) re-applied by hand to the selection routine as rewritten by fix F15 (the delivered patch, kept as rf-c02-1.orig.diff.txt, no longer applies); mithril-stm tests and the F15 probe pass with it')
BP('C02', 'rf-c02-2', 'rf-c02-2.diff',
   'independent refactoring: ConcatenationProof::aggregate_signatures (the concatenation aggregation entry point reached from Clerk::aggregate_signatures_with_type) is reshaped: the iterator chain `sigs.iter().map(|sig| lookup(..).map(|reg_party| ..)).collect::<Result<Vec<_>,_>>()?` that pairs every single signature with its re')
BP('C02', 'rf-c02-3', 'rf-c02-3.diff',
   'independent refactoring: Verification side of the property ("the result verifies"): ConcatenationProof::preliminary_verify / verify / batch_verify. (a) The computation of the signed message `msg || merkle commitment` is moved from the callee preliminary_verify to its two callers: the private function now takes `message_with')
BP('C02', 'rf-c02-4', 'rf-c02-4.diff',
   'independent refactoring: Lottery evaluation on both sides of the completeness half of the property ("every signature produced by a registered signer verifies"). Signing side, ConcatenationProofSigner (signer.rs): check_lottery\'s `for index in 0..m { if is_lottery_won(..) { indices.push(index) } }` becomes `(0..m).filter(|&i')
BP('C03', 'rf-c03-1', 'rf-c03-1.diff',
   'independent refactoring: MithrilCertificateVerifier::verify_standard_certificate_integrity (the per-certificate checks: standard-signature guard, self-loop, hash, signed message, multi-signature, epoch): the `match .. => Ok/Err }?` signature extraction becomes a let-else with an early return; the one-line private helper ver')
BP('C03', 'rf-c03-2', 'rf-c03-2.diff',
   'independent refactoring: Link checks between a standard certificate and its predecessor. verify_epoch_chaining: the rejecting condition `has_gap_with(prev) || prev.epoch > cert.epoch` with early `return Err` is rewritten (De Morgan + flipped comparison + named booleans) as an accepting condition `epochs_are_contiguous && pr')
BP('C03', 'rf-c03-3', 'rf-c03-3.diff',
   "independent refactoring: Aggregate-verification-key and protocol-parameters chaining (same epoch: equal to the predecessor's; next epoch: equal to what the predecessor's signed protocol message commits to). The three duplicated `previous_certificate.epoch == certificate.epoch` computations go to a new private free function ")
BP('C03', 'rf-c03-4', 'rf-c03-4.diff',
   'independent refactoring: Chain-walk driver. CertificateVerifier::verify_certificate_chain (default trait method): `while let Some(prev) = self.verify_certificate(&certificate).await? { certificate = prev } Ok(())` becomes an explicit `loop { match self.verify_certificate(&current_certificate).await? { Some(prev) => current_')
BP('C07', 'rf-c07-1', 'rf-c07-1.diff',
   'the refactoring of an independent sub-agent (KES evolution window extracted into an associated helper returning a RangeInclusive, the clamp constant named as an associated const, `?` on validate rewritten as an explicit early return, named boolean for the verdict) re-applied by hand to the verifier as repaired by fix F13 (clamp constant 63; the delivered patch, kept as rf-c07-1.orig.diff.txt, no longer applies); the mithril-common KES tests pass with it')
BP('C07', 'rf-c07-2', 'rf-c07-2.diff',
   'independent refactoring: OpCert (mithril-common/src/crypto_helper/cardano/opcert.rs): `validate` is rewritten from `if cold_vk.verify(..).is_ok() { return Ok(()) } Err(OpCertInvalid)` to a destructuring of `opcert_without_vk`, an intermediate `signed_message` local and `cold_vk.verify(&signed_message, cert_sig).map_err(|_| ')
BP('C07', 'rf-c07-3', 'rf-c07-3.diff',
   'independent refactoring: KeyRegWrapper::register (mithril-common/src/crypto_helper/cardano/key_certification.rs) is split: the branch handling a provided operational certificate (KES period presence check, KES signature verification for the Concatenation key, and for the SNARK key under `future_snark`, then pool id derivati')
BP('C07', 'rf-c07-4', 'rf-c07-4.diff',
   'independent refactoring: MithrilSignerRegistrationVerifier::verify (mithril-aggregator/src/services/signer_registration/verifier.rs): the computation of the KES evolutions (current chain KES period minus the opcert start KES period, None without opcert) is extracted into a new private async method `compute_kes_evolutions(&s')
BP('C10', 'rf-c10-1', 'rf-c10-1.diff',
   'independent refactoring: InternalArtifactProver::verify_cardano_database: the accept/reject decision is rewritten. The `if let Ok(ref merkle_proof) = proof_result && missing.is_empty() && tampered.is_empty() && non_verifiable.is_empty() { verify; return Ok(clone) }` let-chain with early return, followed by the fall-through ')
BP('C10', 'rf-c10-2', 'rf-c10-2.diff',
   'independent refactoring: VerifiedDigests::list_immutable_files_not_verified (the check that each computed digest is the digest certified for that very file name): the lookup + comparison is extracted into a new private method `VerifiedDigests::is_verified_digest_of(&self, immutable_file_name, digest) -> Option<bool>` (`self')
BP('C10', 'rf-c10-3', 'rf-c10-3.diff',
   'independent refactoring: InternalArtifactProver::download_and_verify_digests (download of the served digest list and check that it reproduces the Merkle root signed in the certificate) is split in two private steps that it now just chains: `download_digests(&self, &DigestsMessagePart)` (temp dir clean-up, download_unpack_di')
BP('C10', 'rf-c10-4', 'rf-c10-4.diff',
   'independent refactoring: Presence check of the immutable files of the requested range. InternalArtifactProver::list_missing_immutable_files: the two nested `for` loops pushing into a `mut Vec` are rewritten as an iterator chain `range.clone().flat_map(Self::immutable_trio_file_names).filter(|name| !immutable_dir.join(name).')
BP('C11', 'rf-c11-1', 'rf-c11-1.diff',
   'independent refactoring: Legacy transaction proofs: CardanoTransactionsProofsMessage::verify is split. The per-set-proof work (decode the message part, verify the Merkle map proof and membership of every transaction hash, compute the hex Merkle root) is extracted into a new private associated function `verify_set_proof` ret')
BP('C11', 'rf-c11-2', 'rf-c11-2.diff',
   'independent refactoring: Merkle map proof (the proof object behind both proof formats): MKMapProof::verify is split into two new private methods. `verify_sub_proofs` performs the recursive verification of each sub proof (for loop with `?` rewritten as `iter().try_for_each`), and `verify_sub_proofs_are_leaves_of_master_proof')
BP('C11', 'rf-c11-3', 'rf-c11-3.diff',
   'independent refactoring: V2 (blocks / transactions) proof verification in mithril-common. (1) ProofMessageVerifier: the private helper `proof_message_into_entity` is inlined into `verify`; `?` on the conversion becomes a `match` with early `return Err(MalformedData(subject, source))`, and `.verify().map_err(..)?; Ok(root)` ')
BP('C11', 'rf-c11-4', 'rf-c11-4.diff',
   "independent refactoring: mithril-client MessageBuilder (recomputation of the protocol message that is compared with the certificate's signed message). (1) `compute_cardano_blocks_proofs_message` and `compute_cardano_transactions_proofs_v2_message` had two copies of the same body; it is extracted into one new private associa")
BP('C12', 'rf-c12-1', 'rf-c12-1.diff',
   "independent refactoring: ImmutableFile listing clean-up in entities/immutable_file.rs: `list_all_in_dir` now uses let-else for the missing 'immutable' folder and builds the file list with an iterator chain `.map(ImmutableFile::new).collect::<Result<Vec<_>,_>>()?` instead of a push-in-a-for-loop, then sorts it (local renamed")
BP('C12', 'rf-c12-2', 'rf-c12-2.diff',
   "independent refactoring: In digesters/cardano_immutable_digester.rs, `list_immutable_files_to_process` (the beacon filter + 'covered file missing' check used by `compute_merkle_tree`) no longer duplicates the list/filter pipeline: it delegates to the existing sibling `list_immutable_files_to_process_for_range` with the rang")
BP('C12', 'rf-c12-3', 'rf-c12-3.diff',
   'independent refactoring: Cache interaction of `CardanoImmutableDigester` (digesters/cardano_immutable_digester.rs) reshaped: the `self.update_cache(&computed).await` step that both `compute_merkle_tree` and `compute_digests_for_range` performed right after `process_immutables(..).await?` is moved into the callee, which is r')
BP('C12', 'rf-c12-4', 'rf-c12-4.diff',
   'independent refactoring: Digest data flow from per-file hash to Merkle leaves reshaped. In digesters/immutable_digester.rs, `ComputedImmutablesDigests::compute_immutables_digests` turns `match cache { None => .., Some(d) => d }` into `if let Some(digest) = cached_digest { digest } else { .. }`, extracts the `hex::encode(ent')
BP('C14', 'rf-c14-1', 'rf-c14-1.diff',
   'independent refactoring: Split MithrilCertifierService::create_certificate into steps. (a) The open-message lookup plus the NotFound / AlreadyCertified / Expired guards are moved into a new private async helper get_certifiable_open_message_record (the guards now read is_certified / is_expired from the record instead of from')
BP('C14', 'rf-c14-2', 'rf-c14-2.diff',
   'independent refactoring: Restructured MithrilCertifierService::verify_certificate_chain (the epoch-gap / chain validity gate run by the state machine before leaving IDLE). The nested `if let Some(certificate) = ...first() { if gap { return Err } verify; Ok(()) } else { Err(NoGenesis) }` becomes a flat function: fetch the la')
BP('C14', 'rf-c14-3', 'rf-c14-3.diff',
   'independent refactoring: Aggregator state machine, IDLE transition (where the aggregator stops certifying on an epoch gap / missing genesis / genesis epoch). (a) AggregatorRuntime::transition_from_idle: the invalid-chain branch is extracted into a new private method transition_from_idle_with_invalid_chain (called with early')
BP('C14', 'rf-c14-4', 'rf-c14-4.diff',
   'independent refactoring: mithril-aggregator MultiSignerImpl (quorum / single signature validity engine used by the certifier). (a) create_multi_signature: the nested `match aggregate_single_signatures(..) { Ok(x) => Ok(Some(x)), Err(err) => match err.downcast_ref() { Some(NotEnoughSignatures(a, e)) => { warn; Ok(None) } _ =')
BP('C16', 'rf-c16-1', 'rf-c16-1.diff',
   "independent refactoring: mithril-common protocol::MultiSigner::verify_single_signature: the lookup of the (verification key, stake) registered at the signature's signer index and the check that this key is the one registered by the claimed party_id are extracted from verify_single_signature into a new private method find_re")
BP('C16', 'rf-c16-2', 'rf-c16-2.diff',
   'independent refactoring: mithril-common protocol::SignerBuilder::new: the party_id -> registered verification key map (the data the MultiSigner uses to bind a single signature to the party it is attributed to) is no longer built by a separate `registered_signers.iter().map(..).collect()` chain after closing the key registra')
BP('C16', 'rf-c16-3', 'rf-c16-3.diff',
   'independent refactoring: mithril-aggregator MithrilCertifierService::register_single_signature (the single sink used by the HTTP route, the buffered certifier and the DMQ signature processor): the three gate checks that precede the database write - open message already certified, open message expired, and multi_signer.verif')
BP('C16', 'rf-c16-4', 'rf-c16-4.diff',
   'independent refactoring: mithril-aggregator MithrilCertifierService::create_certificate: the computation of the signer list published in the certificate metadata is extracted into a new private associated function select_signers_of_open_message(open_message: &OpenMessage, registered_signers: &[SignerWithStake]) -> Vec<Signe')
BP('C18', 'rf-c18-1', 'rf-c18-1.diff',
   'independent refactoring: ResourcePool::give_back_resource: the two early-return admission guards (pool full, stale discriminant) are extracted into a new private helper `can_admit_resource(&self, resources_count, discriminant) -> StdResult<bool>`; the caller now pushes the resource and notifies the condvar inside a single `')
BP('C18', 'rf-c18-2', 'rf-c18-2.diff',
   "independent refactoring: The two implicit/explicit 'give back a pool item' paths (ResourcePool::give_back_resource_pool_item and the Drop impl of ResourcePoolItem) each contained their own `take().map(|resource| pool.give_back_resource(resource, discriminant))` expression. Both are now routed through one new private method ")
BP('C18', 'rf-c18-3', 'rf-c18-3.diff',
   'independent refactoring: ResourcePool::acquire_resource: the `while resources.is_empty() { wait; timeout check; re-bind guard }` loop followed by `resources.pop_front().unwrap()` is rewritten as a `loop` that first tries `if let Some((discriminant, resource)) = resources.pop_front() { return Ok(ResourcePoolItem { .. }) }` a')
BP('C18', 'rf-c18-4', 'rf-c18-4.diff',
   'independent refactoring: The cache refresh sequence at the end of `compute_cache` (bump the pool discriminant, drain the pool, refill it with the freshly computed Merkle maps) is extracted, in both MithrilProverService (services/prover.rs) and LegacyMithrilProverService (services/prover_legacy.rs), from the async trait meth')
BP('C04', 'rf-c04-1', 'rf-c04-1.diff',
   'independent refactoring: Certificate::try_compute_hash (mithril-common/src/entities/certificate.rs) is split in three private helpers fed with the same Sha256 hasher: feed_hash_with_signed_content (previous hash, epoch, metadata hash, protocol message hash, signed message, concatenation AVK), feed_hash_with_signature (signe')
BP('C04', 'rf-c04-2', 'rf-c04-2.diff',
   'independent refactoring: CertificateMetadata::compute_hash (mithril-common/src/entities/certificate_metadata.rs): the sequence of `hasher.update(..)` statements on a mutable hasher becomes a `Sha256::new().chain_update(..)` chain, the `for party in &self.signers` loop becomes `signers.iter().map(StakeDistributionParty::comp')
BP('C04', 'rf-c04-3', 'rf-c04-3.diff',
   'independent refactoring: ProtocolMessage legacy digest (mithril-common/src/entities/protocol_message.rs): the private method `compute_legacy_digest_bytes(&self)` becomes a private associated function taking only what it hashes, `compute_legacy_digest_bytes(message_parts: &BTreeMap<ProtocolMessagePartKey, ProtocolMessagePart')
BP('C04', 'rf-c04-4', 'rf-c04-4.diff',
   'independent refactoring: CertificateMessage <-> Certificate conversions (mithril-common/src/messages/certificate.rs). (a) TryFrom<CertificateMessage> for Certificate: the fallible field conversions written inline in the struct literal (concatenation AVK, SNARK AVK, ancillary prover data, ancillary verifier data, signature) ')
BP('C05', 'rf-c05-1', 'rf-c05-1.diff',
   'independent refactoring: mithril-stm MerkleTree::from_bytes_legacy (legacy binary decoder of the Merkle tree): the checked computation of the number of heap nodes is extracted into a new private helper `legacy_number_of_nodes(n) -> Option<usize>`, and the checked computation of the byte range of the i-th node plus the bound')
BP('C05', 'rf-c05-2', 'rf-c05-2.diff',
   'independent refactoring: mithril-stm ConcatenationProof decoders (the proof carried by an aggregate signature / certificate multi-signature). (a) `from_bytes`: the `if has_cbor_v1_prefix {..} else {legacy}` is inverted into an early return for the legacy branch, and the CBOR branch body is extracted into a new private `from')
BP('C05', 'rf-c05-3', 'rf-c05-3.diff',
   'independent refactoring: mithril-stm SingleSignature::from_bytes_legacy (legacy binary decoder of a single signature, reached from SingleSignature::from_bytes, SingleSignatureWithRegisteredParty::from_bytes, ConcatenationProof::from_bytes and the hex forms in mithril-common): the function is split in two. The first part - r')
BP('C05', 'rf-c05-4', 'rf-c05-4.diff',
   'independent refactoring: mithril-common hex / JSON-hex decoding entry points of the wire keys and signatures (ProtocolKey<T>: verification keys, single signatures, aggregate signatures, aggregate verification keys, ... reached through TryFrom<&str>/TryFrom<String>/Deserialize/from_json_hex/from_bytes_hex). (a) protocol_key.')
BP('C06', 'rf-c06-1', 'rf-c06-1.diff',
   'independent refactoring: mithril-stm KeyRegistration::close_registration split in two private helpers: compute_non_zero_total_stake (the try_fold/checked_add/ok_or chain rewritten as a for loop with an explicit match on checked_add, the `total_stake == 0` check moved from the caller into this helper) and close_entries (the ')
BP('C06', 'rf-c06-2', 'rf-c06-2.diff',
   'independent refactoring: Restated the ordering that fixes signer slots and Merkle leaf order. BlsVerificationKey: the private helper compare_verification_keys (manual zip loop over the two 96-byte compressed encodings) is inlined into Ord::cmp and replaced by the equivalent library comparison of the two [u8; 96] arrays. Reg')
BP('C06', 'rf-c06-3', 'rf-c06-3.diff',
   'independent refactoring: Signer-slot lookup and concatenation Merkle commitment construction in mithril-stm. (a) ClosedKeyRegistration::to_merkle_tree: filter_map+collect rewritten as a for loop pushing the Some leaves. (b) get_signer_index_for_registration: `.iter().position(..).map(|s| s as u64)` rewritten as an enumerate')
BP('C06', 'rf-c06-4', 'rf-c06-4.diff',
   'independent refactoring: mithril-common registration/AVK path shared by signer, aggregator and client. SignerBuilder: the clerk construction duplicated in build_multi_signer and compute_aggregate_verification_key is extracted into a private helper build_protocol_clerk() returning (ProtocolClerk, Parameters); the body of the')
BP('C08', 'rf-c08-1', 'rf-c08-1.diff',
   'independent refactoring: mithril-stm/src/proof_system/concatenation/eligibility.rs: clean-up of `taylor_comparison` (num-integer backend), the loop that decides `q < exp(x)` for the lottery. Locals renamed (new_x -> next_term, phi -> partial_sum, divisor -> term_index), the constant M = 3 hoisted out of the loop into `error')
BP('C08', 'rf-c08-2', 'rf-c08-2.diff',
   'independent refactoring: mithril-stm/src/proof_system/concatenation/eligibility.rs: `is_lottery_won` (num-integer backend, the eligibility decision shared by signer and verifier) is split into three steps. The `phi_f == 1` shortcut is kept in place but its condition is named with a boolean local (`is_phi_f_one`); the conver')
BP('C08', 'rf-c08-3', 'rf-c08-3.diff',
   'independent refactoring: mithril-stm/src/proof_system/concatenation/signer.rs (signer side of the lottery): `ConcatenationProofSigner::check_lottery` is rewritten from a `for` loop that pushes winning indices into a mutable Vec into the iterator chain `(0..m).filter(|&index| { let ev = sigma.evaluate_dense_mapping(msg, inde')
BP('C08', 'rf-c08-4', 'rf-c08-4.diff',
   'independent refactoring: mithril-stm/src/proof_system/concatenation/single_signature.rs (verifier side of the lottery): the body of the loop in `SingleSignatureForConcatenation::check_indices` (index bound check, evaluation of the dense mapping, `is_lottery_won` test) is extracted into a new private method `check_index(&sel')
BP('C09', 'rf-c09-1', 'rf-c09-1.diff',
   'independent refactoring: mithril-stm MerkleTreeBatchCommitment::verify_leaves_membership_from_batch_path: the two precondition checks (one index per leaf; indices ordered) are merged into a single guard using an intermediate boolean and slice::is_sorted() instead of clone + sort_unstable + compare; the heap positions are compute')
BP('C09', 'rf-c09-2', 'rf-c09-2.diff',
   'independent refactoring: mithril-stm MerkleTree::compute_merkle_tree_batch_path (generation of the batch membership proof for the signer-registration tree) is split in three: the input validation (non-empty, in bounds, ordered) moves to a new private helper assert_batch_indices_are_valid(&self, &[usize]); the per-level step of t')
BP('C09', 'rf-c09-3', 'rf-c09-3.diff',
   'independent refactoring: mithril-merkle-tree (generic Merkle tree), internal/mithril-merkle-tree/src/merkle_tree.rs: (a) MKProof::verify: the long method chain is unrolled with two intermediate variables (the rebuilt ckb MerkleProof and the boolean returned by its verify) before the unchanged `.then_some(()).with_context(|| "Inv [first hunk re-applied by hand after fix F18 added the position check to MKProof::verify; the delivered patch is kept as rf-c09-3.orig.diff.txt]')
BP('C09', 'rf-c09-4', 'rf-c09-4.diff',
   'independent refactoring: mithril-merkle-tree (nested block-range Merkle map), internal/mithril-merkle-tree/src/merkle_map.rs: MKMapProof::verify is split in three steps: the recursive verification of the sub proofs moves to a new private helper verify_sub_proofs(); the check that binds every sub proof to the master proof (key me')
BP('C13', 'rf-c13-1', 'rf-c13-1.diff',
   'independent refactoring: BlocksTransactionsImporter (blocks_and_transactions_importer.rs): `run` now computes the highest stored block number once, names the `store already up to date` condition in a boolean (`is_store_up_to_date`, written as a match with the comparison flipped to `up_to_beacon <= stored_block_number`) and retur')
BP('C13', 'rf-c13-2', 'rf-c13-2.diff',
   'independent refactoring: ChainReaderBlockStreamer (chain_reader_block_streamer.rs): the decision to skip the roll backward that opens the chain sync is moved from the callee `get_next_chain_block_action` to its only caller `poll_next`, as a new private predicate `is_chain_sync_opening_rollback(&rollback_point)` evaluated at the ')
BP('C13', 'rf-c13-3', 'rf-c13-3.diff',
   'independent refactoring: BlockRangeImporter (block_ranges_importer.rs): the duplicated computation, in `run` and `run_legacy`, of which block ranges still need a Merkle root (resume from the end of the highest stored block range, or from block 0 when none is stored, and skip when a stored range exists but no new complete range f')
BP('C13', 'rf-c13-4', 'rf-c13-4.diff',
   'independent refactoring: CardanoTransactionRepository (mithril-persistence, cardano_transaction_repository.rs): in `remove_rolled_back_transactions_and_block_range_by_block_number` the three delete statements (blocks+transactions above the block number, block range roots and legacy block range roots containing or above it) are e [second hunk re-applied by hand after fix F16 rewrote the by-slot roll-back; the delivered patch is kept as rf-c13-4.orig.diff.txt]')
BP('C15', 'rf-c15-1', 'rf-c15-1.diff',
   'independent refactoring: MithrilCertifierService::create_certificate (mithril-aggregator/src/services/certifier/certifier_service.rs): the two persistence steps that seal a round (certificate insert, then open-message update with is_certified = true) are extracted, in the same order, into a new private async helper `store_certif')
BP('C15', 'rf-c15-2', 'rf-c15-2.diff',
   'independent refactoring: MithrilSignedEntityService::create_artifact_task (mithril-aggregator/src/services/signed_entity.rs) is split in three: the retry loop around compute_artifact moves to a new private helper `compute_artifact_with_retry` and is rewritten from a count-down `remaining_retries` + `break Ok/Err` + trailing `?` ')
BP('C15', 'rf-c15-3', 'rf-c15-3.diff',
   'independent refactoring: BufferedCertifierService (mithril-aggregator/src/services/certifier/buffered_certifier.rs), buffered-signature hand-over: the body of the per-signature loop in `try_register_buffered_signatures_to_current_open_message` is extracted into a new private async helper `try_hand_over_buffered_signature` return')
BP('C15', 'rf-c15-4', 'rf-c15-4.diff',
   'independent refactoring: Runtime code that orders `seal certificate -> produce artifact` and that resumes a non-certified round after a restart. (a) AggregatorRuntime::transition_from_signing_to_ready_multisignature (mithril-aggregator/src/runtime/state_machine.rs): `.await?.ok_or_else(|| RuntimeError::KeepState{..})?` becomes `')
BP('C17', 'rf-c17-1', 'rf-c17-1.diff',
   'independent refactoring: mithril-common/src/entities/signed_entity_config.rs: the private free function `compute_block_number_to_be_signed(block_number, security_parameter, step)` is replaced by a narrower private helper `round_down_to_multiple_of_step(block_number, step)`. The subtraction of the security parameter (the security')
BP('C17', 'rf-c17-2', 'rf-c17-2.diff',
   'independent refactoring: mithril-common/src/entities/signed_entity_config.rs: in `CardanoTransactionsSigningConfig::compute_block_number_to_be_signed`, the adjustment of the configured step to the block range grid (round the step down to the start of its block range, with a minimum of BlockRange::LENGTH) is extracted into a new ')
BP('C17', 'rf-c17-3', 'rf-c17-3.diff',
   'independent refactoring: mithril-common/src/entities/signed_entity_config.rs: `SignedEntityConfig::time_point_to_signed_entity` (the single function through which signer and aggregator derive the beacon to sign from a time point and the epoch`s configuration) is split. The two arms that depend on a signing configuration are extr')
BP('C17', 'rf-c17-4', 'rf-c17-4.diff',
   'independent refactoring: mithril-common/src/entities/signed_entity_config.rs: `SignedEntityConfig::list_allowed_signed_entity_types` (the entry point used by both the signer`s certifier service and the aggregator`s runner to obtain the beacons to sign for a time point) is rewritten from an iterator chain `discriminants.into_iter')
BP('C19', 'rf-c19-1', 'rf-c19-1.diff',
   'independent refactoring: mithril-client download_task.rs: the ancillary branch of DownloadTask::build_download_future (create temp sub-directory -> download/unpack into it -> verify signed manifest -> move vouched files -> always remove temp directory) is extracted into a new private method `download_unpack_ancillary_through_tem')
BP('C19', 'rf-c19-2', 'rf-c19-2.diff',
   'independent refactoring: mithril-client utils/ancillary_verifier.rs: AncillaryVerifier::verify is split into two new private helpers - `read_manifest` (open + JSON-parse ancillary_manifest.json, `?` on the open error rewritten as an explicit match/early return, the path is moved instead of cloned) and `verify_manifest_signature`')
BP('C19', 'rf-c19-3', 'rf-c19-3.diff',
   'independent refactoring: mithril-client utils/unexpected_downloaded_file_verifier.rs (the guard that removes from the immutable directory every entry that was neither there before the download nor an immutable trio file of the allowed range): (a) the body of the spawn_blocking closure of `compute_expected_state_after_download` i')
BP('C19', 'rf-c19-4', 'rf-c19-4.diff',
   'independent refactoring: mithril-client cardano_database_client/download_unpack/internal_downloader.rs: InternalArtifactDownloader::download_unpack (the orchestration entry point) is split. (a) The construction of the task queue (immutable tasks for the requested range, then - only with include_ancillary - the warning + the anci')
BP('C20', 'rf-c20-1', 'rf-c20-1.diff',
   'independent refactoring: mithril-signer state machine (runtime/state_machine.rs): flatten `cycle_ready_to_sign` into early returns (match binding the unchanged time point + let-else on the beacon) and extract the runner call + KeepState error mapping into a new private helper `fetch_beacon_to_sign`; in `has_epoch_changed` rename')
BP('C20', 'rf-c20-2', 'rf-c20-2.diff',
   'independent refactoring: Sign-once-per-beacon mechanism. services/certifier.rs: `SignerCertifierService::compute_publish_single_signature` now delegates the `compute the single signature, publish it if one was issued` part to a new private helper `compute_and_publish_signature_if_any` (an `if let Some / else` rewritten as a `mat')
BP('C20', 'rf-c20-3', 'rf-c20-3.diff',
   'independent refactoring: Epoch key material / eligibility mechanism in services/epoch_service.rs (MithrilEpochService). `can_signer_sign_current_epoch`: nested if-let/else flattened with a let-else early return for the `no protocol initializer` case and a named `is_signer_included` boolean that is returned directly. `is_signer_i')
BP('C20', 'rf-c20-4', 'rf-c20-4.diff',
   'independent refactoring: Key registration mechanism in runtime/runner.rs (SignerRunner). `register_signer_to_aggregator`: the inline `match` that reads the operational certificate from the configured path is extracted into a new private inherent method `SignerRunner::read_operational_certificate` (written with let-else); the gua')

BP('C01', 'rf3-c01-1', 'rf3-c01-1.diff',
   'independent refactoring of code changed by a fix: commit (F12-F16): ConcatenationProof::batch_verify: walk the batch with zipped iterators instead of an index into four parallel slices, and feed BlsSignature::aggregate with the (signatures, verification keys) pair that preliminary_verify already returns instead of discarding it ')
BP('C01', 'rf3-c01-2', 'rf3-c01-2.diff',
   'independent refactoring of code changed by a fix: commit (F12-F16): ConcatenationProof::preliminary_verify is split into two private helpers called in the original order: check_lottery_indices (per-signature index bound + lottery check, index uniqueness, count >= k) and check_signers_membership (leaves + Merkle batch path). Insi')
BP('C01', 'rf3-c01-3', 'rf3-c01-3.diff',
   'independent refactoring of code changed by a fix: commit (F12-F16): BlsSignature::batch_verify_aggregates: the derivation of the per-member 128-bit scalars and the scaling of each (verification key, signature) pair are extracted into a new private associated function scale_batch_members, written as an iterator chain + unzip that')
BP('C01', 'rf3-c01-4', 'rf3-c01-4.diff',
   'independent refactoring of code changed by a fix: commit (F12-F16): BlsSignature::aggregate and BlsSignature::from_bytes clean-up. aggregate: the generation of the random scalars moves to a new private associated function derive_aggregation_scalars (iterator flat_map over 0..sigs.len() instead of a loop pushing into two vectors)')
BP('C03', 'rf3-c03-1', 'rf3-c03-1.diff',
   'independent refactoring of code changed by a fix: commit (F12-F16): mithril-client/src/certificate_client/verify.rs: the body of `<MithrilCertificateVerifier as CertificateVerifier>::verify_chain` is split in two. Phase 1 (validate without cache until an epoch boundary is crossed) is extracted into the new private method `verify')
BP('C03', 'rf3-c03-2', 'rf3-c03-2.diff',
   'independent refactoring of code changed by a fix: commit (F12-F16): mithril-client/src/certificate_client/verify.rs: `MithrilCertificateVerifier::verify_with_cache_enabled` is flattened. The `if let Some(previous_hash) = fetch_cached_previous_hash(..)? { cache hit } else { cache miss }` becomes a `let Some(cached_previous_hash) ')
BP('C03', 'rf3-c03-3', 'rf3-c03-3.diff',
   'independent refactoring of code changed by a fix: commit (F12-F16): mithril-client/src/certificate_client/verify.rs: in `MithrilCertificateVerifier::verify_without_cache` the inline, `#[cfg(feature = "unstable")]`-gated block that records a validated certificate in the verifier cache (`if let Some(cache) = self.verifier_cache.as')
BP('C03', 'rf3-c03-4', 'rf3-c03-4.diff',
   'independent refactoring of code changed by a fix: commit (F12-F16): mithril-common/src/messages/certificate.rs: `impl TryFrom<CertificateMessage> for Certificate` (the conversion every certificate served by an aggregator goes through before the client verifier sees it, and which decides genesis vs standard via the emptiness of `')
BP('C13', 'rf3-c13-1', 'rf3-c13-1.diff',
   'independent refactoring of code changed by a fix: commit (F12-F16): CardanoTransactionRepository::remove_rolled_back_blocks_transactions_and_block_range_by_slot_number: the `match` on the result of get_closest_block_number_above_slot_number is rewritten as an intermediate variable (`highest_kept_block_number`) + `let Some(block_')
BP('C13', 'rf3-c13-2', 'rf3-c13-2.diff',
   'independent refactoring of code changed by a fix: commit (F12-F16): CardanoTransactionRepository: the two consecutive deletions of block range roots and legacy block range roots, duplicated in remove_rolled_back_transactions_and_block_range_by_block_number and in remove_all_blocks_transactions_and_block_ranges, are extracted int')
BP('C13', 'rf3-c13-3', 'rf3-c13-3.diff',
   'independent refactoring of code changed by a fix: commit (F12-F16): BlocksTransactionsImporter (blocks_and_transactions_importer.rs): (a) `run`: the up-to-date condition `highest_stored_beacon.as_ref().is_some_and(|f| f.block_number >= up_to_beacon)` becomes a named boolean `is_up_to_date` computed with a `match` and the flipped')
BP('C13', 'rf3-c13-4', 'rf3-c13-4.diff',
   'independent refactoring of code changed by a fix: commit (F12-F16): BlockRangeImporter (block_ranges_importer.rs): (a) the duplicated `match store.get_highest_*_block_range().await?.map(..) { None => .., Some(r) if r.is_empty() => return Ok(()), Some(r) => r }` at the top of `run` and `run_legacy` is extracted into a private ass')

BP('C02', 'rf3-c02-1', 'rf3-c02-1.diff',
   'independent refactoring focused on the code the second-round rules anchor in: ConcatenationClerk::select_valid_signatures_for_k_indices: the verify-and-merge loop (drop invalid single signatures, keep one entry per signature holding the union of the indices of all its verified copies) is extracted into a new private helper `merg')
BP('C02', 'rf3-c02-2', 'rf3-c02-2.diff',
   'independent refactoring focused on the code the second-round rules anchor in: ConcatenationClerk::select_valid_signatures_for_k_indices: the contest loop (per-index winner = smallest sigma, per-signature list of lost indices) is extracted into a new private helper `settle_index_contests(&valid_sigs) -> (sig_by_index, removal_idx')
BP('C02', 'rf3-c02-3', 'rf3-c02-3.diff',
   'independent refactoring focused on the code the second-round rules anchor in: ConcatenationClerk::select_valid_signatures_for_k_indices: final collection loop. The `clone the winner and strip the indices it lost` step is extracted into a new private helper `without_lost_indices(sig_reg, Option<&Vec<LotteryIndex>>)` which uses `V')
BP('C02', 'rf3-c02-4', 'rf3-c02-4.diff',
   'independent refactoring focused on the code the second-round rules anchor in: mithril-common MultiSigner::aggregate_single_signatures: (1) the iterator chain converting entities::SingleSignature to protocol signatures is moved to a new private associated function `MultiSigner::to_protocol_signatures` written as a for loop over a')
BP('C06', 'rf3-c06-1', 'rf3-c06-1.diff',
   'independent refactoring focused on the code the second-round rules anchor in: mithril-signer MithrilEpochService::associate_signers_with_stake: the `for` loop that pushed into a mutable Vec is rewritten as `signers.iter().map(..).collect::<StdResult<Vec<_>>>()`, and the hand-written field-by-field construction of SignerWithStake')
BP('C06', 'rf3-c06-2', 'rf3-c06-2.diff',
   'independent refactoring focused on the code the second-round rules anchor in: mithril-signer MithrilEpochService::current_signers_with_stake / next_signers_with_stake: the two trait accessors `self.epoch_of_current_data()?` and `self.current_signers()?` / `self.next_signers()?` are inlined into a single `let data = self.unwrap_d')
BP('C06', 'rf3-c06-3', 'rf3-c06-3.diff',
   'independent refactoring focused on the code the second-round rules anchor in: mithril-signer MithrilEpochService::inform_epoch_settings: the owned `mithril_network_configuration` argument is destructured (`let MithrilNetworkConfiguration { configuration_for_aggregation, configuration_for_registration, .. } = ...`) and its parts ')
BP('C06', 'rf3-c06-4', 'rf3-c06-4.diff',
   'independent refactoring focused on the code the second-round rules anchor in: mithril-aggregator MithrilStakeDistributionArtifactBuilder::compute_artifact: the next-epoch signer list is bound to a named local (`next_signers_with_stake`, copied with `.to_vec()` instead of `.clone()` on the `&Vec`), `protocol_parameters` is rename')
BP('C08', 'rf3-c08-1', 'rf3-c08-1.diff',
   'independent refactoring focused on the code the second-round rules anchor in: ClosedKeyRegistration::get_signer_index_for_registration: the iterator chain `.iter().position(|r| r == entry).map(|s| s as u64)` is rewritten as an explicit `for (position, registered_entry) in ...iter().enumerate()` loop with an early `return Some(po')
BP('C08', 'rf3-c08-2', 'rf3-c08-2.diff',
   'independent refactoring focused on the code the second-round rules anchor in: ClosedKeyRegistration::get_registration_entry_for_index: the chain `.iter().nth(*signer_index as usize).cloned().ok_or_else(|| RegisterError::UnregisteredIndex.into())` is rewritten with an intermediate `entry_position` variable, a `let Some(registered')
BP('C08', 'rf3-c08-3', 'rf3-c08-3.diff',
   'independent refactoring focused on the code the second-round rules anchor in: Initializer::try_create_signer: (a) the nested expression that converts the registration entry into a ClosedRegistrationEntry (`(entry, total_stake, phi_f).try_into()?`), looks it up with get_signer_index_for_registration and maps a miss to RegisterErr')
BP('C08', 'rf3-c08-4', 'rf3-c08-4.diff',
   'independent refactoring focused on the code the second-round rules anchor in: ConcatenationProof::aggregate_signatures (direct caller of ClosedKeyRegistration::get_registration_entry_for_index): the `sigs.iter().map(|sig| lookup.map(|reg_party| ...)).collect::<Result<Vec<_>, _>>()?` chain that pairs every single signature with t')
BP('C09', 'rf3-c09-1', 'rf3-c09-1.diff',
   'independent refactoring focused on the code the second-round rules anchor in: internal/mithril-merkle-tree/src/merkle_tree.rs: MKProof::verify no longer inlines the duplicated-leaf-position guard; it is extracted into a new private method MKProof::check_leaf_positions_are_listed_once (iterator `.all(insert)` rewritten as a for l')
BP('C09', 'rf3-c09-2', 'rf3-c09-2.diff',
   'independent refactoring focused on the code the second-round rules anchor in: internal/mithril-merkle-tree/src/merkle_map.rs: MKMapProof::verify is split. The loop that verifies the sub proofs moves to a new private method verify_sub_proofs (for loop + `?` rewritten as `iter().try_for_each`), the computation of the (key + sub-pr')
BP('C09', 'rf3-c09-3', 'rf3-c09-3.diff',
   'independent refactoring focused on the code the second-round rules anchor in: internal/mithril-merkle-tree/src/merkle_map.rs: the nesting guard of `impl Deserialize for MKMapProof<K>` is reshaped. The items that were local to the `deserialize` function body (const MAX_NESTED_LEVELS, the thread-local NESTED_LEVELS counter, the Ne')
BP('C09', 'rf3-c09-4', 'rf3-c09-4.diff',
   'independent refactoring focused on the code the second-round rules anchor in: mithril-stm/src/membership_commitment/merkle_tree/commitment.rs: MerkleTreeBatchCommitment::verify_leaves_membership_from_batch_path is split and tidied. (a) The two guards (one index per value; indices sorted) are merged into one condition (`!(len_ok ')
BP('C12', 'rf3-c12-1', 'rf3-c12-1.diff',
   'independent refactoring focused on the code the second-round rules anchor in: list_immutable_files_to_process no longer lists+filters itself: it delegates to list_immutable_files_to_process_for_range with the range ImmutableFileNumber::MIN..=up_to_file_number, and the 3-arm `match immutables.last()` (None / Some if number < beac')
BP('C12', 'rf3-c12-2', 'rf3-c12-2.diff',
   'independent refactoring focused on the code the second-round rules anchor in: fetch_immutables_cached: the nested `match cache_provider { None => .., Some(p) => match p.get(..).await { Ok => .., Err => .. } }` is flattened into a let-else early return for the no-cache case followed by `cache_lookup.unwrap_or_else(|error| { warn!')
BP('C12', 'rf3-c12-3', 'rf3-c12-3.diff',
   'independent refactoring focused on the code the second-round rules anchor in: update_cache: `if let Some(cache_provider) = .. { .. }` becomes a let-else early return, and the selection of the (file name, digest) pairs to persist (entries whose file name is listed in new_cached_entries) is moved out of CardanoImmutableDigester::u')
BP('C12', 'rf3-c12-4', 'rf3-c12-4.diff',
   'independent refactoring focused on the code the second-round rules anchor in: The `self.update_cache(&computed).await` step that both compute_merkle_tree and compute_digests_for_range performed right after `self.process_immutables(..).await?` is moved into the callee, which is renamed compute_and_cache_digests (private). Inside ')
BP('C16', 'rf3-c16-1', 'rf3-c16-1.diff',
   'independent refactoring focused on the code the second-round rules anchor in: mithril-common MultiSigner::verify_single_signature: the check that binds the party label to the key slot embedded in the signature is extracted into a new private helper `ensure_key_is_the_one_registered_by(party_id, signing_key)` written as a `match`')
BP('C16', 'rf3-c16-2', 'rf3-c16-2.diff',
   'independent refactoring focused on the code the second-round rules anchor in: mithril-aggregator MithrilCertifierService::register_single_signature is split: the `already certified` / `expired` gate moves into a new private method `ensure_open_message_still_accepts_signatures`, and the signature verification + mapping of the fai')
BP('C16', 'rf3-c16-3', 'rf3-c16-3.diff',
   'independent refactoring focused on the code the second-round rules anchor in: mithril-aggregator MithrilCertifierService::create_certificate: the computation of the certificate`s signer list (metadata.signers) is extracted into a new private free function `select_signers_of_open_message(registered_signers: &[SignerWithStake], op')
BP('C16', 'rf3-c16-4', 'rf3-c16-4.diff',
   'independent refactoring focused on the code the second-round rules anchor in: mithril-aggregator MultiSignerImpl (the direct callee of register_single_signature and the only production caller of mithril-common MultiSigner::verify_single_signature): the two trait methods `verify_single_signature` and `verify_single_signature_for_')
BP('C18', 'rf3-c18-1', 'rf3-c18-1.diff',
   'independent refactoring focused on the code the second-round rules anchor in: ResourcePool::give_back_resource: the two early-return guards (pool full / stale discriminant) are merged into one positive admission condition `has_room && discriminant == self.discriminant()?` guarding push_back + notify_one; comparisons are flipped ')
BP('C18', 'rf3-c18-2', 'rf3-c18-2.diff',
   'independent refactoring focused on the code the second-round rules anchor in: ResourcePool::acquire_resource: the `while resources.is_empty() { wait } ... pop_front().unwrap()` shape is rewritten as `loop { if let Some((discriminant, resource)) = resources.pop_front() { return Ok(item) } resources = self.wait_for_resource(resour')
BP('C18', 'rf3-c18-3', 'rf3-c18-3.diff',
   'independent refactoring focused on the code the second-round rules anchor in: MithrilProverService::compute_cache (prover.rs): the pool refresh step (log `Draining`, compute discriminant_new = discriminant()? + 1, set_discriminant, clear, log `Giving back`, refill) is extracted into a new private inherent method `replace_mk_map_')
BP('C18', 'rf3-c18-4', 'rf3-c18-4.diff',
   'independent refactoring focused on the code the second-round rules anchor in: LegacyMithrilProverService (prover_legacy.rs): (a) in compute_transactions_proofs the `acquire a Merkle map from the pool and replace its block range leaves` steps are extracted into a new private method `acquire_mk_map_enriched_with(&self, mk_trees) -')
BP('C19', 'rf3-c19-1', 'rf3-c19-1.diff',
   'independent refactoring focused on the code the second-round rules anchor in: InternalArtifactDownloader::download_unpack is split: the construction of the task queue (immutable tasks, then the optional ancillary task, with the two warnings) moves to a new private helper build_download_tasks, and the `run the batch, always remov')
BP('C19', 'rf3-c19-2', 'rf3-c19-2.diff',
   'independent refactoring focused on the code the second-round rules anchor in: InternalArtifactDownloader::batch_download_unpack is rewritten: the duplicated `join_set.spawn(task.build_download_future(self.logger.clone()))` is extracted into a private method spawn_download; the `while let Some(result) = join_next().await { if let')
BP('C19', 'rf3-c19-3', 'rf3-c19-3.diff',
   'independent refactoring focused on the code the second-round rules anchor in: HttpFileDownloader::unpack_file is split per archive shape: the duplicated `Archive::new(decoder).unpack(unpack_dir) with context` of the Gzip and Zstandard arms is extracted into a generic private helper unpack_tar_archive<R: Read>(decompressed_input,')
BP('C19', 'rf3-c19-4', 'rf3-c19-4.diff',
   'independent refactoring focused on the code the second-round rules anchor in: AncillaryFilesManifest::verify_data now delegates the per-entry work to a new private async helper verify_file_hash(file_path, expected_hash) (compute hash, map the failure to HashCompute, compare, build FileHashMismatch); inside it `.map_err(..)?` is ')
BP('C20', 'rf3-c20-1', 'rf3-c20-1.diff',
   'independent refactoring focused on the code the second-round rules anchor in: SignerSignableSeedBuilder: the block `offset current epoch to the next signer retrieval epoch -> fetch the protocol initializer from the store -> fail with "can not get protocol_initializer at epoch N" when absent`, which was copy-pasted in compute_nex')
BP('C20', 'rf3-c20-2', 'rf3-c20-2.diff',
   'independent refactoring focused on the code the second-round rules anchor in: SignerRunner::register_signer_to_aggregator: (a) the reading/decoding of the operational certificate file is extracted into a new private, non-trait helper SignerRunner::read_operational_certificate(&self) -> StdResult<Option<OpCert>> (written with let')
BP('C20', 'rf3-c20-3', 'rf3-c20-3.diff',
   'independent refactoring focused on the code the second-round rules anchor in: StateMachine::cycle_ready_to_sign: the two nested `match`es are flattened. The outer match on has_epoch_changed() now binds the current time point and returns early in the NewEpoch arm; the inner `match beacon_to_sign { Some(..) => .., None => .. }` be')
BP('C20', 'rf3-c20-4', 'rf3-c20-4.diff',
   'independent refactoring focused on the code the second-round rules anchor in: SignerCertifierService::get_beacon_to_sign (the only callee of SignerRunner::get_beacon_to_sign): the `if list.is_empty() { Ok(None) } else { let t = list[0].clone(); Ok(Some(BeaconToSign::new(..))) }` shape is replaced by taking the first element of t')

BP('C04', 'rf3-c04-1', 'rf3-c04-1.diff',
   'independent refactoring focused on the code the second-round rules anchor in: ProtocolMessagePartKey: the key -> canonical name table is extracted from the Display impl into a new private `const fn as_str(&self) -> &`static str`; Display::fmt now just does `f.write_str(self.as_str())`. ProtocolMessage::compute_legacy_digest_byte')
BP('C04', 'rf3-c04-2', 'rf3-c04-2.diff',
   'independent refactoring focused on the code the second-round rules anchor in: CertificateMetadata::compute_hash: the two duplicated `date.timestamp_nanos_opt().unwrap_or_default().to_be_bytes()` expressions are extracted into a new private free function `timestamp_nanos_be_bytes(&DateTime<Utc>) -> [u8; 8]` (written as an explici')
BP('C04', 'rf3-c04-3', 'rf3-c04-3.diff',
   'independent refactoring focused on the code the second-round rules anchor in: TryFrom<Certificate> for CertificateMessage: the inline `match certificate.signature { .. }` that produced the `(multi_signature, genesis_signature)` tuple and, under future_snark, assigned a `let mut genesis_schnorr_signature` as a side effect, is mov')
BP('C04', 'rf3-c04-4', 'rf3-c04-4.diff',
   'independent refactoring focused on the code the second-round rules anchor in: TryFrom<CertificateMessage> for Certificate: (a) parameter renamed certificate_message -> message; (b) the metadata part is destructured with an exhaustive `let CertificateMetadataMessagePart { .. } = message.metadata;` pattern and rebuilt with field-i')
BP('C05', 'rf3-c05-1', 'rf3-c05-1.diff',
   'independent refactoring focused on the code the second-round rules anchor in: MKMapProof deserialization (internal/mithril-merkle-tree/src/merkle_map.rs): the nesting bound of `impl Deserialize for MKMapProof` is reshaped. The constant MAX_NESTED_LEVELS, the thread local counter NESTED_LEVELS and the drop guard (renamed NestedLe')
BP('C05', 'rf3-c05-2', 'rf3-c05-2.diff',
   'independent refactoring focused on the code the second-round rules anchor in: MerkleBatchPath::from_bytes_legacy (mithril-stm/src/membership_commitment/merkle_tree/path.rs): the repeated `slice 8 bytes, big endian u64, convert to usize` step (used for the two length prefixes and for each index) is extracted into a new private fr')
BP('C05', 'rf3-c05-3', 'rf3-c05-3.diff',
   'independent refactoring focused on the code the second-round rules anchor in: blst_error_to_stm_error (mithril-stm/src/signature_scheme/bls_multi_signature/error.rs): the `match e { .. }` with nested `if let Some(..) { return Err(..) }` / if-else blocks and six separate `Err(anyhow!(..))` sites is flattened into a single `match ')
BP('C05', 'rf3-c05-4', 'rf3-c05-4.diff',
   'independent refactoring focused on the code the second-round rules anchor in: BlsSignature::from_bytes (signature.rs) and BlsVerificationKey::from_bytes (verification_key.rs) in mithril-stm/src/signature_scheme/bls_multi_signature/: the length check `bytes.get(..N).ok_or(SerializationError)?` that shadowed `bytes` is rewritten a')
BP('C07', 'rf3-c07-1', 'rf3-c07-1.diff',
   'independent refactoring focused on the code the second-round rules anchor in: KesVerifierStandard::verify: the computation of the tolerance window (announced KES evolutions -1 .. +1, upper bound capped at 63) is extracted into a new private associated function `accepted_kes_evolutions` returning a RangeInclusive<u64> (with the m')
BP('C07', 'rf3-c07-2', 'rf3-c07-2.diff',
   'independent refactoring focused on the code the second-round rules anchor in: KeyRegWrapper::register is split: the whole `if let Some(opcert)` arm (KES-evolutions presence check, KES signature verification of the concatenation key and, under `future_snark`, of the SNARK key, then derivation of the bech32 pool id from the cold k')
BP('C07', 'rf3-c07-3', 'rf3-c07-3.diff',
   'independent refactoring focused on the code the second-round rules anchor in: The private method `KeyRegWrapper::verify_kes_signature(&self, message, kes_sig, opcert, kes_evolutions)` becomes a private free function of the same module, `verify_certified_kes_signature(kes_verifier: &dyn KesVerifier, opcert, kes_evolutions, messag')
BP('C07', 'rf3-c07-4', 'rf3-c07-4.diff',
   'independent refactoring focused on the code the second-round rules anchor in: MithrilSignerRegistrationVerifier::verify (aggregator) is cleaned up: (a) the computation of the KES evolutions (current KES period from the chain observer, defaulting to 0, minus the start KES period of the signer`s operational certificate; None witho')
BP('C10', 'rf3-c10-1', 'rf3-c10-1.diff',
   'independent refactoring focused on the code the second-round rules anchor in: download_and_verify_digests: the inline iterator chain that restricts the served name->digest map to the immutable files certified by the beacon (clone + into_iter + filter(match ImmutableFile::new ...) + collect) is extracted into a new private associ')
BP('C10', 'rf3-c10-2', 'rf3-c10-2.diff',
   'independent refactoring focused on the code the second-round rules anchor in: The certificate binding check `InternalArtifactProver::check_merkle_root_is_signed_by_certificate(certificate, &merkle_root)` (private associated function) becomes a private module-level free function `check_merkle_tree_is_signed_by_certificate(&merkle')
BP('C10', 'rf3-c10-3', 'rf3-c10-3.diff',
   'independent refactoring focused on the code the second-round rules anchor in: verify_cardano_database: the accept/reject decision at the end of the function is reshaped. The let-chain `if let Ok(ref merkle_proof) = proof_result && missing.is_empty() && tampered.is_empty() && non_verifiable.is_empty() { verify; return Ok(merkle_p')
BP('C10', 'rf3-c10-4', 'rf3-c10-4.diff',
   'independent refactoring focused on the code the second-round rules anchor in: InternalArtifactProver::new now builds the `CardanoImmutableDigester::new(None, logger.clone())` once and stores it in a new private field `immutable_digester`, instead of verify_cardano_database constructing a fresh digester from `self.logger.clone()`')
BP('C11', 'rf3-c11-1', 'rf3-c11-1.diff',
   'independent refactoring focused on the code the second-round rules anchor in: mithril-common signable_builder/cardano_stake_distribution.rs: the private tuple struct StakeDistributionEntry(String, u64) becomes a struct with named fields {pool_id, stake: Stake}; the leaf encoding (pool id immediately followed by the decimal stake')
BP('C11', 'rf3-c11-2', 'rf3-c11-2.diff',
   'independent refactoring focused on the code the second-round rules anchor in: mithril-common messages/cardano_transactions_proof.rs: CardanoTransactionsProofsMessage::verify is split in two. The per-part work (convert the message part into a CardanoTransactionsSetProof, verify it, compute its hex Merkle root) is extracted into a')
BP('C11', 'rf3-c11-3', 'rf3-c11-3.diff',
   'independent refactoring focused on the code the second-round rules anchor in: mithril-client src/message.rs: in MessageBuilder::compute_cardano_stake_distribution_message the Merkle-root computation (clone the stake distribution, build the Merkle tree with CardanoStakeDistributionSignableBuilder::compute_merkle_tree_from_stake_d')
BP('C11', 'rf3-c11-4', 'rf3-c11-4.diff',
   'independent refactoring focused on the code the second-round rules anchor in: mithril-common entities/cardano_transactions_set_proof.rs: CardanoTransactionsSetProof::verify (direct callee of CardanoTransactionsProofsMessage::verify) replaces the `for hash in &self.transactions_hashes { self.transactions_proof.contains(&hash.to_o')
BP('C15', 'rf3-c15-1', 'rf3-c15-1.diff',
   'independent refactoring focused on the code the second-round rules anchor in: certifier_service.rs: the two trailing persistence steps of MithrilCertifierService::create_certificate (certificate_repository.create_certificate, then OpenMessageRecord conversion + is_certified=true + open_message_repository.update_open_message) are')
BP('C15', 'rf3-c15-2', 'rf3-c15-2.diff',
   'independent refactoring focused on the code the second-round rules anchor in: certifier_service.rs: the pre-conditions at the head of MithrilCertifierService::create_certificate (open message found / not already certified / not expired) are moved into a new private helper get_certifiable_open_message_record() that returns the Op')
BP('C15', 'rf3-c15-3', 'rf3-c15-3.diff',
   'independent refactoring focused on the code the second-round rules anchor in: state_machine.rs: AggregatorRuntime::transition_from_signing_to_ready_multisignature is rewritten with explicit early returns: `create_certificate(..).await?.ok_or_else(|| KeepState{..})?` becomes `let Some(certificate) = .. .await? else { return Err(R')
BP('C15', 'rf3-c15-4', 'rf3-c15-4.diff',
   'independent refactoring focused on the code the second-round rules anchor in: Epoch-initialisation path. state_machine.rs: the conditional runner.precompute_epoch_data() step is moved from run_common_idle_transition_tasks (caller) to the end of execute_epoch_initialization_tasks (callee), which now receives last_genesis_certific')
BP('C17', 'rf3-c17-1', 'rf3-c17-1.diff',
   'independent refactoring focused on the code the second-round rules anchor in: SignedEntityConfig::time_point_to_signed_entity: the two arms that need a signing configuration (CardanoTransactions, CardanoBlocksTransactions) are extracted into two new private methods (time_point_to_cardano_transactions / time_point_to_cardano_bloc')
BP('C17', 'rf3-c17-2', 'rf3-c17-2.diff',
   'independent refactoring focused on the code the second-round rules anchor in: CardanoTransactionsSigningConfig::compute_block_number_to_be_signed: the adjustment of the step (round down to the start of its block range, floor at BlockRange::LENGTH) is extracted into a new private method `block_range_aligned_step`; inside it `std:')
BP('C17', 'rf3-c17-3', 'rf3-c17-3.diff',
   'independent refactoring focused on the code the second-round rules anchor in: Shared private formula of signed_entity_config.rs: the free function `compute_block_number_to_be_signed(block_number, security_parameter, step)` is renamed `highest_step_multiple_behind_security_margin(tip_block_number, step, security_parameter)` (para')
BP('C17', 'rf3-c17-4', 'rf3-c17-4.diff',
   'independent refactoring focused on the code the second-round rules anchor in: The shared private free function `compute_block_number_to_be_signed(block_number, security_parameter, step)` is inlined into its two only callers and deleted. CardanoBlocksTransactionsSigningConfig::compute_block_number_to_be_signed now computes `non_z')

BP('C02', 'rf4-c02-1', 'rf4-c02-1.diff',
   'independent refactoring, second focused round (other functions of the property): ConcatenationClerk::select_valid_signatures_for_k_indices: the first phase (verify each single signature, skip the invalid ones, merge the copies of one signature into a single entry carrying the sorted union of their verified indices) is extracted ')
BP('C02', 'rf4-c02-2', 'rf4-c02-2.diff',
   'independent refactoring, second focused round (other functions of the property): ConcatenationClerk::select_valid_signatures_for_k_indices, phases 2 and 3. Phase 2 (per-index winner selection with per-signature removal lists): the mutable flag `insert_this_sig` and the nested `if let Some(..) .. else ..` are replaced by a let-el')
BP('C02', 'rf4-c02-3', 'rf4-c02-3.diff',
   'independent refactoring, second focused round (other functions of the property): ConcatenationProof::aggregate_signatures: the construction of the (signature, registered party) list is extracted into the new private associated function `pair_signatures_with_registered_parties`, written as a for loop with `?` instead of `iter().m')
BP('C02', 'rf4-c02-4', 'rf4-c02-4.diff',
   'independent refactoring, second focused round (other functions of the property): mithril-aggregator MultiSignerImpl::create_multi_signature: the nested `match result { Ok => .., Err(err) => match err.downcast_ref() {..} }` is flattened: the aggregation result goes into an intermediate variable, the Ok case returns early, the rec')
BP('C04', 'rf4-c04-1', 'rf4-c04-1.diff',
   'independent refactoring, second focused round (other functions of the property): Certificate::try_compute_hash: the signature part (signed entity type + signature payload) is extracted into a new private method CertificateSignature::feed_certificate_hash (the `if let MultiSignature` becomes an exhaustive match), and the ancillar')
BP('C04', 'rf4-c04-2', 'rf4-c04-2.diff',
   'independent refactoring, second focused round (other functions of the property): SignedEntityType::feed_hash: the separate leading `if matches!(self, Self::CardanoBlocksTransactions(..)) { hasher.update(index) }` guard is moved into the CardanoBlocksTransactions arm of the following match (as its first statement), so the functio')
BP('C04', 'rf4-c04-3', 'rf4-c04-3.diff',
   'independent refactoring, second focused round (other functions of the property): ProtocolParameters::compute_hash: instead of three incremental Sha256::update calls on a mutable hasher, the hashed bytes are assembled by a new private helper hash_preimage() (big-endian k, big-endian m, big-endian U8F24 phi_f_fixed, concatenated i')
BP('C04', 'rf4-c04-4', 'rf4-c04-4.diff',
   'independent refactoring, second focused round (other functions of the property): ProtocolKey codecs (crypto_helper/types/protocol_key.rs): (a) the fallback decoding `match first(encoded) { Ok(res) => Ok(res), Err(_) => second(encoded) }` is rewritten as `first(encoded).or_else(|_| second(encoded))` in both the default json-hex P')
BP('C05', 'rf4-c05-1', 'rf4-c05-1.diff',
   'independent refactoring, second focused round (other functions of the property): ConcatenationProof::from_bytes_legacy (mithril-stm/src/proof_system/concatenation/proof.rs) is split in three: the big-endian u64 length-prefix read that was written out twice (once for the signature count, once per entry) is extracted into a privat')
BP('C05', 'rf4-c05-2', 'rf4-c05-2.diff',
   'independent refactoring, second focused round (other functions of the property): AggregateSignature decoding (mithril-stm/src/protocol/aggregate_signature/signature.rs): the identical `match proof_type { Concatenation | Snark | IvcSnark => ...::from_bytes(..) }` dispatch that was duplicated in from_bytes_cbor and from_bytes_lega')
BP('C05', 'rf4-c05-3', 'rf4-c05-3.diff',
   'independent refactoring, second focused round (other functions of the property): JSON-hex / bytes-hex key decoding helpers in mithril-common/src/crypto_helper/codec: key_decode_hex (json_hex.rs) is split into two private helpers, decode_hex_payload (trim + hexadecimal -> bytes) and deserialize_key_from_json_bytes::<T> (serde_jso')
BP('C05', 'rf4-c05-4', 'rf4-c05-4.diff',
   'independent refactoring, second focused round (other functions of the property): ProtocolKey decoding (mithril-common/src/crypto_helper/types/protocol_key.rs): the two `try one text encoding, fall back to the other` decoders that were written inline - JSON-hex then bytes-hex in the default ProtocolKeyCodec::decode_key, bytes-hex')
BP('C07', 'rf4-c07-1', 'rf4-c07-1.diff',
   'independent refactoring, second focused round (other functions of the property): KeyRegistration::register_by_entry (duplicate-key rejection) split into two private helpers: has_registered_key_of(&self, &RegistrationEntry) -> bool holding the `is one of the entry`s verification keys already recorded` predicate (written with earl')
BP('C07', 'rf4-c07-2', 'rf4-c07-2.diff',
   'independent refactoring, second focused round (other functions of the property): KeyRegistration::close_registration split in two: the total-stake computation (overflow check + zero-total check) moves to a new private helper compute_total_stake(&self) -> StmResult<Stake>, with the try_fold/ok_or iterator chain rewritten as a for')
BP('C07', 'rf4-c07-3', 'rf4-c07-3.diff',
   'independent refactoring, second focused round (other functions of the property): BlsVerificationKeyProofOfPossession::verify_proof_of_possession flattened: the outer `match vk.validate() { Ok(_) => {..}, Err(e) => blst_error_to_stm_error(..) }` becomes an `if let Err(e) = ... { return blst_error_to_stm_error(e, None, Some(self.v')
BP('C07', 'rf4-c07-4', 'rf4-c07-4.diff',
   'independent refactoring, second focused round (other functions of the property): OpCert clean-up in opcert.rs. (a) OpCert::validate: the `if cold_vk.verify(..).is_ok() { return Ok(()) } Err(OpCertInvalid)` shape becomes a destructuring of opcert_without_vk into locals, an intermediate `signed_message` variable, and a single `col')
BP('C10', 'rf4-c10-1', 'rf4-c10-1.diff',
   'independent refactoring, second focused round (other functions of the property): VerifiedDigests::list_immutable_files_not_verified: the per-name comparison loop is rewritten from a `match` with a guard arm (`Some(d) if d != digest` / `None` / `_`) into a `let ... else { ...; continue }` lookup followed by an explicit boolean `i')
BP('C10', 'rf4-c10-2', 'rf4-c10-2.diff',
   'independent refactoring, second focused round (other functions of the property): InternalArtifactProver::list_missing_immutable_files: the two nested `for` loops that push into a mutable Vec are rewritten as an iterator chain (`range.clone().flat_map(trio names).filter(!exists).collect()`); the construction of the three file nam')
BP('C10', 'rf4-c10-3', 'rf4-c10-3.diff',
   'independent refactoring, second focused round (other functions of the property): InternalArtifactProver::read_digest_file: the two sequential length checks (`len() > 1` then `is_empty()`) followed by indexing `&digest_files[0]` are replaced by a single slice-pattern `match digest_files.as_slice()` ([one] => use it, [] => `No dig')
BP('C10', 'rf4-c10-4', 'rf4-c10-4.diff',
   'independent refactoring, second focused round (other functions of the property): CardanoImmutableDigester (cardano_immutable_digester.rs): (a) the private free function list_immutable_files_to_process_for_range is inlined into its only caller compute_digests_for_range, the `into_iter().filter().collect()` becoming an in-place `V')
BP('C14', 'rf4-c14-1', 'rf4-c14-1.diff',
   'independent refactoring, second focused round (other functions of the property): MithrilCertifierService::create_certificate split into private helpers: the `already certified / expired` refusal moves to ensure_open_message_can_be_certified (returns Result<(), CertifierServiceError>, caller uses `?`), the certificate assembly (s')
BP('C14', 'rf4-c14-2', 'rf4-c14-2.diff',
   'independent refactoring, second focused round (other functions of the property): BufferedCertifierService clean-up: the nested `match result { Err(e) => match e.downcast_ref() {..} }` blocks of register_single_signature and try_register_buffered_signatures_to_current_open_message are flattened into early returns / let-else + `co')
BP('C14', 'rf4-c14-3', 'rf4-c14-3.diff',
   'independent refactoring, second focused round (other functions of the property): CertificateRepository: the repeated `record.map(|c| c.try_into().map_err(Into::into)).transpose()` tail of get_certificate, get_latest_genesis_certificate and get_master_certificate_for_epoch is extracted into the private generic free function conve')
BP('C14', 'rf4-c14-4', 'rf4-c14-4.diff',
   'independent refactoring, second focused round (other functions of the property): MultiSignerImpl::create_multi_signature: the nested `match aggregate(..) { Ok => .., Err(err) => match err.downcast_ref() {..} }` is flattened: the aggregation result is bound to a local, success returns early, the `quorum not reached` classificatio')
BP('C15', 'rf4-c15-1', 'rf4-c15-1.diff',
   'independent refactoring, second focused round (other functions of the property): services/signed_entity.rs, MithrilSignedEntityService::create_artifact: the lock handling around the spawned artifact task is split out of the trait method into two new private helpers. `lock_signed_entity_type_if_free(&self, &SignedEntityType) -> S')
BP('C15', 'rf4-c15-2', 'rf4-c15-2.diff',
   'independent refactoring, second focused round (other functions of the property): runtime/runner.rs, AggregatorRunner::create_certificate and ::create_artifact. create_certificate: result local renamed to `created_certificate`; `if certificate.is_some() { metric.increment() } Ok(certificate)` rewritten as a `match` (Some(certific')
BP('C15', 'rf4-c15-3', 'rf4-c15-3.diff',
   'independent refactoring, second focused round (other functions of the property): runtime/runner.rs, the open-message helpers of AggregatorRunner. get_current_open_message_for_signed_entity_type: `Ok(expr.with_context(..)?)` simplified to returning `expr.with_context(..)`. get_current_non_certified_open_message: the `match curren')
BP('C15', 'rf4-c15-4', 'rf4-c15-4.diff',
   'independent refactoring, second focused round (other functions of the property): database/repository/open_message_repository.rs. create_open_message, create_or_replace_open_message and update_open_message (the latter is the `open-message update` persistence step of certificate sealing and of expiration marking): the query is now')
BP('C17', 'rf4-c17-1', 'rf4-c17-1.diff',
   'independent refactoring, second focused round (other functions of the property): mithril-common/src/entities/signed_entity_type.rs (discriminants handling): SignedEntityType::index() now delegates to SignedEntityTypeDiscriminants::from(self).index() instead of duplicating the variant->id table; SignedEntityTypeDiscriminants::fro')
BP('C17', 'rf4-c17-2', 'rf4-c17-2.diff',
   'independent refactoring, second focused round (other functions of the property): mithril-signer/src/services/certifier.rs (signer-side caller of SignedEntityConfig::list_allowed_signed_entity_types): extracted the `fetch current SignedEntityConfig from the provider and derive the allowed signed entity types for the time point` s')
BP('C17', 'rf4-c17-3', 'rf4-c17-3.diff',
   'independent refactoring, second focused round (other functions of the property): mithril-aggregator/src/runtime/runner.rs (aggregator-side callers of SignedEntityConfig::list_allowed_signed_entity_types and time_point_to_signed_entity): the long chained expression `epoch_service.read().await.signed_entity_config()?.<call>(..)?` ')
BP('C17', 'rf4-c17-4', 'rf4-c17-4.diff',
   'independent refactoring, second focused round (other functions of the property): mithril-aggregator/src/services/epoch_service.rs (producer of the SignedEntityConfig that the runner feeds to list_allowed_signed_entity_types / time_point_to_signed_entity): the inline construction of the epoch`s SignedEntityConfig in MithrilEpochS')

BP('C04', 'rf5-c04-1', 'rf5-c04-1.diff',
   'independent refactoring, last held-out round (aimed at the rules corrected in the round before; silent as delivered): CertificateMetadata::compute_hash now only creates the hasher, delegates to a new private CertificateMetadata::feed_hash(&self, &mut Sha256) and finalizes. The duplicated `timestamp_nanos_opt().unwrap_or_default(')
BP('C04', 'rf5-c04-2', 'rf5-c04-2.diff',
   'independent refactoring, last held-out round (aimed at the rules corrected in the round before; silent as delivered): Certificate::try_compute_hash is split into three private helpers taking the hasher by &mut: feed_chaining_and_content (previous_hash, epoch, metadata hash, protocol message hash, signed message, AVK json-hex; th')
BP('C04', 'rf5-c04-3', 'rf5-c04-3.diff',
   'independent refactoring, last held-out round (aimed at the rules corrected in the round before; silent as delivered): SignedEntityType::feed_hash no longer pushes each component to the hasher incrementally: a new private SignedEntityType::hash_bytes() -> Vec<u8> builds the complete preimage (optional 2 byte index prefix for Card')
BP('C04', 'rf5-c04-4', 'rf5-c04-4.diff',
   'independent refactoring, last held-out round (aimed at the rules corrected in the round before; silent as delivered): ProtocolParameters::compute_hash switches from incremental hashing to one-shot hashing: a new private hash_preimage() -> Vec<u8> concatenates k BE bytes, m BE bytes and the U8F24 fixed point phi_f BE bytes, and c')
BP('C14', 'rf5-c14-1', 'rf5-c14-1.diff',
   'independent refactoring, last held-out round (aimed at the rules corrected in the round before; silent as delivered): In MithrilCertifierService::create_certificate, the selection of the signers recorded in the certificate metadata (signers of the current epoch whose party id appears among the single signatures of the open messa')
BP('C14', 'rf5-c14-2', 'rf5-c14-2.diff',
   'independent refactoring, last held-out round (aimed at the rules corrected in the round before; silent as delivered): OpenMessage::get_signers_id rewritten from an iter().map(to_owned).collect() chain to an explicit for loop pushing party_id.clone() into a Vec pre-sized with with_capacity.')
BP('C14', 'rf5-c14-3', 'rf5-c14-3.diff',
   'independent refactoring, last held-out round (aimed at the rules corrected in the round before; silent as delivered): StakeDistributionParty::from_signers (mithril-common) rewritten from signers.into_iter().map(|s| s.into()).collect() to a for loop that builds each StakeDistributionParty with a struct literal (the From<SignerWit')
BP('C14', 'rf5-c14-4', 'rf5-c14-4.diff',
   'independent refactoring, last held-out round (aimed at the rules corrected in the round before; silent as delivered): In MithrilCertifierService::create_certificate, construction of the CertificateMetadata (protocol version, initiated_at from the open message, sealed_at = now, current protocol parameters, signer parties) is extr')
BP('C15', 'rf5-c15-1', 'rf5-c15-1.diff',
   'independent refactoring, last held-out round (aimed at the rules corrected in the round before; silent as delivered): MithrilSignedEntityService::create_artifact: the body of the spawned supervising task (spawn inner create_artifact_task, await it, release the SignedEntityTypeLock, map JoinError/context, log error) is extracted ')
BP('C15', 'rf5-c15-2', 'rf5-c15-2.diff',
   'independent refactoring, last held-out round (aimed at the rules corrected in the round before; silent as delivered): MithrilSignedEntityService::create_artifact: the `is_locked -> error, else lock` acquisition sequence is extracted into a new private method `acquire_signed_entity_type_lock(&self, &SignedEntityType) -> StdResult')
BP('C15', 'rf5-c15-3', 'rf5-c15-3.diff',
   'independent refactoring, last held-out round (aimed at the rules corrected in the round before; silent as delivered): SignedEntityTypeLock (internal/signed-entity/mithril-signed-entity-lock): `lock` and `release` now delegate to one new private helper `set_locked(entity_type, locked: bool)` that takes the write guard, converts t')
BP('C15', 'rf5-c15-4', 'rf5-c15-4.diff',
   'independent refactoring, last held-out round (aimed at the rules corrected in the round before; silent as delivered): MithrilSignedEntityService::create_artifact_task is split: the retry loop moves to a new private `compute_artifact_with_retry(&SignedEntityType, &Certificate)` (count-down `remaining_retries` with `break`-value +')


# ---- the independent refactorings of one property applied TOGETHER (interactions between rewritten helpers)
def _combos():
    by = {}
    for b in list(BENIGN):
        if 'patch' in b and b['id'].startswith(('rf-', 'rf3-', 'rf4-', 'rf5-')):
            by.setdefault(b['prop'], []).append(b['patch'])
    for prop, ps in sorted(by.items()):
        if len(ps) >= 2:
            BENIGN.append({'prop': prop, 'id': 'rf-%s-all' % prop.lower(), 'patches': sorted(ps),
                           'why': 'all independent refactorings of this property that apply together'})


_combos()
