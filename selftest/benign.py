"""Behaviour-preserving edits: the checks must stay silent on each (false-alarm guard)."""
BENIGN = []


def B(prop, id, file, old, new, why=''):
    BENIGN.append({'prop': prop, 'id': id, 'file': file, 'old': old, 'new': new, 'why': why})


POOLF = 'internal/mithril-resource-pool/src/resource_pool.rs'
B('C18', 'extra-early-fullness-test', POOLF,
  """        resource.reset()?;
        let mut resources = self""", """        resource.reset()?;
        if self.count()? >= self.size {
            return Ok(());
        }
        let mut resources = self""", 'an extra early-out outside the region; the in-region test remains')

DTK = 'mithril-client/src/cardano_database_client/download_unpack/download_task.rs'
B('C19', 'verification-failure-swallowed-nothing-moved', DTK,
  """        let validated_manifest = ancillary_verifier.verify(ancillary_files_temp_dir).await?;
        validated_manifest.move_to_final_location(target_dir).await""",
  """        let validated_manifest = ancillary_verifier.verify(ancillary_files_temp_dir).await;
        match validated_manifest {
            Ok(manifest) => manifest.move_to_final_location(target_dir).await,
            Err(e) => {
                slog::warn!(logger, "ancillary verification failed"; "error" => ?e);
                Ok(())
            }
        }""", 'a failed verification is turned into Ok(()) but nothing is moved and the temp dir is removed: the restored directory still holds only verified files')
