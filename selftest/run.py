#!/usr/bin/env python3
"""Checker self-test: apply each semantic mutation (one at a time) to a tree, run the property's
check and require that it reports a violation naming the expected instance.

  selftest/run.py [--in-place] [--prop Cxx] [--id name]

--in-place mutates /repo itself and restores the file afterwards (development loop only; never
used by a registered command).  Without it a scratch copy outside /repo and /verif is used.
"""
import json
import os
import shutil
import subprocess
import sys
import tempfile
import time

HERE = os.path.dirname(os.path.abspath(__file__))
VERIF = os.path.dirname(HERE)
sys.path.insert(0, HERE)
from mutations import MUTATIONS  # noqa: E402
from benign import BENIGN  # noqa: E402


def run_check(prop, repo):
    env = dict(os.environ, MVS_REPO=repo, MVS_NO_EVIDENCE='1')
    r = subprocess.run([os.path.join(VERIF, 'check'), prop, 'quick'], cwd=VERIF, env=env,
                       stdout=subprocess.PIPE, stderr=subprocess.STDOUT, text=True)
    return r.returncode, r.stdout


def main():
    args = sys.argv[1:]
    in_place = '--in-place' in args
    prop = args[args.index('--prop') + 1] if '--prop' in args else None
    mid = args[args.index('--id') + 1] if '--id' in args else None
    muts = [dict(m, benign=False) for m in MUTATIONS if (prop is None or m['prop'] == prop) and (mid is None or m['id'] == mid)]
    muts += [dict(m, benign=True) for m in BENIGN if (prop is None or m['prop'] == prop) and (mid is None or m['id'] == mid)]
    if '--only-benign' in args:
        muts = [m for m in muts if m['benign']]
    repo = '/repo'
    scratch = None
    if not in_place:
        scratch = tempfile.mkdtemp(prefix='mvs-selftest-')
        subprocess.check_call(['rsync', '-a', '--exclude', 'target', '--exclude', '.git', '--exclude', 'docs',
                               '--exclude', 'mithril-explorer', '/repo/', scratch + '/'])
        repo = scratch
    results = []
    try:
        for m in muts:
            if 'patch' in m or 'patches' in m:
                print('SKIP        %s %-28s (patch-based: exercised by `./check %s thorough`)' % (m['prop'], m['id'], m['prop']))
                continue
            path = os.path.join(repo, m['file'])
            src = open(path).read()
            if src.count(m['old']) != 1:
                results.append((m, 'STALE', 'pattern occurs %d times' % src.count(m['old'])))
                print('SELFTEST-STALE %s %s' % (m['prop'], m['id']))
                continue
            open(path, 'w').write(src.replace(m['old'], m['new']))
            t0 = time.time()
            try:
                rc, out = run_check(m['prop'], repo)
            finally:
                open(path, 'w').write(src)
            fired = rc == 1 and 'VIOLATION property=%s' % m['prop'] in out
            named = all(x in out for x in m.get('expect', []))
            if m['benign']:
                status = 'SILENT' if rc == 0 else ('FALSE-ALARM' if fired else 'BUILD')
            else:
                status = 'FIRED' if fired and named else ('FIRED-OTHER' if fired else ('BUILD' if rc == 2 else 'MISSED'))
            results.append((m, status, ''))
            print('%-11s %s %-28s %.0fs %s' % (status, m['prop'], m['id'], time.time() - t0, m.get('why', '')))
            if status not in ('FIRED', 'SILENT'):
                tail = [l for l in out.splitlines() if 'FAIL' in l or 'key=' in l or 'ANALYSIS' in l or 'error' in l][:12]
                print('    ' + '\n    '.join(tail))
    finally:
        if scratch:
            shutil.rmtree(scratch, ignore_errors=True)
    bad = [r for r in results if r[1] not in ('FIRED', 'SILENT')]
    print('selftest: %d mutations, %d fired as expected, %d not' % (len(results), len(results) - len(bad), len(bad)))
    return 1 if bad else 0


if __name__ == '__main__':
    sys.exit(main())
