"""Rule kinds over the fact base (see DESIGN.md section 1.2).

R1 MPT   guarded must-pass-through           must_pass()
R2 ORDER effect ordering                      order_before(), always_followed_by()
R3 WHO   who may call / construct / write     who_calls(), who_constructs()
R4 COVER field coverage                       field_cover()
R5 PROV  provenance (backward slice)          origins()
R6 GUARD comparison guards                    find_guards()
"""
import re
from collections import defaultdict, deque

from core import AnchorMissing, glob_match, match_any, operand_place, rvalue_reads

# ---------------------------------------------------------------- type classes

def strip_refs(t):
    while t.startswith('&'):
        t = t[1:]
        if t.startswith("'"):
            # &'a T
            t = t.split(' ', 1)[1] if ' ' in t else t
        if t.startswith('mut '):
            t = t[4:]
    return t


def ty_class(t):
    t = strip_refs(t)
    if t == 'bool':
        return 'bool'
    head = t.split('<', 1)[0]
    if not head.startswith('std::'):
        return 'other'
    last = head.rsplit('::', 1)[-1]
    return {'Result': 'result', 'Option': 'option', 'ControlFlow': 'cf', 'Poll': 'poll'}.get(last, 'other')


NATURAL_SUCCESS = {'result': 0, 'option': 1, 'cf': 0, 'bool': 1}

# Adapters: callee (written or resolved name, glob) -> polarity (+1 keeps, -1 flips).
# The tracked value is argument 0; the adapter's result succeeds only if (pol=+1) / only if not
# (pol=-1) the tracked value did.  Frozen list; every entry is std / anyhow / futures.
ADAPTERS = [
    ('<* as std::ops::try_trait::Try>::branch', +1),
    ('std::ops::try_trait::Try::branch', +1),
    ('<* as std::future::into_future::IntoFuture>::into_future', +1),
    ('std::future::into_future::IntoFuture::into_future', +1),
    ('std::pin::Pin::new_unchecked', +1),
    ('std::pin::Pin::new', +1),
    ('std::pin::Pin::as_mut', +1),
    ('std::boxed::Box::pin', +1),
    ('<* as std::future::future::Future>::poll', +1),
    ('<* as futures::Future>::poll', +1),
    ('std::future::future::Future::poll', +1),
    ('std::result::Result::map_err', +1),
    ('std::result::Result::map', +1),
    ('std::result::Result::inspect_err', +1),
    ('std::result::Result::inspect', +1),
    ('std::result::Result::and_then', +1),
    ('std::result::Result::ok', +1),
    ('std::result::Result::is_ok', +1),
    ('std::result::Result::is_err', -1),
    ('std::result::Result::as_ref', +1),
    ('std::result::Result::as_deref', +1),
    ('<std::result::Result as anyhow::Context>::with_context', +1),
    ('<std::result::Result as anyhow::Context>::context', +1),
    ('<std::option::Option as anyhow::Context>::with_context', +1),
    ('<std::option::Option as anyhow::Context>::context', +1),
    ('anyhow::Context::with_context', +1),
    ('anyhow::Context::context', +1),
    ('std::option::Option::ok_or', +1),
    ('std::option::Option::ok_or_else', +1),
    ('std::option::Option::map', +1),
    ('std::option::Option::and_then', +1),
    ('std::option::Option::as_ref', +1),
    ('std::option::Option::as_deref', +1),
    ('std::option::Option::cloned', +1),
    ('std::option::Option::copied', +1),
    ('std::option::Option::is_some', +1),
    ('std::option::Option::is_none', -1),
    ('std::option::Option::transpose', +1),
    ('std::result::Result::transpose', +1),
    ('<bool as std::ops::bit::Not>::not', -1),
    ('std::ops::bit::Not::not', -1),
    ('bool::then_some', +1),
    ('<* as std::clone::Clone>::clone', +1),
    ('std::iter::traits::iterator::Iterator::collect', +1),
    ('<* as std::iter::traits::iterator::Iterator>::collect', +1),
]


# Calls that run a closure for every item and succeed only if every invocation did (their result
# is then tracked like any other check result).  Only usable for per-item sinks.
CLOSURE_PER_ITEM = [
    'std::iter::traits::iterator::Iterator::try_for_each',
    '<* as std::iter::traits::iterator::Iterator>::try_for_each',
    'std::iter::traits::iterator::Iterator::all',
    '<* as std::iter::traits::iterator::Iterator>::all',
    'std::iter::traits::iterator::Iterator::map',
    '<* as std::iter::traits::iterator::Iterator>::map',
]


def closure_args(body, call):
    """Names of closures passed (by value) to a call."""
    out = []
    for a in call.args:
        if a[0] in ('copy', 'move') and not a[1][1]:
            for (bi, si, pl, rv) in body.defs(a[1][0]):
                if si != 't' and rv[0] == 'agg' and rv[1] in ('closure', 'coroutine'):
                    out.append(rv[2])
    return out


def adapter_polarity(call):
    for n in call.names():
        for pat, pol in ADAPTERS:
            if glob_match(pat, n):
                return pol
    return None


class Track:
    """Where the result of a call is tested: success / failure edges of the CFG."""

    def __init__(self):
        self.success_edges = set()
        self.fail_edges = set()
        self.returned = False       # the value itself (through adapters) becomes the fn's result
        self.escapes = []           # uses the tracker does not understand
        self.switches = []

    def discharged(self):
        return bool(self.success_edges) or self.returned


def switch_edges(bi, t, cls, pol):
    """success / fail edges of switch terminator t at block bi on a value of class cls."""
    nat = NATURAL_SUCCESS[cls]
    succ_val = nat if pol > 0 else 1 - nat
    listed = [v for v, _ in t[2]]
    succ, fail = set(), set()
    for v, b in t[2]:
        (succ if v == succ_val else fail).add((bi, b))
    if succ_val not in listed:
        succ.add((bi, t[3]))
    else:
        fail.add((bi, t[3]))
    if {b for _, b in succ} & {b for _, b in fail}:
        return set(), set()
    return succ, fail


def track_result(body, start_local, pol=+1, start_cls=None):
    """Follow the value in `start_local` (result of a check) through adapters to the branch
    that tests it.  pol=+1: the natural success of the value (Ok/Some/true) is required."""
    tr = Track()
    seen = set()
    carriers = body.ret_carriers()
    work = deque([(start_local, pol, start_cls)])
    while work:
        l, p, forced = work.popleft()
        if (l, p) in seen:
            continue
        seen.add((l, p))
        cls = forced or ty_class(body.lty(l))
        if l in carriers:
            tr.returned = True
            continue
        for (bi, si, how, payload) in body.uses(l):
            if how == 'stmt':
                pl, rv, rplace = payload
                proj = rplace[1]
                k = rv[0]
                downcast = [e for e in proj if isinstance(e, tuple) and e[0] == 'd']
                fields = [e for e in proj if isinstance(e, tuple) and e[0] == 'f']
                if downcast:
                    # payload extraction
                    if cls == 'poll' and downcast[0][2] == 'Ready' and k in ('use', 'ref', 'cfd'):
                        if not pl[1]:
                            work.append((pl[0], p, None))
                        else:
                            tr.escapes.append(('stored', bi, body.lname(pl[0])))
                    # payload of Result/Option/ControlFlow: consumption after the guard
                    continue
                if fields and not (cls == 'other'):
                    # a field of the checked value (e.g. tuple result) - not a test
                    continue
                if k in ('use', 'cfd', 'ref', 'ptr'):
                    if pl[0] in carriers and not pl[1]:
                        tr.returned = True
                    elif not pl[1]:
                        work.append((pl[0], p, forced if k != 'use' else forced))
                    else:
                        tr.escapes.append(('stored', bi, body.lname(pl[0])))
                elif k == 'cast':
                    if not pl[1]:
                        work.append((pl[0], p, forced))
                elif k == 'discr':
                    if cls in NATURAL_SUCCESS:
                        d = pl[0]
                        for (b2, s2, how2, pay2) in body.uses(d):
                            if how2 == 'sw':
                                t = pay2[0]
                                su, fa = switch_edges(b2, t, cls, p)
                                tr.success_edges |= su
                                tr.fail_edges |= fa
                                tr.switches.append(b2)
                    elif cls == 'poll':
                        pass  # Ready/Pending dispatch: not a guard
                    else:
                        tr.escapes.append(('discr-of-unknown', bi, body.lty(l)))
                elif k == 'un' and rv[1] == 'Not':
                    if not pl[1]:
                        work.append((pl[0], -p, 'bool'))
                elif k == 'agg':
                    if rv[1] == 'adt' and rv[2] == 'std::result::Result' and rv[3] == 0 and False:
                        pass
                    tr.escapes.append(('aggregate', bi, '%s %s' % (rv[1], rv[2])))
                elif k == 'bin':
                    tr.escapes.append(('binop', bi, rv[1]))
            elif how == 'arg':
                c, ai, place = payload
                apol = adapter_polarity(c)
                if apol is not None and ai == 0:
                    if c.dest[0] in carriers and not c.dest[1]:
                        tr.returned = True
                    elif not c.dest[1]:
                        work.append((c.dest[0], p * apol, None))
                    else:
                        tr.escapes.append(('stored', bi, body.lname(c.dest[0])))
                else:
                    names = c.names()
                    if any(n.startswith('std::mem::drop') for n in names):
                        continue
                    tr.escapes.append(('call-arg', bi, c.best()))
            elif how == 'sw':
                t, place = payload
                if cls == 'bool' and not place[1]:
                    su, fa = switch_edges(bi, t, 'bool', p)
                    tr.success_edges |= su
                    tr.fail_edges |= fa
                    tr.switches.append(bi)
            # drop / assert / yield / index: ignored
    return tr


# ---------------------------------------------------------------- success / failure returns

# functions that turn an error *value* into the crate's error type: called on the payload of an
# `Err(e)` arm they return an error (frozen; one line of reason each)
ERROR_CONVERTERS = [
    'mithril_stm::*::blst_error_to_stm_error',   # Ok only for BLST_SUCCESS, which blst never wraps in Err
]


def _from_err_payload(body, c):
    if not c.args or c.args[0][0] not in ('copy', 'move'):
        return False
    seen = set()
    work = [c.args[0][1][0]]
    while work:
        l = work.pop()
        if l in seen:
            continue
        seen.add(l)
        for (bi, si, pl, rv) in body.defs(l):
            if si == 't':
                continue
            if rv[0] == 'use' and rv[1][0] in ('copy', 'move'):
                pr = rv[1][1][1]
                if any(isinstance(e, tuple) and e[0] == 'd' and e[2] == 'Err' for e in pr):
                    return True
                if not pr:
                    work.append(rv[1][1][0])
    return False


def return_assigns(body, success='ok'):
    """Classify every assignment to the return place.  Returns (success_points, failure_blocks);
    a success point is a dict {bb, kind: stmt|edge|ret, rv, to}.
    success kinds: 'ok' (Result/anyhow), 'some', 'true', 'false', 'any'."""
    succ, fail = [], set()
    carriers = body.ret_carriers()
    for bi, b in enumerate(body.blocks):
        if b.cleanup:
            continue
        for (line, pl, rv) in b.stmts:
            if pl[0] not in carriers or pl[1]:
                continue
            if rv[0] == 'use' and rv[1][0] in ('copy', 'move') and not rv[1][1][1] and rv[1][1][0] in carriers:
                continue    # carrier-to-carrier move: classified at the carrier's own definition
            is_fail = False
            if success == 'ok':
                if rv[0] == 'agg' and rv[2] == 'std::result::Result' and rv[3] == 1:
                    is_fail = True
            elif success == 'some':
                if rv[0] == 'agg' and rv[2] == 'std::option::Option' and rv[3] == 0:
                    is_fail = True
            elif success in ('true', 'false'):
                if rv[0] == 'use' and rv[1][0] == 'const' and rv[1][3] is not None:
                    is_fail = (rv[1][3] == 0) if success == 'true' else (rv[1][3] != 0)
            if is_fail:
                fail.add(bi)
            else:
                succ.append({'bb': bi, 'kind': 'stmt', 'rv': rv, 'line': line})
        t = b.term
        if t[0] == 'call' and t[1].dest[0] in carriers and not t[1].dest[1]:
            c = t[1]
            if any(glob_match('<* as std::ops::try_trait::FromResidual>::from_residual', n) or
                   n == 'std::ops::try_trait::FromResidual::from_residual' for n in c.names()):
                fail.add(bi)
            elif any(match_any(ERROR_CONVERTERS, n) for n in c.names()) and _from_err_payload(body, c):
                fail.add(bi)    # `Err(e) => convert(e)`: returns an error
            else:
                # tail call: its success is the fn's success; the assignment happens on the
                # edge to the target block
                if c.target is not None:
                    succ.append({'bb': bi, 'kind': 'edge', 'to': c.target, 'call': c, 'line': c.line})
        if success == 'any' and t[0] == 'ret':
            succ.append({'bb': bi, 'kind': 'ret'})
    return succ, fail


def ok_payload(body, sp):
    """For a success point that (through plain moves) is `Ok(x)`: the operand x, else None."""
    if sp['kind'] != 'stmt':
        return None
    rv = sp['rv']
    for _ in range(4):
        if rv[0] == 'agg' and rv[2] == 'std::result::Result' and rv[3] == 0 and rv[5]:
            return rv[5][0]
        if rv[0] == 'use' and rv[1][0] in ('copy', 'move') and not rv[1][1][1]:
            ds = [d for d in body.defs(rv[1][1][0]) if d[1] != 't']
            if len(ds) != 1:
                return None
            rv = ds[0][3]
            continue
        return None
    return None


def ok_payload_variant(body, sp):
    """For a success point `_0 = Ok(move _x)` (possibly through a temporary): the Option variant
    `_x` was built with ('Some' / 'None'), else None."""
    o = ok_payload(body, sp)
    if o is None or o[0] not in ('copy', 'move') or o[1][1]:
        return None
    for (bi, si, pl, drv) in body.defs(o[1][0]):
        if si != 't' and drv[0] == 'agg' and drv[2] == 'std::option::Option':
            return drv[4]
    return None


def option_payload(body, operand):
    """Operand x of `Some(x)` building the local in `operand`."""
    if operand is None or operand[0] not in ('copy', 'move'):
        return None
    for (bi, si, pl, drv) in body.defs(operand[1][0]):
        if si != 't' and drv[0] == 'agg' and drv[2] == 'std::option::Option' and drv[5]:
            return drv[5][0]
    return None


def success_reachable(body, removed, success='ok', starts=(0,), ret_filter=None):
    """Is a success return reachable from `starts` in the CFG minus `removed` edges?
    Returns the list of reachable success blocks."""
    succ, _ = return_assigns(body, success)
    reach = body.reach(list(starts), removed)
    hits = []
    for s in succ:
        if ret_filter is not None and not ret_filter(body, s):
            continue
        if s['kind'] == 'edge':
            if s['bb'] in reach and (s['bb'], s['to']) not in removed:
                hits.append(s['bb'])
        elif s['bb'] in reach:
            hits.append(s['bb'])
    return sorted(set(hits))


def _flows_via_adapters(body, operand, target_local, depth=8):
    """operand is target_local, possibly through whole moves and polarity-preserving result adapters (x.map_err(..), x.with_context(..))"""
    o = operand
    for _ in range(depth):
        if o[0] not in ('copy', 'move') or o[1][1]:
            return False
        l = o[1][0]
        if l == target_local:
            return True
        ds = body.defs(l)
        if len(ds) != 1:
            return False
        bi, si, pl, rv = ds[0]
        if si == 't':
            if isinstance(rv, tuple):
                return False
            if adapter_polarity(rv) == 1 and rv.args:
                o = rv.args[0]
                continue
            return False
        if rv[0] == 'use':
            o = rv[1]
            continue
        return False
    return False


def gating_edges(body, dest_local, want=+1, success='ok'):
    """Edges that witness "the checked value in dest_local had the wanted outcome": the arms of the branches on it, plus - when
    the value is RETURNED as the function's own result (tail expression, possibly through `map_err` / `with_context`) - the
    edges on which it becomes the return value: its success then IS the function's success."""
    tr = track_result(body, dest_local, want)
    edges = set(tr.success_edges)
    if tr.returned and want == +1:
        succ, _ = return_assigns(body, success)
        carriers = body.ret_carriers()
        for sp in succ:
            if sp['kind'] == 'edge':
                c2 = sp['call']
                if c2.dest[0] == dest_local or (c2.args and _flows_via_adapters(body, c2.args[0], dest_local)):
                    edges.add((sp['bb'], sp['to']))
        # the call defining dest_local itself assigns a carrier
        for b in body.blocks:
            if b.term[0] == 'call' and b.term[1].dest[0] == dest_local and dest_local in carriers and b.term[1].target is not None:
                edges.add((b.term[1].bb, b.term[1].target))
    return edges, tr


# ---------------------------------------------------------------- R1 must-pass-through

class Sink:
    """A check that must gate success.  `callee`: glob(s) over written/resolved callee names.
    want: 'ok' (natural success: Ok/Some/true) or 'err' (the opposite, e.g. has_gap_with == false).
    arg_filter: optional fn(body, call) -> bool to select sites."""

    def __init__(self, name, callee, want='ok', arg_filter=None, per_item=False):
        self.name = name
        self.callee = [callee] if isinstance(callee, str) else list(callee)
        import core as _core
        if _core.PATTERN_LOG is not None:
            _core.PATTERN_LOG.update(self.callee)
        self.want = want
        self.arg_filter = arg_filter
        self.per_item = per_item

    def matches(self, call):
        return any(match_any(self.callee, n) for n in call.names())


class R1Result:
    def __init__(self):
        self.holds = False
        self.sites = []        # [(fn name, line, how)]
        self.problems = []     # human-readable
        self.detail = {}


class MPT:
    """Interprocedural guarded must-pass-through with memoised helper summaries."""

    def __init__(self, ws, max_depth=8):
        self.ws = ws
        self.max_depth = max_depth
        self.memo = {}
        self._reach_cache = {}

    # fns that can (transitively) reach a call whose name matches the sink
    def reaching(self, sink):
        key = tuple(sink.callee)
        r = self._reach_cache.get(key)
        if r is not None:
            return r
        callers = self.ws.callers()
        names = set()
        for n in callers.keys():
            if match_any(sink.callee, n):
                names.add(n)
        reach_fns = set()
        dq = deque()
        for n in names:
            for f, _ in callers[n]:
                dq.append(f)
        while dq:
            f = dq.popleft()
            chain = []
            g = f
            while g is not None:
                chain.append(g)
                g = g.parent
            for g in chain:
                if g.name in reach_fns:
                    continue
                reach_fns.add(g.name)
                for f2, _ in callers.get(g.name, []):
                    dq.append(f2)
                # trait impl methods are also reachable through the trait method name
                m = re.match(r'^<(.+) as (.+)>::([A-Za-z0-9_]+)$', g.name)
                if m:
                    tm = '%s::%s' % (m.group(2), m.group(3))
                    if tm not in reach_fns:
                        reach_fns.add(tm)
                        for f2, _ in callers.get(tm, []):
                            dq.append(f2)
        self._reach_cache[key] = reach_fns
        return reach_fns

    def candidates(self, call):
        """Workspace fns a call may execute (resolved instance, else all impls of the trait method)."""
        out = []
        if call.resolved and call.resolved in self.ws.by_name:
            return list(self.ws.by_name[call.resolved])
        if call.callee and call.callee in self.ws.by_name and not call.is_trait:
            return list(self.ws.by_name[call.callee])
        if call.callee and call.is_trait:
            # trait method: all workspace impls (dyn / generic dispatch over-approximation)
            idx = call.callee.rfind('::')
            tr, m = call.callee[:idx], call.callee[idx + 2:]
            out = self.ws.impls_of_trait_method(tr, m)
            if call.callee in self.ws.by_name:
                # provided (default) method body
                out = out + [f for f in self.ws.by_name[call.callee]]
        return out

    def enforces(self, fn, sink, success=None, depth=0, stack=(), ret_filter=None):
        """Does success of `fn` imply the sink was evaluated with the wanted outcome?"""
        key = (fn.name, sink.name, success, getattr(ret_filter, '__name__', None))
        if key in self.memo:
            return self.memo[key]
        if fn.name in stack or depth > self.max_depth:
            return R1Result()
        res = self._enforces(fn, sink, success, depth, stack + (fn.name,), ret_filter)
        self.memo[key] = res
        return res

    def _enforces(self, fn, sink, success, depth, stack, ret_filter=None):
        res = R1Result()
        lf = fn.logic()
        body = lf.body
        if success is None:
            cls = ty_class(lf.ret)
            success = {'result': 'ok', 'option': 'some'}.get(cls)
            if success is None:
                res.problems.append('%s: return type %s has no natural success' % (fn.name, lf.ret))
                return res
        removed = set()
        reaching = self.reaching(sink)
        loop_sites = []
        for c in body.calls():
            direct = sink.matches(c)
            if direct and sink.arg_filter and not sink.arg_filter(body, c):
                direct = False
            via = None
            want_pol = +1 if sink.want == 'ok' else -1
            if not direct:
                # helper that itself enforces the sink?
                names = c.names()
                cands = None
                if sink.per_item and any(match_any(CLOSURE_PER_ITEM, n) for n in names):
                    cl = [g for n in closure_args(body, c) for g in self.ws.by_name.get(n, [])]
                    if cl:
                        cands = cl
                if cands is None:
                    if not any(n in reaching for n in names):
                        continue
                    cands = self.candidates(c)
                if not cands:
                    continue
                ok_all = True
                for g in cands:
                    r = self.enforces(g, sink, None, depth + 1, stack)
                    if not r.holds:
                        ok_all = False
                        break
                if not ok_all:
                    continue
                via = cands[0].name
                want_pol = +1
            tr = track_result(body, c.dest[0], want_pol) if not c.dest[1] else Track()
            if c.dest[0] in body.ret_carriers() and not c.dest[1]:
                tr.returned = True
            site = {'fn': lf.name, 'line': c.line, 'callee': c.best(), 'via': via,
                    'discharged': tr.discharged(), 'escapes': tr.escapes[:4], 'bb': c.bb}
            res.sites.append(site)
            if tr.returned and not tr.success_edges:
                # F's result is the check's result: the edge out of the call is the success edge
                if c.target is not None:
                    removed.add((c.bb, c.target))
            removed |= tr.success_edges
            site['success_edges'] = sorted(tr.success_edges)
            site['fail_edges'] = sorted(tr.fail_edges)
            if sink.per_item and direct or (sink.per_item and via):
                loop_sites.append((c, tr))
        if not res.sites:
            res.problems.append('%s: no call that evaluates %s' % (lf.name, sink.name))
            return res
        if sink.per_item:
            ok = True
            any_loop = False
            for c, tr in loop_sites:
                li = loop_info(body, c.bb)
                if li is None:
                    continue
                any_loop = True
                hdr, nxt = li
                # success edges of the sites inside this very loop
                inside = body.reach([hdr], stop={nxt})
                rem = set()
                for c2, tr2 in loop_sites:
                    if c2.bb in inside:
                        rem |= tr2.success_edges
                        if tr2.returned and not tr2.success_edges and c2.target is not None:
                            rem.add((c2.bb, c2.target))
                r = body.reach([hdr], removed=rem, stop={nxt})
                if nxt in r:
                    ok = False
                    res.problems.append('%s: an iteration of the loop around %s (line %d) can complete without %s=%s' % (
                        lf.name, c.best(), c.line, sink.name, sink.want))
                    continue
                hits = success_reachable(body, rem, success, starts=[hdr], ret_filter=ret_filter)
                # success returns reachable from inside the iteration without passing the check, not through the header
                succ_pts, _ = return_assigns(body, success)
                direct = [sp['bb'] for sp in succ_pts if sp['bb'] in r]
                if direct:
                    ok = False
                    res.problems.append('%s: the loop around %s (line %d) can be left towards a success return (bb%s) '
                                        'without %s=%s' % (lf.name, c.best(), c.line, direct, sink.name, sink.want))
            if any_loop:
                res.holds = ok
                res.detail['mode'] = 'per-item'
                return res
        if ret_filter is not None:
            pts = [sp for sp in return_assigns(body, success)[0] if ret_filter(body, sp)]
            live = body.reach([0])
            if not [sp for sp in pts if sp['bb'] in live]:
                res.problems.append('%s: no reachable success return matches the return filter %s' % (
                    lf.name, getattr(ret_filter, '__name__', '?')))
                return res
        hits = success_reachable(body, removed, success, ret_filter=ret_filter)
        if hits:
            res.problems.append('%s: success return (bb%s) reachable without passing %s=%s' % (
                lf.name, hits, sink.name, sink.want))
            und = [s for s in res.sites if not s['discharged']]
            for s in und:
                res.problems.append('  UNDISCHARGED result of %s at line %d: %s' % (
                    s['callee'], s['line'], s['escapes']))
            return res
        res.holds = True
        return res


def loop_info(body, bb):
    """If `bb` lies in a loop driven by Iterator::next: (block entered for Some(item), block of the
    next() call) of the innermost such loop; else None."""
    best = None
    for c in body.calls():
        if not any(glob_match('<* as std::iter::traits::iterator::Iterator>::next', n) or n == 'std::iter::traits::iterator::Iterator::next'
                   for n in c.names()):
            continue
        some_targets = []
        d = c.dest[0]
        for (bi, si, how, payload) in body.uses(d):
            if how == 'stmt' and payload[1][0] == 'discr':
                dl = payload[0][0]
                for (b2, s2, how2, pay2) in body.uses(dl):
                    if how2 == 'sw':
                        su, fa = switch_edges(b2, pay2[0], 'option', +1)
                        some_targets.extend(b for _, b in su)
        for st in some_targets:
            r = body.reach([st], stop={c.bb})
            if bb in r and c.bb in body.reach([bb]):
                if best is None or len(r) < best[2]:
                    best = (st, c.bb, len(r))
    return (best[0], best[1]) if best else None


def loop_body_entry(body, bb):
    li = loop_info(body, bb)
    return li[0] if li else None


# ---------------------------------------------------------------- R3 who-may

def _allowed_root(ws, f, allow, depth=3, _seen=None):
    """Is the function (by its root) covered by the allow-list - directly, or as an internal (non-exported) helper all of whose
    callers are (transitively) covered?  A private helper extracted out of an allowed function is part of that function."""
    root = f.root()
    if any(glob_match(p, root.name) or glob_match(p, f.name) for p, _ in allow):
        return True
    if depth == 0 or root.reach or root.kind not in ('fn', 'assoc_fn'):
        return False
    _seen = (_seen or set()) | {id(root)}
    callers = [c for c, _l in ws.callers_of(root.name) if c.unit.tag in ('lib', 'bin')]
    if not callers:
        return False
    for c in callers:
        if id(c.root()) in _seen:
            continue
        if not _allowed_root(ws, c, allow, depth - 1, _seen):
            return False
    return True


def who_calls(ws, callee_pats, allow):
    """Callers of the definition(s) not covered by the allow-list.
    allow: [(glob over caller root name, reason)].  Returns (allowed_sites, offenders)."""
    allowed, offenders = [], []
    for f, line in ws.callers_of(callee_pats):
        if _allowed_root(ws, f, allow):
            allowed.append((f, line))
        else:
            offenders.append((f, line))
    return allowed, offenders


def who_constructs(ws, adt_pat, allow, variant=None):
    allowed, offenders = [], []
    for f in ws.constructors_of(adt_pat, variant):
        if _allowed_root(ws, f, allow):
            allowed.append(f)
        else:
            offenders.append(f)
    return allowed, offenders


# ---------------------------------------------------------------- R5 provenance

ITER_ADAPTERS = [
    '<* as std::iter::traits::collect::IntoIterator>::into_iter', 'std::iter::traits::collect::IntoIterator::into_iter',
    '<* as std::iter::traits::iterator::Iterator>::next', 'std::iter::traits::iterator::Iterator::next',
    '<* as std::ops::deref::Deref>::deref', 'std::ops::deref::Deref::deref',
    '<* as std::ops::deref::DerefMut>::deref_mut',
    '<* as std::clone::Clone>::clone', 'std::clone::Clone::clone',
    '<* as std::borrow::ToOwned>::to_owned', 'std::borrow::ToOwned::to_owned',
    '<* as std::convert::AsRef>::as_ref', 'std::convert::AsRef::as_ref',
    '<* as std::convert::Into>::into', 'std::convert::Into::into',
    '<* as std::convert::From>::from', 'std::convert::From::from',
    '<* as std::convert::TryInto>::try_into', 'std::convert::TryInto::try_into',
    '<* as std::convert::TryFrom>::try_from', 'std::convert::TryFrom::try_from',
    'std::slice::<impl [T]>::iter', 'std::vec::Vec::iter', '[T]::iter', '[T]::to_vec',
    'std::iter::traits::iterator::Iterator::enumerate', 'std::iter::traits::iterator::Iterator::zip',
    'std::iter::traits::iterator::Iterator::rev', 'std::iter::traits::iterator::Iterator::copied',
    'std::iter::traits::iterator::Iterator::cloned', 'std::ops::deref::DerefMut::deref_mut',
    'std::collections::btree::map::BTreeMap::iter', 'std::collections::btree::set::BTreeSet::iter',
    'std::collections::hash::map::HashMap::iter', 'std::slice::<impl [T]>::iter',
    'std::option::Option::unwrap', 'std::result::Result::unwrap', 'std::option::Option::expect',
    'std::result::Result::expect', 'std::option::Option::unwrap_or_default',
]


def origins(body, start, through_calls=True, max_nodes=4000, call_filter=None):
    """Backward slice from an operand/local to its origins.
    Returns a set of strings:
      'param:<name>.<field>.<field>'   a (field path of a) parameter / captured variable
      'call:<callee>'                  result of a call (recorded; with through_calls the slice
                                       also continues into the call's arguments)
      'const:<display>'
    Flow-insensitive (all definitions of a local), so it over-approximates."""
    out = set()
    seen = set()
    if isinstance(start, int):
        work = deque([(start, ())])
    else:
        if start[0] == 'const':
            return {'const:%s' % start[1]}
        if start[0] == 'fn':
            return {'fn:%s' % start[1]}
        if start[0] not in ('copy', 'move'):
            return set()
        work = deque([(start[1][0], fields_of(start[1][1]))])
    n = 0
    while work:
        l, path = work.popleft()
        if (l, path) in seen:
            continue
        seen.add((l, path))
        n += 1
        if n > max_nodes:
            out.add('overflow')
            break
        if 1 <= l <= body.argc:
            nm = body.locals[l][1] or ('arg%d' % l)
            out.add('param:' + '.'.join((nm,) + path))
            # rename-proof spellings: by position and by type head
            out.add('.'.join(('p#%d' % l,) + path))
            out.add('.'.join(('pty:' + type_head(body.lty(l)),) + path))
            # parameters can still be reassigned, fall through to defs
        elif path:
            # a field (path) of a struct-typed local: spelled by the local's type head, so that a rule can tell
            # `x.current` from `x.next` even when x is the result of a call
            out.add('.'.join(('lty:' + type_head(body.lty(l)),) + path))
        ds = body.defs(l)
        live = body.live()
        for (bi, si, pl, rv) in ds:
            if bi not in live:
                continue    # definition in a block pruned by constant conditions (e.g. cfg!(..))
            # a write to a sub-place of l: only relevant if compatible with the path we want
            wpath = fields_of(pl[1])
            if wpath and path[:len(wpath)] != wpath and wpath[:len(path)] != path:
                continue
            rest = path[len(wpath):] if path[:len(wpath)] == wpath else ()
            if si == 't':
                if rv == ('yield',):
                    continue
                c = rv
                out.add('call:' + c.best())
                if call_filter is not None and not call_filter(c):
                    continue
                if through_calls == 'adapters':
                    # only result adapters (first argument) and iteration / deref / clone adapters
                    if adapter_polarity(c) is not None or any(match_any(ITER_ADAPTERS, nn) for nn in c.names()) \
                            or len(c.args) == 1:     # unary method on the value itself (codec / accessor)
                        for a in c.args[:1]:
                            if a[0] in ('copy', 'move'):
                                work.append((a[1][0], fields_of(a[1][1])))
                    continue
                if through_calls or any(match_any(ITER_ADAPTERS, nn) for nn in c.names()):
                    for a in c.args:
                        if a[0] in ('copy', 'move'):
                            work.append((a[1][0], fields_of(a[1][1])))
                        elif a[0] == 'const':
                            out.add('const:%s' % a[1])
                continue
            k = rv[0]
            if k in ('use', 'rep'):
                o = rv[1]
                if o[0] in ('copy', 'move'):
                    work.append((o[1][0], fields_of(o[1][1]) + rest))
                elif o[0] == 'const':
                    out.add('const:%s' % o[1])
                elif o[0] == 'fn':
                    out.add('fn:%s' % o[1])
            elif k in ('ref', 'ptr', 'cfd', 'discr'):
                work.append((rv[1][0], fields_of(rv[1][1]) + rest))
            elif k == 'cast':
                o = rv[2]
                if o[0] in ('copy', 'move'):
                    work.append((o[1][0], fields_of(o[1][1]) + rest))
                elif o[0] == 'const':
                    out.add('const:%s' % o[1])
            elif k in ('bin',):
                for o in (rv[2], rv[3]):
                    if o[0] in ('copy', 'move'):
                        work.append((o[1][0], fields_of(o[1][1])))
                    elif o[0] == 'const':
                        out.add('const:%s' % o[1])
            elif k == 'un':
                o = rv[2]
                if o[0] in ('copy', 'move'):
                    work.append((o[1][0], fields_of(o[1][1])))
            elif k == 'agg':
                if rv[1] in ('closure', 'coroutine'):
                    out.add('closure:%s' % rv[2])
                elif rv[1] == 'adt':
                    out.add('adt:%s::%s' % (rv[2], rv[4]))
                ops = rv[5]
                # field-sensitive when the wanted path starts with a field of this aggregate
                sel = None
                if rest and rv[1] == 'adt':
                    sel = rest[0]
                for oi, o in enumerate(ops):
                    if o[0] in ('copy', 'move'):
                        work.append((o[1][0], fields_of(o[1][1])))
                    elif o[0] == 'const':
                        out.add('const:%s' % o[1])
    return out


def fn_origins(fn, operand_or_local, through_calls=True, depth=0):
    """origins() inside fn's body, with closure captures translated to the enclosing fn's origins:
    'param:arg1.<i>.<rest>' of a closure becomes the origins of captured operand i in the parent
    (with '.<rest>' appended to parameter origins)."""
    body = fn.body
    og = origins(body, operand_or_local, through_calls)
    if fn.kind != 'closure' or fn.parent is None or depth > 4:
        return og
    env_name = body.locals[1][1] or 'arg1'
    out = set()
    cap_ops = None
    for o in og:
        if o.startswith('pty:{') or o.startswith('pty:Pin'):
            continue   # closure / coroutine environment types (carry source positions)
        if o == 'p#1' or o.startswith('p#1.'):
            continue   # positional spelling of the environment: handled through the param: form
        if fn.cor and (o == 'p#2' or o.startswith('p#2.') or o.startswith('param:_task_context')
                       or o.startswith('pty:ResumeTy')):
            continue   # the coroutine's resume argument
        if o == 'param:' + env_name or o.startswith('param:' + env_name + '.'):
            rest = o[len('param:' + env_name):].lstrip('.')
            parts = rest.split('.') if rest else []
            if not parts or not parts[0].isdigit():
                continue
            if cap_ops is None:
                cap_ops = capture_operands(fn)
            i = int(parts[0])
            if cap_ops is None or i >= len(cap_ops):
                out.add(o)
                continue
            sub = fn_origins(fn.parent, cap_ops[i], through_calls, depth + 1)
            suffix = '.'.join(parts[1:])
            for x in sub:
                if x.startswith(('param:', 'p#', 'pty:')) and suffix:
                    out.add(x + '.' + suffix)
                else:
                    out.add(x)
        elif not fn.cor and re.match(r'^p#\d+', o):
            out.add('clarg' + o[1:])   # the closure's own argument, not a parameter of the parent
            # ... which is an element of what the closure is applied to: `xs.iter().try_for_each(|x| ..)`, `.map(|x| ..)`
            if depth <= 3:
                out |= _closure_receiver_origins(fn, through_calls, depth)
        else:
            out.add(o)
    return out


ELEMENT_CLOSURE_CALLS = ('::try_for_each', '::for_each', '::all', '::any', '::map', '::filter', '::filter_map', '::find', '::find_map', '::position',
                         '::flat_map', '::try_fold', '::fold', '::take_while', '::skip_while', '::inspect', '::retain', '::is_some_and', '::is_ok_and',
                         '::and_then', '::map_or', '::map_or_else', '::then', '::sort_by_key', '::max_by_key', '::min_by_key')


def _closure_receiver_origins(closure_fn, through_calls, depth):
    """Origins (in the parent) of the collection / value a closure is applied to element-wise."""
    par = closure_fn.parent
    if par is None:
        return set()
    pb = par.body
    out = set()
    holders = set()
    for b in pb.blocks:
        for (_, pl, rv) in b.stmts:
            if rv[0] == 'agg' and rv[1] == 'closure' and rv[2] == closure_fn.name and not pl[1]:
                holders.add(pl[0])
    # closures are usually passed by value directly; also through one move / reference
    for b in pb.blocks:
        for (_, pl, rv) in b.stmts:
            if not pl[1] and rv[0] in ('use', 'ref') and ((rv[0] == 'use' and rv[1][0] in ('copy', 'move') and rv[1][1][0] in holders) or
                                                       (rv[0] == 'ref' and rv[1][0] in holders)):
                holders.add(pl[0])
    for c in pb.calls():
        if len(c.args) >= 2 and any(a[0] in ('copy', 'move') and a[1][0] in holders for a in c.args[1:]) \
                and any(n.endswith(ELEMENT_CLOSURE_CALLS) for n in c.names()):
            out |= fn_origins(par, c.args[0], through_calls, depth + 1)
    return out


def capture_operands(closure_fn):
    """Operands captured by the closure, from the Aggregate(Closure) statement in its parent."""
    pb = closure_fn.parent.body
    for b in pb.blocks:
        for (_, pl, rv) in b.stmts:
            if rv[0] == 'agg' and rv[1] in ('closure', 'coroutine') and rv[2] == closure_fn.name:
                return rv[5]
    return None


def type_head(t):
    """Last path segment of a type, references and generics stripped: `&mithril::x::Foo<T>` -> Foo."""
    t = strip_refs(t)
    while t.startswith('['):
        t = t[1:]
        t = strip_refs(t)
    t = t.split('<', 1)[0].split(';', 1)[0].rstrip(']')
    return t.rsplit('::', 1)[-1]


def fields_of(proj):
    return tuple(e[2] if e[2] else str(e[1]) for e in proj if isinstance(e, tuple) and e[0] == 'f')


# ---------------------------------------------------------------- forward flow (loose)

LOSSY_COLLECTIONS = ('BTreeMap<', 'HashMap<', 'BTreeSet<', 'HashSet<', 'IndexMap<')


ERR_CONTEXT_ADAPTERS = ('::with_context', '::context', '::map_err', '::ok_or_else', '::ok_or', '::inspect_err', '::expect', '::unwrap_or_else')


def flows_forward(body, start_locals, through_calls=True, avoid_types=None, err_context_receiver_only=False, mut_refs_only=False):
    """Locals (transitively) derived from start_locals, flow-insensitively.  With
    through_calls every call propagates from any argument to its destination and into any
    `&mut` argument's referent (approximated: the local the &mut was taken from)."""
    derived = set(start_locals)
    # ref-of map: local -> locals it is a reference to (for &mut propagation)
    refof = defaultdict(set)
    for b in body.blocks:
        if b.cleanup:
            continue
        for (_, pl, rv) in b.stmts:
            # only MUTABLE references let a callee write into the referent (interior mutability is
            # not modelled: no rule relies on it)
            if rv[0] == 'ref' and not pl[1] and (rv[2] or not mut_refs_only):
                refof[pl[0]].add(rv[1][0])
            if rv[0] == 'use' and rv[1][0] in ('copy', 'move') and not pl[1]:
                # copies of references
                if body.lty(pl[0]).startswith('&mut' if mut_refs_only else '&'):
                    refof[pl[0]].add(rv[1][1][0])
        t = b.term
        if t[0] == 'call' and t[1].args and not t[1].dest[1]:
            c = t[1]
            # a mutable view into the first argument: writes through it reach that argument's referent
            if any(n.endswith(('::index_mut', '::deref_mut', '::as_mut', '::as_mut_slice', '::get_mut', '::iter_mut', '::split_at_mut')) for n in c.names()):
                a = c.args[0]
                if a[0] in ('copy', 'move'):
                    refof[c.dest[0]].add(a[1][0])
    changed = True
    while changed:
        changed = False
        for b in body.blocks:
            if b.cleanup:
                continue
            for (_, pl, rv) in b.stmts:
                if pl[0] in derived:
                    continue
                if any(l in derived for l, _ in rvalue_reads(rv)):
                    if avoid_types and any(x in body.lty(pl[0]) for x in avoid_types):
                        continue
                    derived.add(pl[0])
                    changed = True
            t = b.term
            if t[0] == 'call' and through_calls:
                c = t[1]
                srcs = [a[1][0] for a in c.args if a[0] in ('copy', 'move')]
                if err_context_receiver_only and any(n.endswith(ERR_CONTEXT_ADAPTERS) for n in c.names()):
                    # the second operand only shapes the error value: the success payload derives from the receiver
                    srcs = srcs[:1] if c.args and c.args[0][0] in ('copy', 'move') else []
                if any(s in derived for s in srcs):
                    if c.dest[0] not in derived and not (avoid_types and any(x in body.lty(c.dest[0]) for x in avoid_types)):
                        derived.add(c.dest[0])
                        changed = True
                    for s in srcs:
                        # mutable reference arguments: their referents become derived
                        for r in _referents(refof, s):
                            if r not in derived:
                                derived.add(r)
                                changed = True
    return derived


def _referents(refof, l, depth=4):
    out = set()
    cur = {l}
    for _ in range(depth):
        nxt = set()
        for x in cur:
            for r in refof.get(x, ()):
                if r not in out:
                    out.add(r)
                    nxt.add(r)
        cur = nxt
        if not cur:
            break
    return out


# ---------------------------------------------------------------- R6 comparison guards

CMP_OPS = {'Eq', 'Ne', 'Lt', 'Le', 'Gt', 'Ge'}
CMP_REL = {  # relation (a ? b) -> accepted points of the order abstraction {lt, eq, gt}
    'Eq': {'eq'}, 'Ne': {'lt', 'gt'}, 'Lt': {'lt'}, 'Le': {'lt', 'eq'}, 'Gt': {'gt'}, 'Ge': {'gt', 'eq'},
}
ALL3 = {'lt', 'eq', 'gt'}
CMP_CALLS = {
    'eq': 'Eq', 'ne': 'Ne', 'lt': 'Lt', 'le': 'Le', 'gt': 'Gt', 'ge': 'Ge',
}


class Guard:
    """A comparison whose outcome decides a branch: on `true_edges` the relation `rel` holds
    between operands a and b (as origin sets), on `false_edges` its complement."""

    def __init__(self):
        self.bb = None
        self.line = None
        self.op = None
        self.a = None
        self.b = None
        self.a_orig = set()
        self.b_orig = set()
        self.true_edges = set()
        self.false_edges = set()
        self.kind = None


def find_guards(body, through_calls=True):
    """All comparison guards of a body: BinaryOp comparisons and PartialEq/PartialOrd calls whose
    boolean result reaches a SwitchInt (through Not / copies)."""
    out = []
    for bi, b in enumerate(body.blocks):
        if b.cleanup:
            continue
        for (line, pl, rv) in b.stmts:
            if rv[0] == 'bin' and rv[1] in CMP_OPS and not pl[1]:
                g = Guard()
                g.bb, g.line, g.op, g.a, g.b, g.kind = bi, line, rv[1], rv[2], rv[3], 'binop'
                tr = track_result(body, pl[0], +1, 'bool')
                g.true_edges, g.false_edges = tr.success_edges, tr.fail_edges
                g.returned = tr.returned
                out.append(g)
        t = b.term
        if t[0] == 'call':
            c = t[1]
            for n in c.names():
                m = re.match(r'^(?:<.* as )?std::cmp::Partial(?:Eq|Ord)(?:>)?::(eq|ne|lt|le|gt|ge)$', n)
                if m and len(c.args) == 2 and not c.dest[1]:
                    g = Guard()
                    g.bb, g.line, g.op, g.a, g.b, g.kind = bi, c.line, CMP_CALLS[m.group(1)], c.args[0], c.args[1], 'call:' + n
                    tr = track_result(body, c.dest[0], +1, 'bool')
                    g.true_edges, g.false_edges = tr.success_edges, tr.fail_edges
                    g.returned = tr.returned
                    out.append(g)
                    break
    for g in out:
        g.fn = body.fn
        g.a_orig = fn_origins(body.fn, g.a, through_calls)
        g.b_orig = fn_origins(body.fn, g.b, through_calls)
    return out


def operand_shifted(body, operand, depth=6):
    """Is the compared operand a locally shifted / scaled value (`x + c`, `x - c`, `x * c`, ...)?  Walks back through
    copies / casts of single-definition temporaries only, so loop-carried counters are not mistaken for shifts."""
    if operand[0] not in ('copy', 'move') or operand[1][1]:
        return None
    l = operand[1][0]
    for _ in range(depth):
        ds = body.defs(l)
        if len(ds) != 1 or l <= body.argc:
            return None
        bi, si, pl, rv = ds[0]
        if si == 't' and not isinstance(rv, tuple) and not pl[1]:
            c = rv
            nm = c.best()
            # operator traits on newtype wrappers: `epoch + 1`
            if re.search(r'std::ops::arith::(Add|Sub|Mul|Div)>?::(add|sub|mul|div)$', nm) or re.search(r'::(saturating|wrapping|checked)_(add|sub|mul)$', nm):
                if any(body.const_of(a) is not None or a[0] == 'const' for a in c.args):
                    return '%s with a constant (line %d)' % (nm.rsplit('::', 1)[-1], c.line)
                return None
            return None
        if si == 't' or pl[1]:
            return None
        if rv[0] == 'bin' and rv[1] in ('Add', 'Sub', 'Mul', 'AddWithOverflow', 'SubWithOverflow', 'MulWithOverflow', 'Shl', 'Shr', 'Div'):
            if body.const_of(rv[2]) is not None or body.const_of(rv[3]) is not None:
                return '%s by a constant (line %d)' % (rv[1].replace('WithOverflow', ''), bi)
            return None
        if rv[0] == 'use' and rv[1][0] in ('copy', 'move'):
            pr = rv[1][1][1]
            # `.0` of a checked-arithmetic tuple
            if pr and not (len(pr) == 1 and isinstance(pr[0], tuple) and pr[0][0] == 'f'):
                return None
            l = rv[1][1][0]
            continue
        if rv[0] == 'cast' and rv[2][0] in ('copy', 'move') and not rv[2][1][1]:
            l = rv[2][1][0]
            continue
        if rv[0] in ('ref', 'cfd') and not [e for e in rv[1][1] if isinstance(e, tuple)]:
            l = rv[1][0]
            continue
        return None
    return None


def accepted_relation(body, g, success='ok'):
    """Order-abstraction points (a vs b) under which a success return stays reachable after the
    guard: union over the guard's arms from which success is reachable."""
    acc = set()
    rel_true = CMP_REL[g.op]
    rel_false = ALL3 - rel_true
    t_targets = [b for _, b in g.true_edges]
    f_targets = [b for _, b in g.false_edges]
    if t_targets and success_reachable(body, set(), success, starts=t_targets):
        acc |= rel_true
    if f_targets and success_reachable(body, set(), success, starts=f_targets):
        acc |= rel_false
    return acc


# ---------------------------------------------------------------- R9 lock regions

LOCK_CALLS = ['std::sync::poison::mutex::Mutex::lock', 'std::sync::poison::rwlock::RwLock::read',
              'std::sync::poison::rwlock::RwLock::write', 'tokio::sync::mutex::Mutex::lock',
              'tokio::sync::rwlock::RwLock::read', 'tokio::sync::rwlock::RwLock::write',
              'std::sync::poison::mutex::Mutex::try_lock']
GUARD_TYPES = ('std::sync::poison::mutex::MutexGuard<', 'std::sync::poison::rwlock::RwLockReadGuard<',
               'std::sync::poison::rwlock::RwLockWriteGuard<', 'tokio::sync::mutex::MutexGuard<',
               'tokio::sync::rwlock::read_guard::RwLockReadGuard<', 'tokio::sync::rwlock::write_guard::RwLockWriteGuard<')
UNWRAPPERS = ['std::result::Result::unwrap', 'std::result::Result::expect', 'std::result::Result::map_err',
              '<std::result::Result as anyhow::Context>::with_context', 'anyhow::Context::with_context',
              '<std::result::Result as anyhow::Context>::context', 'anyhow::Context::context',
              '<* as std::ops::try_trait::Try>::branch', 'std::ops::try_trait::Try::branch',
              '<* as std::future::into_future::IntoFuture>::into_future', 'std::future::into_future::IntoFuture::into_future',
              'std::pin::Pin::new_unchecked', '<* as std::future::future::Future>::poll', 'std::future::future::Future::poll']


class LockRegion:
    def __init__(self):
        self.field = None
        self.call = None
        self.guard = None
        self.blocks = set()
        self.end_blocks = set()

    def __repr__(self):
        return 'LockRegion(%s guard=_%s line=%s blocks=%s)' % (self.field, self.guard, self.call.line, sorted(self.blocks))


def lock_regions(fn):
    """Lock regions of a body: for every lock acquisition, the guard local and the blocks executed
    while it is held (from the guard's definition to its drop / move-out)."""
    body = fn.body
    out = []
    for c in body.calls():
        if not any(match_any(LOCK_CALLS, n) for n in c.names()):
            continue
        og = fn_origins(fn, c.args[0], False) if c.args else set()
        field = None
        for o in sorted(og):
            if o.startswith('pty:') and '.' in o:
                field = o[4:]
                break
        # forward to the guard local
        guard = None
        seen = set()
        work = deque([c.dest[0]])
        while work and guard is None:
            l = work.popleft()
            if l in seen:
                continue
            seen.add(l)
            if body.lty(l).startswith(GUARD_TYPES):
                guard = l
                break
            for (bi, si, how, payload) in body.uses(l):
                if how == 'stmt':
                    pl, rv, place = payload
                    if rv[0] in ('use', 'ref', 'cfd') and not pl[1]:
                        work.append(pl[0])
                elif how == 'arg':
                    cc, ai, place = payload
                    if ai == 0 and any(match_any(UNWRAPPERS, n) for n in cc.names()) and not cc.dest[1]:
                        work.append(cc.dest[0])
        r = LockRegion()
        r.field = field
        r.call = c
        r.guard = guard
        if guard is not None:
            # ownership chain: the guard may be moved from a temporary into the named local
            chain = [guard]
            moved_out = set()
            changed = True
            while changed:
                changed = False
                for g in list(chain):
                    for (bi, si, how, payload) in body.uses(g):
                        if how == 'stmt':
                            pl, rv, place = payload
                            if rv[0] == 'use' and rv[1][0] == 'move' and not place[1] and not pl[1] \
                                    and body.lty(pl[0]).startswith(GUARD_TYPES) and pl[0] not in chain:
                                chain.append(pl[0])
                                moved_out.add(g)
                                changed = True
            owner = chain[-1]
            r.guard = owner
            starts = []
            for g in chain:
                for (bi, si, pl, rv) in body.defs(g):
                    if si == 't':
                        if isinstance(rv, tuple):
                            continue
                        if rv.target is not None:
                            starts.append(rv.target)
                    else:
                        starts.append(bi)
            ends = set()
            for g in chain:
                for (bi, si, how, payload) in body.uses(g):
                    if how == 'drop' and g not in moved_out:
                        ends.add(bi)
                    elif how == 'arg':
                        cc, ai, place = payload
                        if not place[1] and cc.args[ai][0] == 'move':
                            ends.add(bi)     # guard moved into a call (e.g. Condvar::wait_timeout)
            r.blocks = body.reach(starts, stop=ends)
            r.end_blocks = ends
        out.append(r)
    return out


# ---------------------------------------------------------------- R7 taint (untrusted wire integers)

TAINT_SOURCES = ['u64::from_be_bytes', 'u32::from_be_bytes', 'u16::from_be_bytes', 'usize::from_be_bytes',
                 'u64::from_le_bytes', 'u32::from_le_bytes', 'u16::from_le_bytes', 'usize::from_le_bytes',
                 'u128::from_be_bytes', 'i64::from_be_bytes']
ALLOC_SINKS = ['std::vec::Vec::with_capacity', 'std::vec::from_elem', 'std::vec::Vec::reserve', 'std::vec::Vec::reserve_exact',
               'std::string::String::with_capacity', 'std::vec::Vec::resize', 'std::collections::vec_deque::VecDeque::with_capacity',
               'std::collections::hash::map::HashMap::with_capacity', 'std::boxed::Box::new_uninit_slice']
RAW_ARITH = {'Add', 'Sub', 'Mul', 'Shl', 'AddWithOverflow', 'SubWithOverflow', 'MulWithOverflow', 'AddUnchecked', 'Shr', 'Div', 'Rem'}
ARITH_CALLS = ['usize::next_power_of_two', 'u64::next_power_of_two', 'usize::pow', 'u64::pow', 'usize::wrapping_add',
               'usize::wrapping_mul', 'usize::unchecked_add']
INDEX_SINKS = ['std::ops::index::Index::index', 'std::ops::index::IndexMut::index_mut', '<* as std::ops::index::Index>::index',
               '<* as std::ops::index::IndexMut>::index_mut', '[T]::split_at', '[T]::split_at_mut', '[T]::copy_within']
# calls that return a *validated* value: the result is no longer a raw wire integer
SANITISERS = ['usize::checked_add', 'usize::checked_mul', 'usize::checked_sub', 'u64::checked_add', 'u64::checked_mul',
              'u64::checked_sub', 'usize::saturating_add', 'usize::saturating_mul', 'usize::saturating_sub',
              'usize::checked_next_power_of_two', 'u64::saturating_sub', 'u64::saturating_add', 'usize::min', 'std::cmp::min',
              'std::cmp::Ord::min', '<usize as std::cmp::Ord>::min', 'usize::checked_shl', 'usize::checked_pow']
# calls through which taint does not propagate (they produce decoded *data*, not lengths)
TAINT_STOP = ['[T]::get', '<* as std::slice::index::SliceIndex>::get', '[T]::len', 'std::vec::Vec::len',
              'std::vec::Vec::push', '[T]::to_vec', '[T]::copy_from_slice', '[T]::first', '[T]::chunks_exact']


SOURCE_BITS = {'u16': 16, 'u32': 32, 'u64': 64, 'usize': 64, 'u128': 128, 'i64': 64}


def wire_int_findings(fn):
    """R7 over one body, flow-sensitive (forward may-analysis over the success-path CFG).
    Abstract value of a local: the maximal number of significant bits of a wire integer it may hold
    (0 = not derived from a wire integer).  from_{be,le}_bytes of uN gives N bits; copies/casts keep the
    width (a cast to a narrower type truncates); a+b gives max+1, a*b the sum, a<<b 128.  A finding is raw
    arithmetic whose result may need more than 63 bits (usize of the analysed 64-bit target), an allocation
    sized by a value of more than 16 bits, or a panicking index/split with any wire-derived value.
    checked_*/saturating_* results keep their operands' width capped at 63 (they cannot wrap)."""
    body = fn.body
    nb = len(body.blocks)
    # sources
    has_src = any(any(match_any(TAINT_SOURCES, n) for n in c.names()) for c in body.calls())
    if not has_src:
        return [], 0
    IN = [dict() for _ in range(nb)]
    findings = {}
    ever = set()

    def val(st, o):
        if o[0] in ('copy', 'move'):
            return st.get(o[1][0], 0)
        return 0

    def width_of(ty):
        return {'u8': 8, 'u16': 16, 'u32': 32, 'u64': 64, 'usize': 64, 'u128': 128, 'i64': 64, 'i32': 32, 'isize': 64}.get(ty)

    def transfer(bi, st, record):
        st = dict(st)
        b = body.blocks[bi]
        for (line, pl, rv) in b.stmts:
            k = rv[0]
            v = 0
            if k in ('use', 'rep'):
                v = val(st, rv[1])
            elif k in ('ref', 'cfd', 'ptr'):
                v = st.get(rv[1][0], 0)
            elif k == 'cast':
                v = val(st, rv[2])
                w = width_of(rv[3])
                if v and w:
                    v = min(v, w)
            elif k == 'un':
                v = val(st, rv[2])
            elif k == 'bin':
                x, y = val(st, rv[2]), val(st, rv[3])
                op = rv[1]
                if x or y:
                    if op in ('Add', 'AddWithOverflow', 'AddUnchecked'):
                        v = max(x, y) + 1
                    elif op in ('Sub', 'SubWithOverflow'):
                        v = max(x, y, 64) if record is not None else max(x, y)
                        v = max(x, y)
                    elif op in ('Mul', 'MulWithOverflow'):
                        cx = body.const_of(rv[2]) if not x else None
                        cy = body.const_of(rv[3]) if not y else None
                        c = cx if cx is not None else cy
                        v = (x or y) + (c.bit_length() if c is not None else 64) if not (x and y) else x + y
                    elif op in ('Shl',):
                        v = 128
                    elif op in ('Div', 'Rem', 'Shr', 'BitAnd'):
                        v = max(x, y)
                    elif op in ('Eq', 'Ne', 'Lt', 'Le', 'Gt', 'Ge', 'Cmp'):
                        v = 0
                    else:
                        v = max(x, y)
                    if record is not None and op in RAW_ARITH and op not in ('Div', 'Rem', 'Shr'):
                        tyd = body.lty(pl[0])
                        over = v > 63 or (op.startswith('Sub') and max(x, y) > 0 and False)
                        if op.startswith('Sub'):
                            # a - b underflows whenever b may exceed a: any wire-derived subtrahend
                            over = y > 0 or x > 63
                        if over and _is_int(tyd.replace('(', '').split(',')[0]):
                            record[('arith', op.replace('WithOverflow', ''), line, bi)] = 1
            elif k == 'agg':
                v = max([val(st, o) for o in rv[5]] or [0])
                if rv[1] == 'adt' and rv[2] and not rv[2].startswith('std::ops::range::') and \
                        not rv[2].startswith('std::option::') and not rv[2].startswith('std::result::'):
                    v = 0
            elif k == 'discr':
                v = 0
            if not pl[1]:
                if v:
                    st[pl[0]] = v
                    ever.add(pl[0])
                else:
                    st.pop(pl[0], None)
            elif v:
                st[pl[0]] = max(st.get(pl[0], 0), v)
                ever.add(pl[0])
        t = b.term
        if t[0] == 'call':
            c = t[1]
            names = c.names()
            args = [val(st, a) for a in c.args]
            mx = max(args or [0])
            v = 0
            src = [n for n in names if match_any(TAINT_SOURCES, n)]
            if src:
                v = SOURCE_BITS.get(src[0].split('::')[0], 64)
            elif any(match_any(TAINT_STOP, n) for n in names):
                v = 0
            elif any(match_any(SANITISERS, n) for n in names):
                v = min(mx, 63) if mx else 0
            elif mx and _int_carrier(body.lty(c.dest[0])):
                v = mx
                if any(glob_match('*::try_from', n) or glob_match('*TryFrom>::try_from', n) or glob_match('*::try_into', n) for n in names):
                    v = mx
            if record is not None and mx:
                if any(match_any(ALLOC_SINKS, n) for n in names) and mx > 16:
                    record[('alloc', c.best(), c.line, bi)] = 1
                elif any(match_any(ARITH_CALLS, n) for n in names) and mx > 32:
                    record[('arith', c.best(), c.line, bi)] = 1
                elif any(match_any(INDEX_SINKS, n) for n in names):
                    record[('index', c.best(), c.line, bi)] = 1
            if not c.dest[1]:
                if v:
                    st[c.dest[0]] = v
                    ever.add(c.dest[0])
                else:
                    st.pop(c.dest[0], None)
        return st

    # fixpoint
    work = deque([0])
    seen_once = set()
    it = 0
    while work and it < 20000:
        it += 1
        bi = work.popleft()
        if body.blocks[bi].cleanup:
            continue
        out = transfer(bi, IN[bi], None)
        for s in body.succ(bi):
            changed = s not in seen_once
            seen_once.add(s)
            cur = IN[s]
            for l, v in out.items():
                if cur.get(l, 0) < v:
                    cur[l] = min(v, 256)
                    changed = True
            if changed:
                work.append(s)
    rec = {}
    for bi in range(nb):
        if body.blocks[bi].cleanup or (bi != 0 and bi not in seen_once):
            continue
        transfer(bi, IN[bi], rec)
    return sorted(rec.keys(), key=lambda x: (x[2], x[0], x[1])), len(ever)


def _is_int(ty):
    return ty in ('usize', 'u64', 'u32', 'u16', 'u8', 'u128', 'i64', 'i32', 'isize', '(usize, bool)', '(u64, bool)', '(u32, bool)')


def _int_carrier(ty):
    t = strip_refs(ty)
    if _is_int(t):
        return True
    for head in ('std::option::Option<', 'std::result::Result<', 'std::ops::control_flow::ControlFlow<', 'std::ops::range::Range<',
                 'std::ops::range::RangeInclusive<', 'std::ops::range::RangeFrom<', 'std::ops::range::RangeTo<'):
        if t.startswith(head):
            inner = t[len(head):]
            return inner.startswith(('usize', 'u64', 'u32', 'u16', 'std::convert::Infallible, usize', 'std::convert::Infallible, u64',
                                     'std::result::Result<std::convert::Infallible', 'std::option::Option<std::convert::Infallible'))
    return False


# ---------------------------------------------------------------- R8 panic inventory

PANIC_CALLS = [
    'std::option::Option::unwrap', 'std::option::Option::expect', 'std::result::Result::unwrap', 'std::result::Result::expect',
    'std::result::Result::unwrap_err', 'std::result::Result::expect_err',
    'std::ops::index::Index::index', 'std::ops::index::IndexMut::index_mut', '<* as std::ops::index::Index>::index',
    '<* as std::ops::index::IndexMut>::index_mut', '[T]::copy_from_slice', '[T]::split_at', '[T]::split_at_mut',
    'std::vec::Vec::remove', 'std::vec::Vec::swap_remove', 'std::vec::Vec::insert', 'std::vec::Vec::drain', 'std::vec::Vec::split_off',
    'std::panicking::begin_panic', 'std::panicking::panic_fmt', 'std::panicking::panic', 'std::rt::panic_fmt',
    'std::panicking::unreachable_display', 'std::panicking::panic_explicit', 'std::panicking::assert_failed',
    'std::slice::<impl [T]>::copy_from_slice', '[T]::clone_from_slice', 'std::convert::TryInto::try_into',
]


def panic_sites(fn):
    """(kind, what, ordinal, line) for every panic-capable site of one body (success-path CFG)."""
    body = fn.body
    out = []
    counts = defaultdict(int)
    live = body.reach([0])
    for bi, b in enumerate(body.blocks):
        if b.cleanup or bi not in live:
            continue
        t = b.term
        if t[0] == 'assert':
            k = t[3]
            counts[('assert', k)] += 1
            out.append(('assert', k, counts[('assert', k)], t[6], bi))
        elif t[0] == 'call':
            c = t[1]
            for n in c.names():
                hit = None
                for p in PANIC_CALLS:
                    if p == 'std::convert::TryInto::try_into':
                        continue
                    if glob_match(p, n):
                        hit = p
                        break
                if hit:
                    key = n
                    counts[('call', key)] += 1
                    out.append(('call', key, counts[('call', key)], c.line, bi))
                    break
    return out
