"""Fact base loader and MIR utilities (python3 stdlib only).

Facts come from driver/ (one idx.json + one mir.jsonl per workspace crate unit).  Nothing here
knows about any property: it offers the resolved program (functions, bodies, CFG, def/use,
call graph) to the rule kinds in rules.py.
"""
import fnmatch
import glob
import json
import os
import re
import sys
from collections import defaultdict, deque


class AnchorMissing(Exception):
    """A definition named in a rule table does not exist in the fact base (fail closed)."""


# ---------------------------------------------------------------- decoding

def _place(S, p):
    proj = []
    for e in p[1:]:
        if isinstance(e, str):
            proj.append(e)
        elif e[0] == 'f':
            proj.append(('f', e[1], e[2], S[e[3]] if len(e) > 3 and e[3] >= 0 else None))
        elif e[0] == 'd':
            proj.append(('d', e[1], e[2]))
        else:
            proj.append(tuple(e))
    return (p[0], tuple(proj))


def _operand(S, o):
    k = o[0]
    if k == 0:
        return ('copy', _place(S, o[1]))
    if k == 1:
        return ('move', _place(S, o[1]))
    if k == 2:
        return ('const', o[1], S[o[2]], int(o[3]) if len(o) > 3 else None)
    if k == 3:
        return ('fn', S[o[1]], S[o[2]])
    return ('rt',)


def _rvalue(S, r):
    k = r[0]
    if k in ('use', 'rep'):
        return (k, _operand(S, r[1]))
    if k == 'ref':
        return ('ref', _place(S, r[1]), r[2])
    if k in ('ptr', 'discr', 'cfd'):
        return (k, _place(S, r[1]))
    if k == 'cast':
        return ('cast', r[1], _operand(S, r[2]), S[r[3]])
    if k == 'bin':
        return ('bin', r[1], _operand(S, r[2]), _operand(S, r[3]))
    if k == 'un':
        return ('un', r[1], _operand(S, r[2]))
    if k == 'agg':
        return ('agg', r[1], S[r[2]] if r[2] is not None else None, r[3], r[4],
                [_operand(S, x) for x in r[5]])
    if k == 'tlr':
        return ('tlr', r[1])
    if k == 'setdiscr':
        return ('setdiscr', r[1])
    return (k,)


class Call:
    __slots__ = ('line', 'callee', 'gargs', 'resolved', 'is_trait', 'args', 'dest', 'target',
                 'unwind', 'ind', 'bb')

    def names(self):
        n = []
        if self.callee:
            n.append(self.callee)
        if self.resolved:
            n.append(self.resolved)
        return n

    def best(self):
        return self.resolved or self.callee or '<indirect>'

    def __repr__(self):
        return 'Call(%s @%s)' % (self.best(), self.line)


def _term(S, t, bb):
    k = t[0]
    if k == 'call':
        c = Call()
        c.bb = bb
        c.line = t[1]
        ci = t[2]
        if ci[0] == 'ind':
            c.callee = None
            c.gargs = None
            c.resolved = None
            c.is_trait = False
            c.ind = _operand(S, ci[1])
        else:
            c.callee = S[ci[0]]
            c.gargs = S[ci[1]]
            c.resolved = S[ci[2]] if ci[2] is not None else None
            c.is_trait = bool(ci[3])
            c.ind = None
        c.args = [_operand(S, a) for a in t[3]]
        c.dest = _place(S, t[4])
        c.target = t[5]
        c.unwind = t[6]
        return ('call', c)
    if k == 'sw':
        return ('sw', _operand(S, t[1]), [(int(v), b) for v, b in t[2]], t[3])
    if k == 'drop':
        return ('drop', _place(S, t[1]), t[2], t[3])
    if k == 'assert':
        return ('assert', _operand(S, t[1]), t[2], t[3], t[4], t[5], t[6])
    if k == 'yield':
        return ('yield', _operand(S, t[1]), t[2], _place(S, t[3]), t[4])
    return tuple(t)


class Block:
    __slots__ = ('stmts', 'term', 'cleanup', 'owner', 'stack', 'inlined_call')


class Body:
    def __init__(self, fn, raw):
        S = fn.unit.strs
        self.fn = fn
        self.locals = [(S[t], n) for t, n in raw['L']]
        self.blocks = []
        for bi, (stmts, term, cleanup) in enumerate(raw['B']):
            b = Block()
            b.stmts = [(s[0], _place(S, s[1]), _rvalue(S, s[2])) for s in stmts]
            b.term = _term(S, term, bi)
            b.cleanup = bool(cleanup)
            self.blocks.append(b)
        self.argc = fn.argc
        self._succ = None
        self._defs = None
        self._uses = None
        self._const_locals = None

    # ---- naming helpers
    def lname(self, l):
        n = self.locals[l][1]
        return '_%d%s' % (l, '(' + n + ')' if n else '')

    def lty(self, l):
        return self.locals[l][0]

    def local_by_name(self, name):
        return [i for i, (_, n) in enumerate(self.locals) if n == name]

    # ---- calls
    def calls(self):
        for bi, b in enumerate(self.blocks):
            if b.cleanup:
                continue
            if b.term[0] == 'call':
                yield b.term[1]

    # ---- constants (locals assigned exactly once, with a constant)
    def const_locals(self):
        if self._const_locals is None:
            cnt = defaultdict(int)
            val = {}
            for b in self.blocks:
                for (_, pl, rv) in b.stmts:
                    if not pl[1]:
                        cnt[pl[0]] += 1
                        if rv[0] == 'use' and rv[1][0] == 'const' and rv[1][3] is not None:
                            val[pl[0]] = rv[1][3]
                if b.term[0] == 'call' and not b.term[1].dest[1]:
                    cnt[b.term[1].dest[0]] += 1
                if b.term[0] == 'yield' and not b.term[3][1]:
                    cnt[b.term[3][0]] += 1
            consts = {l: v for l, v in val.items() if cnt[l] == 1}
            # discriminant of a local built once from a constant aggregate (e.g. async_trait's
            # `if let Some(ret) = None::<T>` prologue)
            aggv = {}
            for b in self.blocks:
                for (_, pl, rv) in b.stmts:
                    if not pl[1] and rv[0] == 'agg' and rv[1] == 'adt' and cnt[pl[0]] == 1:
                        aggv[pl[0]] = rv[3]
            # `?` on a constant Result/Option: Try::branch keeps the variant (Ok->Continue, Err->Break)
            for b in self.blocks:
                t = b.term
                if t[0] == 'call' and not t[1].dest[1] and cnt[t[1].dest[0]] == 1 and t[1].args:
                    c = t[1]
                    if any(n.endswith('::Try>::branch') or n.endswith('::Try::branch') for n in c.names()):
                        a = c.args[0]
                        if a[0] in ('copy', 'move') and not a[1][1] and a[1][0] in aggv:
                            src = aggv[a[1][0]]
                            ty = self.locals[a[1][0]][0]
                            if 'result::Result<' in ty.split('<', 1)[0] + '<':
                                aggv[c.dest[0]] = src          # Ok(0)->Continue(0), Err(1)->Break(1)
                            elif 'option::Option<' in ty.split('<', 1)[0] + '<':
                                aggv[c.dest[0]] = 1 - src      # Some(1)->Continue(0), None(0)->Break(1)
            for b in self.blocks:
                for (_, pl, rv) in b.stmts:
                    if not pl[1] and rv[0] == 'discr' and not rv[1][1] and cnt[pl[0]] == 1 \
                            and rv[1][0] in aggv:
                        consts[pl[0]] = aggv[rv[1][0]]
            self._const_locals = consts
        return self._const_locals

    def const_of(self, op):
        if op[0] == 'const':
            return op[3]
        if op[0] in ('copy', 'move') and not op[1][1]:
            return self.const_locals().get(op[1][0])
        return None

    # ---- return carriers: _0 and the temporaries whose whole value is moved into it
    def ret_carriers(self):
        c = getattr(self, '_carriers', None)
        if c is None:
            c = {0}
            for _ in range(3):
                for b in self.blocks:
                    if b.cleanup:
                        continue
                    for (_, pl, rv) in b.stmts:
                        if pl[0] in c and not pl[1] and rv[0] == 'use' and rv[1][0] in ('copy', 'move') \
                                and not rv[1][1][1] and rv[1][1][0] > self.argc:
                            c.add(rv[1][1][0])
            self._carriers = c
        return c

    # ---- CFG (success-path CFG: no unwind edges, constant switches pruned)
    def succ(self, bi):
        if self._succ is None:
            self._succ = [self._compute_succ(i) for i in range(len(self.blocks))]
        return self._succ[bi]

    def _compute_succ(self, bi):
        t = self.blocks[bi].term
        k = t[0]
        if k == 'goto':
            return [t[1]]
        if k == 'sw':
            c = self.const_of(t[1])
            if c is not None:
                for v, b in t[2]:
                    if v == c:
                        return [b]
                return [t[3]]
            out = []
            for v, b in t[2]:
                if b not in out:
                    out.append(b)
            if t[3] not in out:
                out.append(t[3])
            return out
        if k == 'drop':
            return [t[2]]
        if k == 'call':
            return [t[1].target] if t[1].target is not None else []
        if k == 'assert':
            return [t[4]]
        if k == 'yield':
            return [t[2]]
        if k in ('fe', 'fu'):
            return [t[1]]
        return []

    def edges(self):
        for i in range(len(self.blocks)):
            if self.blocks[i].cleanup:
                continue
            for s in self.succ(i):
                yield (i, s)

    def reach(self, starts, removed=frozenset(), stop=frozenset()):
        """Blocks reachable from `starts` in the success-path CFG minus `removed` edges; blocks in `stop` are
        reached but not expanded.  Path-sensitive in ONE tracked value at a time (see _trackers): the result is
        the intersection, over the trackers, of the reachability on the product (block, abstract value)."""
        out = self._reach_plain(starts, removed, stop)
        for tr in self._trackers():
            seen = set()
            dq = deque((s, '?') for s in starts)
            while dq:
                st = dq.popleft()
                if st in seen:
                    continue
                seen.add(st)
                bi, val = st
                if bi in stop or bi not in out:
                    continue
                blk = self.blocks[bi]
                val = tr.transfer(self, blk, val)
                succs = self.succ(bi)
                only = tr.prune(self, blk, val)
                if only is not None:
                    succs = [x for x in succs if x == only] or succs
                for s_ in succs:
                    if (bi, s_) in removed:
                        continue
                    if (s_, val) not in seen:
                        dq.append((s_, val))
            out &= {bi for bi, _ in seen}
        return out

    def reach_bool(self, starts, removed=frozenset(), stop=frozenset()):
        return self.reach(starts, removed, stop)

    def _reach_plain(self, starts, removed=frozenset(), stop=frozenset()):
        seen = set()
        dq = deque(starts)
        while dq:
            b = dq.popleft()
            if b in seen:
                continue
            seen.add(b)
            if b in stop:
                continue
            for s in self.succ(b):
                if (b, s) in removed:
                    continue
                if s not in seen:
                    dq.append(s)
        return seen

    def _trackers(self):
        t = getattr(self, '_trk', None)
        if t is None:
            t = self._trk = _build_trackers(self)
        return t

    def live(self):
        l = getattr(self, '_live', None)
        if l is None:
            l = self._live = self.reach([0])
        return l

    def preds(self):
        p = defaultdict(list)
        for a, b in self.edges():
            p[b].append(a)
        return p

    def dominators(self):
        """idom-free simple dominator sets (bodies are small)."""
        n = len(self.blocks)
        reach = self.reach([0])
        dom = {b: set(reach) for b in reach}
        dom[0] = {0}
        preds = self.preds()
        changed = True
        order = sorted(reach)
        while changed:
            changed = False
            for b in order:
                if b == 0:
                    continue
                ps = [p for p in preds[b] if p in reach]
                if not ps:
                    continue
                new = set.intersection(*[dom[p] for p in ps]) | {b}
                if new != dom[b]:
                    dom[b] = new
                    changed = True
        return dom

    # ---- def/use
    def _index(self):
        defs = defaultdict(list)   # local -> [(bb, si|'t', place, rv_or_call)]
        uses = defaultdict(list)   # local -> [(bb, si|'t', how, payload)]
        for bi, b in enumerate(self.blocks):
            if b.cleanup:
                continue
            for si, (line, pl, rv) in enumerate(b.stmts):
                defs[pl[0]].append((bi, si, pl, rv))
                for pe in pl[1]:
                    if isinstance(pe, tuple) and pe[0] == 'i':
                        uses[pe[1]].append((bi, si, 'index', None))
                for (l, place) in rvalue_reads(rv):
                    uses[l].append((bi, si, 'stmt', (pl, rv, place)))
            t = b.term
            if t[0] == 'call':
                c = t[1]
                defs[c.dest[0]].append((bi, 't', c.dest, c))
                for ai, a in enumerate(c.args):
                    if a[0] in ('copy', 'move'):
                        uses[a[1][0]].append((bi, 't', 'arg', (c, ai, a[1])))
                if c.ind is not None and c.ind[0] in ('copy', 'move'):
                    uses[c.ind[1][0]].append((bi, 't', 'callee', (c,)))
            elif t[0] == 'sw':
                if t[1][0] in ('copy', 'move'):
                    uses[t[1][1][0]].append((bi, 't', 'sw', (t, t[1][1])))
            elif t[0] == 'assert':
                if t[1][0] in ('copy', 'move'):
                    uses[t[1][1][0]].append((bi, 't', 'assert', (t,)))
            elif t[0] == 'yield':
                if t[1][0] in ('copy', 'move'):
                    uses[t[1][1][0]].append((bi, 't', 'yield', (t,)))
                defs[t[3][0]].append((bi, 't', t[3], ('yield',)))
            elif t[0] == 'drop':
                uses[t[1][0]].append((bi, 't', 'drop', (t,)))
        self._defs = defs
        self._uses = uses

    def defs(self, l):
        if self._defs is None:
            self._index()
        return self._defs.get(l, [])

    def uses(self, l):
        if self._uses is None:
            self._index()
        return self._uses.get(l, [])


def operand_place(op):
    return op[1] if op[0] in ('copy', 'move') else None


def rvalue_reads(rv):
    """(local, place) pairs read by an rvalue."""
    k = rv[0]
    out = []

    def opnd(o):
        if o[0] in ('copy', 'move'):
            out.append((o[1][0], o[1]))
            for pe in o[1][1]:
                if isinstance(pe, tuple) and pe[0] == 'i':
                    out.append((pe[1], (pe[1], ())))

    if k in ('use', 'rep'):
        opnd(rv[1])
    elif k in ('ref', 'ptr', 'discr', 'cfd'):
        out.append((rv[1][0], rv[1]))
        for pe in rv[1][1]:
            if isinstance(pe, tuple) and pe[0] == 'i':
                out.append((pe[1], (pe[1], ())))
    elif k == 'cast':
        opnd(rv[2])
    elif k == 'bin':
        opnd(rv[2])
        opnd(rv[3])
    elif k == 'un':
        opnd(rv[2])
    elif k == 'agg':
        for o in rv[5]:
            opnd(o)
    return out


# ---------------------------------------------------------------- path sensitivity in one value

_PRESERVING = ('::with_context', '::context', '::map_err', '::inspect_err', '::inspect', '::ok_or', '::ok_or_else', 'Result::map', 'Option::map',
               '::Into>::into', '::From>::from')


class _Tracker:
    """One abstract value followed along a path: 'S' (success variant / true), 'F' (failure variant / false), '?'.
    `members`: locals that hold THE value (a root plus locals whose every definition is a whole move/copy of a
    member); `branch`: locals that are Try::branch(member); `discr`: local -> ('m'|'b') discriminant of a member /
    of a branch result; `cls`: 'result' | 'option' | 'bool'."""

    def __init__(self, cls):
        self.cls = cls
        self.members = set()
        self.via_call = set()       # members defined by a preserving adapter call (their defining call keeps the value)
        self.branch = set()
        self.discr = {}
        self.discr_src = {}
        self.payload_locals = set()     # bool locals that are the success payload of a member / branch result

    def _classify(self, rv):
        if rv[0] == 'use':
            o = rv[1]
            if o[0] in ('copy', 'move') and not o[1][1] and o[1][0] in self.members:
                return None            # unchanged
            if o[0] == 'const' and self.cls == 'bool' and o[3] is not None:
                return 'S' if o[3] else 'F'
            return '?'
        if rv[0] == 'agg' and rv[1] == 'adt':
            ok_variant = None
            if self.cls == 'result' and rv[2] == 'std::result::Result':
                ok_variant = rv[3] == 0
            if self.cls == 'option' and rv[2] == 'std::option::Option':
                ok_variant = rv[3] == 1
            if ok_variant is True:
                # a boolean payload given as a literal: `Ok(false)` / `Some(true)`
                if rv[5] and rv[5][0][0] == 'const' and rv[5][0][2] == 'bool' and rv[5][0][3] is not None:
                    return 'S:T' if rv[5][0][3] else 'S:F'
                return 'S'
            if ok_variant is False:
                return 'F'
        return '?'

    def transfer(self, body, blk, val):
        for (_, pl, rv) in blk.stmts:
            if pl[0] in self.members:
                if pl[1]:
                    val = '?'
                else:
                    v = self._classify(rv)
                    if v is not None:
                        val = v
        t = blk.term
        if t[0] == 'call' and t[1].dest[0] in self.members:
            c = t[1]
            if c.dest[1]:
                val = '?'
            elif c.dest[0] in self.via_call:
                pass
            elif any(n.endswith('::from_residual') for n in c.names()):
                val = 'F'
            elif any(n.endswith('::from_output') for n in c.names()):
                val = 'S'
            else:
                val = '?'
        elif t[0] == 'yield' and t[3][0] in self.members:
            val = '?'
        return val

    def _discr_src(self, body, blk, sl):
        src = self.discr_src.get(sl)
        if src is not None:
            return src
        for (_, pl, rv) in blk.stmts:
            if pl[0] == sl and not pl[1] and rv[0] == 'discr':
                return rv[1][0]
        return None

    def prune(self, body, blk, val):
        """the only feasible successor of blk's switch under val, or None"""
        t = blk.term
        if val == '?' or t[0] != 'sw' or t[1][0] not in ('copy', 'move') or t[1][1][1]:
            return None
        sl = t[1][1][0]
        want = None
        kind = None
        payload = None
        if ':' in val:
            val, payload = val.split(':', 1)
        # the boolean payload of the success variant: `_p = ((_b as Continue).0)` / `((m as Ok).0)`; `switchInt(_p)`
        if payload is not None and val == 'S' and sl in self.payload_locals:
            want = 1 if payload == 'T' else 0
            tgt = None
            for vv, bb in t[2]:
                if vv == want:
                    tgt = bb
            return tgt if tgt is not None else t[3]
        if sl in self.discr:
            kind = self.discr[sl]
        elif self.cls == 'bool' and sl in self.members:
            kind = 'bool'
        else:
            # `_t = copy m; switchInt(move _t)` / `_t = discriminant(m)` in the same block
            for (_, pl, rv) in blk.stmts:
                if pl[0] == sl and not pl[1]:
                    if rv[0] == 'use' and rv[1][0] in ('copy', 'move') and not rv[1][1][1] and rv[1][1][0] in self.members and self.cls == 'bool':
                        kind = 'bool'
                    elif rv[0] == 'discr' and not rv[1][1] and rv[1][0] in self.members:
                        kind = 'm'
                    elif rv[0] == 'discr' and not rv[1][1] and rv[1][0] in self.branch:
                        kind = 'b'
                    else:
                        kind = None
        if kind is None:
            return None
        if kind == 'bool':
            want = 1 if val == 'S' else 0
        elif kind == 'b':
            want = 0 if val == 'S' else 1          # ControlFlow::Continue = 0, Break = 1
        elif kind == 'm':
            ty = body.lty(self._discr_src(body, blk, sl)) if self._discr_src(body, blk, sl) is not None else ''
            ty = ty.lstrip('&').replace('mut ', '')
            if ty.startswith('std::result::Result<'):
                want = 0 if val == 'S' else 1
            elif ty.startswith('std::option::Option<'):
                want = 1 if val == 'S' else 0
            else:
                return None
        tgt = None
        for vv, bb in t[2]:
            if vv == want:
                tgt = bb
        return tgt if tgt is not None else t[3]


def _build_trackers(body):
    out = []
    roots = []
    # (1) boolean flags assigned a constant on some path and tested by a switch
    tested = set()
    for b in body.blocks:
        if not b.cleanup and b.term[0] == 'sw' and b.term[1][0] in ('copy', 'move') and not b.term[1][1][1] \
                and body.lty(b.term[1][1][0]) == 'bool':
            tested.add(b.term[1][1][0])
            for (_, pl, rv) in b.stmts:
                if pl[0] == b.term[1][1][0] and not pl[1] and rv[0] == 'use' and rv[1][0] in ('copy', 'move') and not rv[1][1][1]:
                    tested.add(rv[1][1][0])
    cl = body.const_locals()
    for v in sorted(tested):
        if v in cl:
            continue
        has_const = any(pl[0] == v and not pl[1] and rv[0] == 'use' and rv[1][0] == 'const' and rv[1][3] is not None
                        for b in body.blocks for (_, pl, rv) in b.stmts)
        if has_const:
            roots.append((v, 'bool'))
    # (2) the value returned by a spliced (inlined) fallible helper
    for (lo, ret_ty) in getattr(body, 'inl', ()):
        if ret_ty.startswith('std::result::Result<'):
            roots.append((lo, 'result'))
        elif ret_ty.startswith('std::option::Option<'):
            roots.append((lo, 'option'))
        elif ret_ty == 'bool':
            roots.append((lo, 'bool'))
    if not roots:
        return out
    # whole-local move/copy definitions
    defs_by = defaultdict(list)
    for b in body.blocks:
        for (_, pl, rv) in b.stmts:
            if not pl[1]:
                defs_by[pl[0]].append(rv)
            else:
                defs_by[pl[0]].append(('partial',))
        t = b.term
        if t[0] == 'call':
            defs_by[t[1].dest[0]].append(('call', t[1]))
        elif t[0] == 'yield':
            defs_by[t[3][0]].append(('yield',))
    for root, cls in roots:
        tr = _Tracker(cls)
        tr.members = {root}
        changed = True
        while changed:
            changed = False
            for l, ds in defs_by.items():
                if l in tr.members or l <= body.argc:
                    continue
                if ds and all(d[0] == 'use' and d[1][0] in ('copy', 'move') and not d[1][1][1] and d[1][1][0] in tr.members for d in ds):
                    tr.members.add(l)
                    changed = True
                elif len(ds) == 1 and ds[0][0] == 'call' and cls != 'bool':
                    # success/failure preserving result adapters: x.with_context(..), x.map_err(..), opt.ok_or(..) ...
                    c = ds[0][1]
                    if not c.dest[1] and c.args and c.args[0][0] in ('copy', 'move') and not c.args[0][1][1] and c.args[0][1][0] in tr.members \
                            and any(n.endswith(_PRESERVING) for n in c.names()):
                        tr.members.add(l)
                        tr.via_call.add(l)
                        changed = True
        for l, ds in defs_by.items():
            if len(ds) == 1 and ds[0][0] == 'call':
                c = ds[0][1]
                if not c.dest[1] and c.args and c.args[0][0] in ('copy', 'move') and not c.args[0][1][1] and c.args[0][1][0] in tr.members \
                        and any(n.endswith('::Try>::branch') or n.endswith('::Try::branch') for n in c.names()):
                    tr.branch.add(l)
        for l, ds in defs_by.items():
            if body.lty(l) == 'bool' and ds and all(d[0] == 'use' and d[1][0] in ('copy', 'move') and d[1][1][0] in (tr.members | tr.branch)
                                                     and any(isinstance(pe, tuple) and pe[0] == 'd' for pe in d[1][1][1])
                                                     and any(isinstance(pe, tuple) and pe[0] == 'f' for pe in d[1][1][1]) for d in ds):
                tr.payload_locals.add(l)
        grew = True
        while grew:
            grew = False
            for l, ds in defs_by.items():
                if l not in tr.payload_locals and body.lty(l) == 'bool' and ds and all(
                        d[0] == 'use' and d[1][0] in ('copy', 'move') and not d[1][1][1] and d[1][1][0] in tr.payload_locals for d in ds):
                    tr.payload_locals.add(l)
                    grew = True
        for l, ds in defs_by.items():
            if len(ds) == 1 and ds[0][0] == 'discr' and not ds[0][1][1]:
                if ds[0][1][0] in tr.members:
                    tr.discr[l] = 'm'
                    tr.discr_src[l] = ds[0][1][0]
                elif ds[0][1][0] in tr.branch:
                    tr.discr[l] = 'b'
        out.append(tr)
    return out


# ---------------------------------------------------------------- units / functions

class Fn:
    def __init__(self, unit, d):
        S = unit.strs
        self.unit = unit
        self.d = d
        self.i = d['i']
        self.name = S[d['n']]
        self.kind = d['k']
        self.par_i = d['par']
        self.parent = None
        self.children = []
        self.vis = d['vis']
        self.reach = bool(d['reach'])
        self.file = S[d['file']]
        self.l0 = d['l0']
        self.l1 = d['l1']
        self.exp = bool(d['exp'])
        self.argc = d['argc']
        self.cor = bool(d['cor'])
        self.ret = S[d['ret']]
        self.nb = d['nb']
        self._body = None
        self._calls = None

    @property
    def body(self):
        if self._body is None:
            with open(self.unit.mir_path, 'rb') as f:
                f.seek(self.d['off'])
                raw = json.loads(f.read(self.d['len']))
            self._body = Body(self, raw)
        return self._body

    @property
    def calls(self):
        """[(callee, resolved, line)] from the index (no body load)."""
        if self._calls is None:
            S = self.unit.strs
            self._calls = [(S[c], S[r] if r is not None else None, l) for c, r, l in self.d['calls']]
        return self._calls

    @property
    def aggs(self):
        S = self.unit.strs
        return [(S[a], v) for a, v in self.d['aggs']]

    @property
    def fwrites(self):
        S = self.unit.strs
        return [(S[a], f) for a, f in self.d['fw']]

    def root(self):
        f = self
        while f.parent is not None:
            f = f.parent
        return f

    def family(self):
        """This fn and all closures/coroutines nested in it."""
        out = [self]
        for c in self.children:
            out.extend(c.family())
        return out

    def logic(self):
        """The body that holds the fn's logic: for `async fn` / #[async_trait] methods this is the
        coroutine closure built by the outer fn; otherwise the fn itself."""
        cors = [c for c in self.children if c.cor]
        if len(cors) == 1 and self.nb <= 12:
            return cors[0]
        return self

    def loc(self):
        return '%s:%d' % (self.file, self.l0)

    def __repr__(self):
        return 'Fn(%s)' % self.name


_STD_RE = re.compile(r'\b(?:core|alloc)::')


def norm_std(s):
    """Real def paths name std items by their defining crate (core/alloc); fold them to `std::`
    so tables can be written with one spelling."""
    if 'core::' in s or 'alloc::' in s:
        return _STD_RE.sub('std::', s)
    return s


class Unit:
    def __init__(self, idx_path):
        with open(idx_path) as f:
            raw = f.read()
        raw = _STD_RE.sub('std::', raw)
        d = json.loads(raw)
        self.crate = d['crate']
        self.tag = d['type']
        self.strs = d['strs']
        self.stolen = d.get('stolen_fns', [])
        self.mir_path = idx_path[:-len('.idx.json')] + '.mir.jsonl'
        self.fns = [Fn(self, x) for x in d['fns']]
        by_i = {f.i: f for f in self.fns}
        for f in self.fns:
            if f.par_i is not None and f.par_i in by_i:
                f.parent = by_i[f.par_i]
                f.parent.children.append(f)
        self.adts = {a['n']: a for a in d['adts']}
        self.impls = d['impls']
        self.consts = {c['n']: c for c in d['consts']}
        self.fmt = d['fmt']


PATTERN_LOG = None      # when a set: every pattern tested is recorded (used to learn a module's named sinks)


def glob_match(pat, s):
    if PATTERN_LOG is not None:
        PATTERN_LOG.add(pat)
    if '*' not in pat:
        return pat == s
    return _glob_re(pat).match(s) is not None


_GLOB_CACHE = {}


def _glob_re(pat):
    r = _GLOB_CACHE.get(pat)
    if r is None:
        r = re.compile('^' + '.*'.join(re.escape(x) for x in pat.split('*')) + '$')
        _GLOB_CACHE[pat] = r
    return r


def match_any(pats, s):
    if isinstance(pats, str):
        pats = [pats]
    return any(glob_match(p, s) for p in pats)


class Workspace:
    def __init__(self, facts_dir, tags=('lib', 'bin')):
        self.dir = facts_dir
        self.units = []
        for p in sorted(glob.glob(os.path.join(facts_dir, '*.idx.json'))):
            u = Unit(p)
            if u.tag in tags:
                self.units.append(u)
        self.fns = [f for u in self.units for f in u.fns]
        self.by_name = defaultdict(list)
        for f in self.fns:
            self.by_name[f.name].append(f)
        self.adts = {}
        for u in self.units:
            for n, a in u.adts.items():
                self.adts.setdefault(n, a)
        self.consts = {}
        for u in self.units:
            for n, c in u.consts.items():
                self.consts.setdefault(n, c)
        self._callers = None

    # ---- lookup
    def find_all(self, pat):
        if PATTERN_LOG is not None:
            PATTERN_LOG.add(pat)
        if '*' not in pat:
            return list(self.by_name.get(pat, []))
        out = []
        r = _glob_re(pat)
        for n, fs in self.by_name.items():
            if r.match(n):
                out.extend(fs)
        return out

    def find(self, pat):
        """Exactly one definition (lib units preferred), else AnchorMissing."""
        fs = self.find_all(pat)
        if len(fs) > 1:
            libs = [f for f in fs if f.unit.tag == 'lib']
            if len(libs) >= 1:
                fs = libs
        if len(fs) != 1:
            raise AnchorMissing('anchor %r resolves to %d definitions%s' % (
                pat, len(fs), (': ' + ', '.join(f.name for f in fs[:5])) if fs else ''))
        return fs[0]

    def adt(self, pat):
        if '*' not in pat:
            a = self.adts.get(pat)
            if a is None:
                raise AnchorMissing('ADT %r not found' % pat)
            return a
        ms = [a for n, a in self.adts.items() if glob_match(pat, n)]
        if len(ms) != 1:
            raise AnchorMissing('ADT %r resolves to %d definitions' % (pat, len(ms)))
        return ms[0]

    def const(self, pat):
        ms = [c for n, c in self.consts.items() if glob_match(pat, n)]
        if len(ms) != 1:
            raise AnchorMissing('const %r resolves to %d definitions' % (pat, len(ms)))
        return ms[0]

    # ---- whole-workspace call index
    def callers(self):
        """callee name -> [(Fn, line)] over both the written callee and the resolved instance."""
        if self._callers is None:
            m = defaultdict(list)
            for f in self.fns:
                for c, r, l in f.calls:
                    m[c].append((f, l))
                    if r is not None and r != c:
                        m[r].append((f, l))
            self._callers = m
        return self._callers

    def callers_of(self, pats):
        out = []
        cs = self.callers()
        if isinstance(pats, str):
            pats = [pats]
        if PATTERN_LOG is not None:
            PATTERN_LOG.update(pats)
        for p in pats:
            if '*' not in p:
                out.extend(cs.get(p, []))
            else:
                r = _glob_re(p)
                for n, lst in cs.items():
                    if r.match(n):
                        out.extend(lst)
        # dedupe
        seen = set()
        res = []
        for f, l in out:
            k = (id(f), l)
            if k not in seen:
                seen.add(k)
                res.append((f, l))
        return res

    def constructors_of(self, adt_pat, variant=None):
        out = []
        for f in self.fns:
            for a, v in f.aggs:
                if glob_match(adt_pat, a) and (variant is None or v == variant):
                    out.append(f)
                    break
        return out

    def impls_of_trait_method(self, trait_pat, method):
        """All workspace impl fns of `trait::method`."""
        out = []
        for u in self.units:
            for im in u.impls:
                if im['trait'] and glob_match(trait_pat, im['trait']):
                    for n, canon in im['items']:
                        if n == method:
                            out.extend(self.by_name.get(canon, []))
        return out
