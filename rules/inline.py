"""Virtual inlining of workspace helpers (fact level).

A rule is stated against a public entry point; where the code under it is split into private
helpers is a matter of taste that refactorings change freely.  `inlined(fn, ws)` returns a view of
`fn` whose body has the bodies of the same-crate functions it calls spliced in (transitively, up
to a depth / size bound): parameters become assignments from the arguments, `return` becomes an
assignment to the call's destination followed by a jump to the call's target.  All intra-procedural
machinery (CFG, guards, origins, reachability, ordering) then sees one body, whatever the helper
structure.  Closures / coroutines nested in inlined helpers join the view's family, themselves
inlined, with the view as their parent (capture translation keeps working because the
`Aggregate(Closure)` statement is part of the spliced body).

Not inlined: functions of other crates and functions exported by the crate (API: stable, named by rules), functions matching the
`keep` patterns of the rule module (its named sinks), recursive calls, calls whose argument count
does not match (spread arguments), indirect and unresolved trait calls.  `async fn` helpers are not
spliced (their body runs when the returned future is polled): the engine crosses those through
`.await` adapters (must-pass-through summaries) and `deep_origins`.
"""
from core import Body, Block, Call, glob_match

MAX_BLOCKS = 6000
MAX_DEPTH = 6


def _sh_place(p, lo):
    proj = p[1]
    if any(isinstance(e, tuple) and e[0] == 'i' for e in proj):
        proj = tuple(('i', e[1] + lo) + tuple(e[2:]) if isinstance(e, tuple) and e[0] == 'i' else e for e in proj)
    return (p[0] + lo, proj)


def _sh_op(o, lo):
    if o[0] in ('copy', 'move'):
        return (o[0], _sh_place(o[1], lo))
    return o


def _sh_rv(rv, lo):
    k = rv[0]
    if k in ('use', 'rep'):
        return (k, _sh_op(rv[1], lo))
    if k == 'ref':
        return ('ref', _sh_place(rv[1], lo), rv[2])
    if k in ('ptr', 'discr', 'cfd'):
        return (k, _sh_place(rv[1], lo))
    if k == 'cast':
        return ('cast', rv[1], _sh_op(rv[2], lo), rv[3])
    if k == 'bin':
        return ('bin', rv[1], _sh_op(rv[2], lo), _sh_op(rv[3], lo))
    if k == 'un':
        return ('un', rv[1], _sh_op(rv[2], lo))
    if k == 'agg':
        return ('agg', rv[1], rv[2], rv[3], rv[4], [_sh_op(x, lo) for x in rv[5]])
    return rv


def _sh_bb(b, bo):
    return b + bo if isinstance(b, int) and b >= 0 else b


def _sh_term(t, lo, bo, bb):
    k = t[0]
    if k == 'goto':
        return ('goto', _sh_bb(t[1], bo))
    if k == 'sw':
        return ('sw', _sh_op(t[1], lo), [(v, _sh_bb(b, bo)) for v, b in t[2]], _sh_bb(t[3], bo))
    if k == 'drop':
        return ('drop', _sh_place(t[1], lo), _sh_bb(t[2], bo), _sh_bb(t[3], bo))
    if k == 'call':
        c = t[1]
        n = Call()
        n.line, n.callee, n.gargs, n.resolved, n.is_trait = c.line, c.callee, c.gargs, c.resolved, c.is_trait
        n.args = [_sh_op(a, lo) for a in c.args]
        n.dest = _sh_place(c.dest, lo)
        n.target = _sh_bb(c.target, bo)
        n.unwind = _sh_bb(c.unwind, bo)
        n.ind = _sh_op(c.ind, lo) if c.ind is not None else None
        n.bb = bb
        return ('call', n)
    if k == 'assert':
        return ('assert', _sh_op(t[1], lo), t[2], t[3], _sh_bb(t[4], bo), _sh_bb(t[5], bo), t[6])
    if k == 'yield':
        return ('yield', _sh_op(t[1], lo), _sh_bb(t[2], bo), _sh_place(t[3], lo), _sh_bb(t[4], bo))
    if k == 'fe':
        return ('fe', _sh_bb(t[1], bo), _sh_bb(t[2], bo))
    if k == 'fu':
        return ('fu', _sh_bb(t[1], bo), _sh_bb(t[2], bo))
    return t


class InlinedFn:
    """View of a Fn with an inlined body; everything else is delegated to the original."""

    def __init__(self, orig, body, parent=None):
        self._orig = orig
        self._ibody = body
        self._iparent = parent
        self._ifamily = None
        self.inlined_fns = []      # Fn objects spliced in (for reporting / family)

    def __getattr__(self, k):
        return getattr(self._orig, k)

    @property
    def body(self):
        return self._ibody

    @property
    def parent(self):
        return self._iparent if self._iparent is not None else self._orig.parent

    def root(self):
        f = self
        while f.parent is not None:
            f = f.parent
        return f

    def family(self):
        return self._ifamily if self._ifamily is not None else [self]

    def logic(self):
        # the coroutine child of an async fn, inlined as part of the family
        if self._orig.cor or not self._orig.children:
            return self
        lo = self._orig.logic()
        for g in self.family():
            if getattr(g, '_orig', g) is lo:
                return g
        return self

    def loc(self):
        return self._orig.loc()

    def __repr__(self):
        return 'Inlined(%s, +%d fns)' % (self._orig.name, len(self.inlined_fns))


def _callee(ws, fn, c, keep, stack):
    if c.ind is not None:
        return None
    name = c.resolved or c.callee
    if not name or (c.is_trait and not c.resolved):
        return None
    cands = ws.by_name.get(name, [])
    if len(cands) != 1:
        return None
    g = cands[0]
    if g.unit.crate != fn.unit.crate or g.unit.tag != fn.unit.tag:
        return None
    if g.kind not in ('fn', 'assoc_fn'):
        return None
    if g.reach:
        return None        # part of the crate's exported API: a stable, nameable definition - only internal helpers are spliced
    if g.cor or (any(ch.cor for ch in g.children) and ('Future' in g.ret or 'oroutine' in g.ret)):
        return None        # async fn / async_trait wrapper: its logic runs when the future is polled
    if any(glob_match(p, name) for p in keep):
        return None
    if any(g is s for s in stack):
        return None
    if g.argc != len(c.args):
        return None
    return g


def _splice(ws, top, body_blocks, locals_, fn, keep, depth, stack, inlined, budget, top_inl):
    """Inline calls found in body_blocks[start:] in place (appending callee blocks)."""
    bi = 0
    while bi < len(body_blocks):
        b = body_blocks[bi]
        t = b.term
        if t[0] == 'call' and depth < MAX_DEPTH and len(body_blocks) < budget:
            c = t[1]
            owner = b.owner
            g = _callee(ws, owner, c, keep, b.stack)
            if g is not None and len(b.stack) < MAX_DEPTH:
                gb = g.body
                lo = len(locals_)
                bo = len(body_blocks)
                locals_.extend(gb.locals)
                for i in range(1, g.argc + 1):
                    b.stmts.append((c.line, (lo + i, ()), ('use', c.args[i - 1])))
                b.term = ('goto', bo)
                b.inlined_call = c
                nstack = b.stack + (g,)
                for gi, gblk in enumerate(gb.blocks):
                    nb = Block()
                    nb.stmts = [(ln, _sh_place(pl, lo), _sh_rv(rv, lo)) for (ln, pl, rv) in gblk.stmts]
                    nb.cleanup = gblk.cleanup
                    nb.owner = g
                    nb.stack = nstack
                    nb.inlined_call = None
                    gt = gblk.term
                    if gt[0] == 'ret':
                        nb.stmts.append((c.line, c.dest, ('use', ('move', (lo, ())))))
                        nb.term = ('goto', c.target) if c.target is not None else ('unr',)
                    elif gt[0] == 'res':
                        nb.term = ('goto', c.unwind) if isinstance(c.unwind, int) and c.unwind >= 0 else ('res',)
                    else:
                        nb.term = _sh_term(gt, lo, bo, bo + gi)
                    body_blocks.append(nb)
                inlined.append((g, lo))
                top_inl.append((lo, g.ret))
        bi += 1


_CACHE = {}


def inlined(fn, ws, keep=()):
    """InlinedFn view of fn (and of its nested closures / coroutines), cached per (fn, keep)."""
    if isinstance(fn, InlinedFn):
        return fn
    root = fn.root()
    key = (id(root), tuple(keep))
    fam = _CACHE.get(key)
    if fam is None:
        fam = _build_family(root, ws, tuple(keep))
        _CACHE[key] = fam
    for g in fam:
        if g._orig is fn:
            return g
    return fam[0]


def _inline_one(orig, ws, keep):
    ob = orig.body
    locals_ = list(ob.locals)
    blocks = []
    for bi, blk in enumerate(ob.blocks):
        nb = Block()
        nb.stmts = list(blk.stmts)
        nb.term = blk.term
        nb.cleanup = blk.cleanup
        nb.owner = orig
        nb.stack = (orig.root(),)
        nb.inlined_call = None
        blocks.append(nb)
    spliced = []
    inl = []
    _splice(ws, orig, blocks, locals_, orig, keep, 0, (orig,), spliced, MAX_BLOCKS, inl)
    body = Body.__new__(Body)
    body.fn = orig
    body.locals = locals_
    body.blocks = blocks
    body.argc = orig.argc
    body._succ = None
    body._defs = None
    body._uses = None
    body._const_locals = None
    body.inl = inl
    # call terminators carry their block index
    for bi, blk in enumerate(blocks):
        if blk.term[0] == 'call':
            blk.term[1].bb = bi
    return body, spliced


def _build_family(root, ws, keep):
    """Inlined views of root and of every closure / coroutine nested in root or in a spliced helper."""
    out = []
    seen = set()

    def build(orig, parent_view):
        if id(orig) in seen:
            return
        seen.add(id(orig))
        body, spliced = _inline_one(orig, ws, keep)
        v = InlinedFn(orig, body, parent_view)
        v.inlined_fns = [g for g, _ in spliced]
        body.fn = v
        out.append(v)
        # own closures, then closures of the spliced helpers (their captures live in v's body)
        for ch in orig.children:
            build(ch, v)
        for g, _lo in spliced:
            for ch in g.children:
                build(ch, v)

    build(root, None)
    for v in out:
        v._ifamily_all = out
    # family of a view = itself + views whose parent chain reaches it
    for v in out:
        fam = [v]
        for w in out:
            p = w._iparent
            while p is not None:
                if p is v:
                    fam.append(w)
                    break
                p = p._iparent
        v._ifamily = fam
    return out
