"""Shared plumbing of the checks: fact freshness, findings, known findings, evidence."""
import fcntl
import hashlib
import json
import os
import shutil
import subprocess
import sys
import time

VERIF = os.path.dirname(os.path.dirname(os.path.abspath(__file__)))
REPO = os.environ.get('MVS_REPO', '/repo')
CACHE = os.path.join(VERIF, '.cache')
DRIVER = os.path.join(VERIF, 'driver', 'target', 'release', 'mvs-driver')
TARGET = os.path.join(CACHE, 'target')
SCRATCH_MODE = 'MVS_REPO' in os.environ and os.path.realpath(os.environ['MVS_REPO']) != '/repo'

# workspace crate units that must be present in the fact base (lib units of the crates any rule
# table names; the full list is asserted as a floor on the number of units)
REQUIRED_UNITS = [
    'mithril_stm.lib', 'mithril_common.lib', 'mithril_aggregator.lib', 'mithril_signer.lib',
    'mithril_client.lib', 'mithril_client_cli.lib', 'mithril_merkle_tree.lib',
    'mithril_resource_pool.lib', 'mithril_persistence.lib', 'mithril_cardano_node_chain.lib',
    'mithril_cardano_node_internal_database.lib', 'mithril_signed_entity_lock.lib',
    'mithril_ticker.lib', 'mithril_era.lib', 'mithril_dmq.lib', 'mithril_protocol_config.lib',
]
MIN_UNITS = 36


def tree_hash(repo=REPO):
    """SHA-256 over (path, content) of every build input of the workspace."""
    h = hashlib.sha256()
    files = []
    skip_dirs = {'target', '.git', 'docs', 'node_modules', 'mithril-explorer', 'mithril-infra'}
    for root, dirs, fs in os.walk(repo):
        dirs[:] = sorted(d for d in dirs if d not in skip_dirs)
        for f in fs:
            if f.endswith('.rs') or f in ('Cargo.toml', 'Cargo.lock', 'build.rs') or f.startswith('rust-toolchain'):
                files.append(os.path.join(root, f))
    files.sort()
    for p in files:
        h.update(os.path.relpath(p, repo).encode())
        h.update(b'\0')
        try:
            with open(p, 'rb') as f:
                h.update(hashlib.sha256(f.read()).digest())
        except OSError:
            h.update(b'?')
    # the driver itself is part of the key
    try:
        with open(os.path.join(VERIF, 'driver', 'src', 'main.rs'), 'rb') as f:
            h.update(hashlib.sha256(f.read()).digest())
    except OSError:
        pass
    return h.hexdigest()[:24], len(files)


def nightly_sysroot():
    return subprocess.check_output(['rustc', '+nightly', '--print', 'sysroot'], text=True).strip()


def build_driver():
    env = dict(os.environ, CARGO_NET_OFFLINE='true')
    r = subprocess.run(['cargo', '+nightly', 'build', '--release', '--offline'],
                       cwd=os.path.join(VERIF, 'driver'), env=env,
                       stdout=subprocess.PIPE, stderr=subprocess.STDOUT, text=True)
    if r.returncode != 0 or not os.path.exists(DRIVER):
        sys.stdout.write(r.stdout[-4000:])
        raise SystemExit('driver build failed')


def ensure_facts(verbose=True):
    """Facts for the current /repo working tree; re-derived whenever the tree hash changes."""
    os.makedirs(CACHE, exist_ok=True)
    t0 = time.time()
    th, nfiles = tree_hash()
    # variants analysed by the sensitivity step live apart so that they never evict /repo's facts
    fbase = os.path.join(CACHE, 'facts-scratch' if SCRATCH_MODE else 'facts')
    fdir = os.path.join(fbase, th)
    if SCRATCH_MODE and os.path.exists(os.path.join(CACHE, 'facts', th, '.complete')):
        fdir = os.path.join(CACHE, 'facts', th)     # identical tree content: identical facts
    marker = os.path.join(fdir, '.complete')
    if os.path.exists(marker):
        return fdir, th, {'reused': True, 'hash_s': round(time.time() - t0, 2), 'files_hashed': nfiles}
    lock = open(os.path.join(CACHE, 'analysis.lock'), 'w')
    fcntl.flock(lock, fcntl.LOCK_EX)
    try:
        if os.path.exists(marker):
            return fdir, th, {'reused': True, 'hash_s': round(time.time() - t0, 2), 'files_hashed': nfiles}
        src = os.path.join(VERIF, 'driver', 'src', 'main.rs')
        if not os.path.exists(DRIVER) or os.path.getmtime(src) > os.path.getmtime(DRIVER):
            build_driver()
        if os.path.isdir(fdir):
            shutil.rmtree(fdir)
        os.makedirs(fdir)
        # cargo's mtime-based freshness is not trusted: wipe the members' fingerprints so the
        # wrapper is re-invoked for every workspace crate (third-party artefacts stay warm)
        fp = os.path.join(TARGET, 'debug', '.fingerprint')
        if os.path.isdir(fp):
            members = workspace_member_names()
            for d in os.listdir(fp):
                base = d.rsplit('-', 1)[0]
                if base in members:
                    shutil.rmtree(os.path.join(fp, d), ignore_errors=True)
        env = dict(os.environ)
        env.update({
            'LD_LIBRARY_PATH': nightly_sysroot() + '/lib' + (':' + env['LD_LIBRARY_PATH'] if env.get('LD_LIBRARY_PATH') else ''),
            'CARGO_NET_OFFLINE': 'true',
            'CARGO_TARGET_DIR': TARGET,
            'RUSTFLAGS': '-Awarnings',
            'MVS_FACTS_DIR': fdir,
            'RUSTC_WORKSPACE_WRAPPER': DRIVER,
        })
        env.pop('RUSTC_WRAPPER', None)
        t1 = time.time()
        r = subprocess.run(['cargo', '+nightly', 'check', '--offline', '--workspace', '--lib', '--bins'],
                           cwd=REPO, env=env, stdout=subprocess.PIPE, stderr=subprocess.STDOUT, text=True)
        if r.returncode != 0:
            tail = '\n'.join(l for l in r.stdout.splitlines() if 'Checking' not in l and 'Compiling' not in l)[-6000:]
            sys.stdout.write(tail + '\n')
            print('ANALYSIS-FAILED: the workspace does not type-check under the analysis build (exit %d)' % r.returncode)
            shutil.rmtree(fdir, ignore_errors=True)
            raise SystemExit(2)
        units = sorted(f[:-len('.idx.json')] for f in os.listdir(fdir) if f.endswith('.idx.json'))
        missing = [u for u in REQUIRED_UNITS if u not in units]
        if missing or len(units) < MIN_UNITS:
            print('ANALYSIS-INCOMPLETE: fact files missing for %s (%d units)' % (missing, len(units)))
            shutil.rmtree(fdir, ignore_errors=True)
            raise SystemExit(2)
        with open(marker, 'w') as f:
            json.dump({'tree': th, 'units': units, 'analysis_s': round(time.time() - t1, 1)}, f)
        prune_old_facts(fbase, keep=th, n=1 if SCRATCH_MODE else 4)
        return fdir, th, {'reused': False, 'analysis_s': round(time.time() - t1, 1), 'files_hashed': nfiles}
    finally:
        fcntl.flock(lock, fcntl.LOCK_UN)
        lock.close()


def workspace_member_names():
    names = set()
    try:
        out = subprocess.check_output(['cargo', 'metadata', '--offline', '--no-deps', '--format-version', '1'],
                                      cwd=REPO, text=True, stderr=subprocess.DEVNULL)
        for p in json.loads(out)['packages']:
            names.add(p['name'])
            for t in p['targets']:
                names.add(t['name'])
    except Exception:
        pass
    return names


def prune_old_facts(base, keep, n=4):
    ds = [d for d in os.listdir(base) if os.path.isdir(os.path.join(base, d)) and d != keep]
    ds.sort(key=lambda d: os.path.getmtime(os.path.join(base, d)))
    for d in ds[:-n] if len(ds) > n else []:
        shutil.rmtree(os.path.join(base, d), ignore_errors=True)


# ---------------------------------------------------------------- findings / report

class Report:
    def __init__(self, prop, tier):
        self.prop = prop
        self.tier = tier
        self.clauses = {}          # clause id -> description
        self.obligations = []      # dicts: clause, rule, instance, status, detail, loc, key
        self.infos = []
        self.anchor_missing = []

    def clause(self, cid, desc):
        self.clauses[cid] = desc

    def ok(self, clause, rule, instance, detail='', loc=None, nontrivial=True):
        self.obligations.append({'clause': clause, 'rule': rule, 'instance': instance, 'status': 'holds',
                                 'detail': detail, 'loc': loc, 'nontrivial': nontrivial})

    def violation(self, clause, rule, instance, key, msg, loc=None):
        self.obligations.append({'clause': clause, 'rule': rule, 'instance': instance, 'status': 'violated',
                                 'detail': msg, 'loc': loc, 'key': '%s|%s|%s' % (clause, rule, key),
                                 'nontrivial': True})

    def info(self, clause, msg):
        self.infos.append({'clause': clause, 'msg': msg})

    def missing(self, clause, what):
        self.anchor_missing.append({'clause': clause, 'what': str(what)})


def load_known_findings():
    p = os.path.join(VERIF, 'known_findings.json')
    if not os.path.exists(p):
        return []
    with open(p) as f:
        return json.load(f)['findings']


def finish(report, ws, meta, t0, seed):
    """Apply known findings, write evidence, print the verdict lines, return the exit code."""
    prop = report.prop
    # floor: a clause that evaluated nothing decided nothing (its rules were all vacuous on this tree) - no verdict rather than a pass
    for cid in sorted(report.clauses):
        if not any(o['clause'] == cid for o in report.obligations) and not any(m['clause'] == cid for m in report.anchor_missing):
            report.missing(cid, 'no obligation was evaluated for this clause (%s): its rules found nothing to apply to' % report.clauses[cid][:80])
    known = [k for k in load_known_findings() if k['property'] == prop and k.get('status') == 'open']
    known_keys = {k['key']: k for k in known}
    viol = [o for o in report.obligations if o['status'] == 'violated']
    new = [o for o in viol if o['key'] not in known_keys]
    matched = [o for o in viol if o['key'] in known_keys]
    holds = [o for o in report.obligations if o['status'] == 'holds']

    os.makedirs(os.path.join(VERIF, 'evidence'), exist_ok=True)
    replay_path = None
    if new and os.environ.get('MVS_NO_EVIDENCE'):
        replay_path = '(selftest)'
    elif new:
        os.makedirs(os.path.join(VERIF, 'evidence', 'replay'), exist_ok=True)
        replay_path = os.path.join(VERIF, 'evidence', 'replay', '%s.json' % prop)
        with open(replay_path, 'w') as f:
            json.dump({'property': prop, 'tree': meta.get('tree'), 'violations': new}, f, indent=1)

    distinct = len({(o['clause'], o['rule'], o['instance']) for o in report.obligations if o.get('nontrivial')})
    samples = []
    for o in (new + matched + holds)[:0] + new[:5] + matched[:3] + holds[:8]:
        samples.append({k: o.get(k) for k in ('clause', 'rule', 'instance', 'status', 'detail', 'loc')})
    ev = {
        'property_id': prop,
        'tier': report.tier,
        'seed': seed,
        'level': 'other',
        'coverage': {
            'explanation': meta.get('explanation', ''),
            'clauses': report.clauses,
            'evaluations': len(report.obligations),
            'distinct_nontrivial': distinct,
            'rule': 'one evaluation per rule instance (clause, rule kind, anchor/sink/site) over the '
                    'type-checked MIR of the current tree; non-trivial = the instance has a located anchor '
                    'body and at least one concrete site/path that was examined',
            'obligations': len(report.obligations),
            'discharged': len(holds),
            'violated_new': len(new),
            'known_findings_matched': [o['key'] for o in matched],
            'anchor_missing': report.anchor_missing,
            'samples': samples,
            'all_obligations': [{k: o.get(k) for k in ('clause', 'rule', 'instance', 'status', 'loc')}
                                for o in report.obligations],
            'informational': report.infos[:60],
            'crates_analysed': len(ws.units) if ws else 0,
            'functions_analysed': len(ws.fns) if ws else 0,
            'facts': meta.get('facts'),
            'tree': meta.get('tree'),
            'exhaustive': True,
            'checker_cmd': './check %s %s' % (prop, report.tier),
            'trusted_base': ['rustc nightly front-end + MIR construction', 'driver/ (fact extraction)',
                             'rules/ (rule engine and tables)'],
        },
        'assumptions': meta.get('assumptions', []),
        'wall_s': round(time.time() - t0, 2),
        'violations': len(new),
    }
    sens = meta.get('sensitivity')
    if sens is not None:
        ev['coverage']['checker_sensitivity'] = {
            'what': 'thorough tier only: every recorded semantic mutation, behaviour-preserving edit and kept seeded '
                    'change of this property applied (one at a time) to a scratch copy of the current tree and '
                    're-analysed with the same driver and rules; never affects the verdict on /repo',
            'mutations_applied': sens['mutations'], 'mutations_fired': sens['fired'],
            'seeded_changes_applied': sens['seeds'], 'seeded_changes_fired': sens['seeds_fired'],
            'benign_edits_applied': sens['benign'], 'benign_edits_silent': sens['silent'],
            'stale_skipped': sens['stale'], 'missed': sens['missed'], 'documented_misses': sens.get('documented_misses', []), 'false_alarms': sens['false_alarms'],
            'variants': sens['variants'],
        }
        ev['coverage']['programs'] = 1 + sens['mutations'] + sens['seeds'] + sens['benign']
    if not os.environ.get('MVS_NO_EVIDENCE'):
        with open(os.path.join(VERIF, 'evidence', '%s.json' % prop), 'w') as f:
            json.dump(ev, f, indent=1)

    print('[%s %s] tree=%s units=%d fns=%d obligations=%d holds=%d known=%d new-violations=%d wall=%.1fs' % (
        prop, report.tier, meta.get('tree'), len(ws.units) if ws else 0, len(ws.fns) if ws else 0,
        len(report.obligations), len(holds), len(matched), len(new), time.time() - t0))
    for o in holds:
        print('  ok    %-6s %-5s %s' % (o['clause'], o['rule'], o['instance']))
    for o in matched:
        print('KNOWN-FINDING: property=%s %s' % (prop, known_keys[o['key']]['what']))
    for m in report.anchor_missing:
        print('ANCHOR-MISSING property=%s clause=%s %s' % (prop, m['clause'], m['what']))
    for o in new:
        print('  FAIL  %-6s %-5s %s\n        %s\n        at %s\n        key=%s' % (
            o['clause'], o['rule'], o['instance'], o['detail'], o['loc'], o['key']))
    if new:
        print('VIOLATION property=%s replay=%s' % (prop, replay_path))
        return 1
    if report.anchor_missing:
        return 2
    return 0
