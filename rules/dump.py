#!/usr/bin/env python3
"""Debug aid: pretty-print the reduced MIR of functions matching a glob.
usage: dump.py <facts_dir> <glob> [--brief]"""
import sys
import os
sys.path.insert(0, os.path.dirname(os.path.abspath(__file__)))
from core import Workspace


def fmt_place(body, p):
    s = '_%d' % p[0]
    for e in p[1]:
        if e == '*':
            s = '(*%s)' % s
        elif isinstance(e, tuple) and e[0] == 'f':
            s = '%s.%s' % (s, e[2] if e[2] else e[1])
        elif isinstance(e, tuple) and e[0] == 'd':
            s = '(%s as %s)' % (s, e[2])
        elif isinstance(e, tuple) and e[0] == 'i':
            s = '%s[_%d]' % (s, e[1])
        else:
            s = '%s{%s}' % (s, e)
    return s


def fmt_op(body, o):
    if o[0] in ('copy', 'move'):
        return '%s %s' % (o[0], fmt_place(body, o[1]))
    if o[0] == 'const':
        return 'const %s' % (o[1],)
    if o[0] == 'fn':
        return 'fn %s' % o[1]
    return str(o)


def fmt_rv(body, rv):
    k = rv[0]
    if k in ('use', 'rep'):
        return fmt_op(body, rv[1])
    if k == 'ref':
        return '&%s%s' % ('mut ' if rv[2] else '', fmt_place(body, rv[1]))
    if k in ('ptr', 'discr', 'cfd'):
        return '%s(%s)' % (k, fmt_place(body, rv[1]))
    if k == 'cast':
        return '%s as %s [%s]' % (fmt_op(body, rv[2]), rv[3], rv[1])
    if k == 'bin':
        return '%s(%s, %s)' % (rv[1], fmt_op(body, rv[2]), fmt_op(body, rv[3]))
    if k == 'un':
        return '%s(%s)' % (rv[1], fmt_op(body, rv[2]))
    if k == 'agg':
        return '%s %s::%s(%s)' % (rv[1], rv[2], rv[4], ', '.join(fmt_op(body, o) for o in rv[5]))
    return str(rv)


def dump(fn, brief=False):
    b = fn.body
    print('=== %s  [%s] %s:%d-%d argc=%d cor=%s ret=%s' % (fn.name, fn.kind, fn.file, fn.l0, fn.l1, fn.argc, fn.cor, fn.ret))
    if not brief:
        for i, (t, n) in enumerate(b.locals):
            print('   let _%d%s: %s' % (i, '(' + n + ')' if n else '', t))
    for bi, blk in enumerate(b.blocks):
        if blk.cleanup and brief:
            continue
        print('  bb%d%s:' % (bi, ' (cleanup)' if blk.cleanup else ''))
        for (line, pl, rv) in blk.stmts:
            print('      %s = %s   // L%d' % (fmt_place(b, pl), fmt_rv(b, rv), line))
        t = blk.term
        if t[0] == 'call':
            c = t[1]
            print('      %s = CALL %s%s(%s) -> bb%s   // L%d' % (
                fmt_place(b, c.dest), c.callee or ('IND ' + fmt_op(b, c.ind)),
                (' => ' + c.resolved) if c.resolved else '',
                ', '.join(fmt_op(b, a) for a in c.args), c.target, c.line))
        elif t[0] == 'sw':
            print('      switch %s %s otherwise bb%d' % (fmt_op(b, t[1]), ['%d->bb%d' % x for x in t[2]], t[3]))
        elif t[0] == 'drop':
            print('      drop %s -> bb%d' % (fmt_place(b, t[1]), t[2]))
        elif t[0] == 'yield':
            print('      yield %s -> bb%d resume_arg=%s' % (fmt_op(b, t[1]), t[2], fmt_place(b, t[3])))
        else:
            print('      %s' % (t,))


if __name__ == '__main__':
    ws = Workspace(sys.argv[1])
    brief = '--brief' in sys.argv
    for f in ws.find_all(sys.argv[2]):
        dump(f, brief)
