"""C01 - multi-signature soundness (DESIGN.md section 4, C01)."""
from engine import Sink
from props.common import Ctx, between  # noqa: F401

EXPLANATION = (
    'Static rules over the MIR of mithril-stm: (a) R1 guarded must-pass-through - every success path of '
    'AggregateSignature::verify / batch_verify passes, with the accepting outcome, the per-signature '
    'index+lottery check, the index-uniqueness guard, the k-quorum guard, the Merkle batch-membership check and '
    'the BLS aggregate check; (b) R6 order abstraction of the index bound guard (success implies index < m); '
    '(c,d) R5 provenance of the lottery/pairing/membership arguments; (e) R1 for single-signature verification. '
    'Decides the control/argument shape of acceptance on all CFG paths; does not decide cryptographic soundness '
    'or batch == conjunction of singles.')

ASSUMPTIONS = [
    'BLS pairing checks, Blake2b and the Merkle tree are sound (trusted)',
    'batch_verify_aggregates accepts only if each member aggregate verifies (algebraic; not decided)',
]

P = 'mithril_stm::proof_system::concatenation::'
CHECK_INDICES = 'mithril_stm::*::SingleSignatureForConcatenation::check_indices'
PRELIM = 'mithril_stm::*::ConcatenationProof::preliminary_verify'
PROOF_VERIFY = 'mithril_stm::*::ConcatenationProof::verify'
PROOF_BATCH = 'mithril_stm::*::ConcatenationProof::batch_verify'
AGG_VERIFY = 'mithril_stm::*::AggregateSignature::verify'
AGG_BATCH = 'mithril_stm::*::AggregateSignature::batch_verify'
MEMBERSHIP = 'mithril_stm::*::MerkleTreeBatchCommitment::verify_leaves_membership_from_batch_path'
VERIFY_AGG = 'mithril_stm::*::BlsSignature::verify_aggregate'
BATCH_VERIFY_AGGS = 'mithril_stm::*::BlsSignature::batch_verify_aggregates'
BLS_VERIFY = 'mithril_stm::*::BlsSignature::verify'
LOTTERY = 'mithril_stm::*::eligibility::is_lottery_won'
DENSE = 'mithril_stm::*::BlsSignature::evaluate_dense_mapping'
SINGLE_VERIFY = 'mithril_stm::*::SingleSignatureForConcatenation::verify'


def has(og, pat):
    from core import glob_match
    # a field path under the named origin also counts (getters spliced by the inliner make origins more precise)
    return any(glob_match(pat, o) or (pat[-1] != '*' and glob_match(pat + '.*', o)) for o in og)


def run(ctx):
    R = ctx.report
    R.clause('a', 'an accepted aggregate passed every mandatory check (indices+lottery per signature, '
                  'uniqueness, quorum k, Merkle membership, BLS aggregate)')
    R.clause('b', 'every accepted index lies in [0,m)')
    R.clause('c', 'the lottery is re-evaluated for this message, this signature and the bounded index')
    R.clause('d', 'stake / keys used for lottery, membership and pairing come from the proven registration entries')
    R.clause('e', 'single-signature verification checks signature and lottery')
    R.clause('g', 'the BLS aggregation coefficients bind the whole signature set (no coefficient is predictable)')
    R.clause('h', 'the Merkle batch membership check accepts only a single final node equal to the committed root')

    # ---- (a) chain of entry points down to preliminary_verify
    s_prelim = Sink('preliminary_verify', PRELIM, 'ok')
    ctx.r1('a', AGG_VERIFY, s_prelim)
    ctx.r1('a', AGG_VERIFY, Sink('verify_aggregate', VERIFY_AGG, 'ok'))
    ctx.r1('a', PROOF_BATCH, Sink('preliminary_verify(per member)', PRELIM, 'ok', per_item=True))
    ctx.r1('a', PROOF_BATCH, Sink('batch_verify_aggregates', BATCH_VERIFY_AGGS, 'ok'))
    ctx.r1('a', AGG_BATCH, Sink('ConcatenationProof::batch_verify(per signature type)', PROOF_BATCH, 'ok', per_item=True))
    # inside preliminary_verify
    ctx.r1('a', PRELIM, Sink('check_indices(per signature)', CHECK_INDICES, 'ok', per_item=True))
    ctx.r1('a', PRELIM, Sink('verify_leaves_membership_from_batch_path', MEMBERSHIP, 'ok'))
    # no index twice: the count is compared with the size of the set of indices, or the `false` returned by HashSet::insert for a
    # repeated index (directly, or through a flag it sets) makes success unreachable
    pf_ = ctx.try_fn('a', PRELIM)
    if pf_ is not None:
        from core import glob_match as _gm
        from engine import track_result as _tr, success_reachable as _sr
        ok_a = ctx.quiet_gate(pf_, lambda g: has(g.a_orig | g.b_orig, 'call:std::collections::hash::set::HashSet::len'), {'eq'})[0]
        pb_ = pf_.body
        ins = [c for c in pb_.calls() if any(_gm('std::collections::hash::set::HashSet::insert', n) or _gm('std::collections::btree::set::BTreeSet::insert', n) for n in c.names())]
        ok_b = bool(ins)
        for c in ins:
            t_ = _tr(pb_, c.dest[0], +1, 'bool')
            starts_ = [b_ for _, b_ in t_.fail_edges]
            if not starts_ or _sr(pb_, set(), 'ok', starts=starts_):
                ok_b = False
        inst_u = 'ConcatenationProof::preliminary_verify: index count == number of unique indices'
        if ok_a or ok_b:
            R.ok('a', 'R6', inst_u, 'count compared with the set size' if ok_a else 'a repeated index (insert == false) cannot reach success', pf_.loc())
        else:
            R.violation('a', 'R6', inst_u, 'preliminary_verify:unique', 'no equality guard between the index count and the set size gates success, and success is reachable from the '
                        '`false` outcome of HashSet::insert (%d insert site(s))' % len(ins), pf_.loc())
    ctx.guard_gate('a', PRELIM, 'index count >= k',
                   between(['call:std::collections::hash::set::HashSet::insert', 'call:*::len', 'pty:SingleSignatureForConcatenation.indexes', 'lty:SingleSignatureForConcatenation.indexes', 'const:*'], ['pty:Parameters.k']),
                   {'eq', 'gt'}, key='preliminary_verify:quorum')

    # the count compared with k and with the set size is the number of inserted indices
    f = ctx.try_fn('a', PRELIM)
    if f is not None:
        from engine import find_guards
        gs = find_guards(f.body)
        LEN = 'call:std::collections::hash::set::HashSet::len'
        K = 'pty:Parameters.k'
        ku = [g for g in gs if has(g.a_orig | g.b_orig, LEN)]
        kq = [g for g in gs if (has(g.b_orig, K) and not has(g.a_orig, K)) or (has(g.a_orig, K) and not has(g.b_orig, K))]
        if ku and kq:
            # both counts derive from the same origins as the unique-guard's counter side
            cu = ku[0].a_orig if not has(ku[0].a_orig, LEN) else ku[0].b_orig
            cq = kq[0].a_orig if not has(kq[0].a_orig, K) else kq[0].b_orig
            same = (cu - {'overflow'}) == (cq - {'overflow'})
            if same:
                R.ok('a', 'R5', 'preliminary_verify: the count tested against k is the count tested for uniqueness',
                     'origins %s' % sorted(cq)[:6], f.loc())
            else:
                R.violation('a', 'R5', 'preliminary_verify: the count tested against k is the count tested for uniqueness',
                            'preliminary_verify:count-identity',
                            'counter origins differ: uniqueness %s vs quorum %s' % (sorted(cu)[:8], sorted(cq)[:8]), f.loc())

    # ---- (b) bound direction
    ctx.guard_gate('b', CHECK_INDICES, 'index < m',
                   between(['pty:SingleSignatureForConcatenation.indexes'], ['pty:Parameters.m']),
                   {'lt'}, key='check_indices:index<m', per_item=True)

    # ---- (c) lottery arguments
    ctx.r1('c', CHECK_INDICES, Sink('is_lottery_won(per index)', LOTTERY, 'ok', per_item=True))
    ctx.arg_origin('c', CHECK_INDICES, LOTTERY, 1, require=['call:' + DENSE], desc='(draw) <- evaluate_dense_mapping',
                   through_calls=False)
    ctx.arg_origin('c', CHECK_INDICES, DENSE, 0, require=['param:self.sigma'], desc='<- self.sigma')
    ctx.arg_origin('c', CHECK_INDICES, DENSE, 1, require=['param:msg'], forbid=['param:self*'], desc='<- msg')
    ctx.arg_origin('c', CHECK_INDICES, DENSE, 2, require=['param:self.indexes'], desc='(index) <- self.indexes')
    ctx.arg_origin('c', CHECK_INDICES, LOTTERY, 0, require=['param:params.phi_f'], desc='<- params.phi_f')
    ctx.arg_origin('c', CHECK_INDICES, LOTTERY, 2, require=['param:stake'], forbid=['param:total_stake'], desc='<- stake')
    ctx.arg_origin('c', CHECK_INDICES, LOTTERY, 3, require=['param:total_stake'], forbid=['param:stake'], desc='<- total_stake')
    # message given to the per-signature check is msg || commitment of the avk
    ctx.arg_origin('c', PRELIM, '*::check_indices', 3, require=['call:*concatenate_with_message', 'param:msg', 'param:avk'],
                   desc='(msg) <- concatenate_with_message(avk commitment, msg)')

    # ---- (d) roles
    ctx.arg_origin('d', PRELIM, '*::check_indices', 2, require=['param:self.signatures', 'call:*::get_stake'],
                   forbid=['param:avk', 'param:parameters*'], desc='(stake) <- signature.reg_party.get_stake()')
    ctx.arg_origin('d', PRELIM, '*::check_indices', 4, require=['param:avk', 'call:*::get_total_stake'],
                   forbid=['param:self*'], desc='(total stake) <- avk.get_total_stake()')
    ctx.arg_origin('d', PRELIM, '*::check_indices', 1, require=['param:parameters'], desc='<- parameters')
    ctx.arg_origin('d', PRELIM, MEMBERSHIP, 1, require=['param:self.signatures'], forbid=['param:avk'],
                   desc='(leaves) <- self.signatures[..].reg_party')
    ctx.arg_origin('d', PRELIM, MEMBERSHIP, 2, require=['param:self.batch_proof'], desc='<- self.batch_proof')
    ctx.arg_origin('d', PRELIM, MEMBERSHIP, 0, require=['param:avk'], forbid=['param:self*'], desc='(commitment) <- avk')
    ctx.arg_origin('d', PROOF_VERIFY, VERIFY_AGG, 1, require=['call:' + PRELIM], desc='(vks) <- preliminary_verify result')
    ctx.arg_origin('d', PROOF_VERIFY, VERIFY_AGG, 2, require=['call:' + PRELIM], desc='(sigs) <- preliminary_verify result')
    ctx.arg_origin('d', PROOF_VERIFY, VERIFY_AGG, 0, require=['call:*concatenate_with_message', 'param:msg', 'param:avk'],
                   desc='(msg) <- concatenate_with_message')

    # ---- (e)
    ctx.r1('e', SINGLE_VERIFY, Sink('BlsSignature::verify', BLS_VERIFY, 'ok'))
    ctx.r1('e', SINGLE_VERIFY, Sink('check_indices', CHECK_INDICES, 'ok'))
    ctx.arg_origin('e', SINGLE_VERIFY, BLS_VERIFY, 1, require=['call:*concatenate_with_message', 'param:msg'],
                   desc='(msg) <- concatenate_with_message')
    ctx.arg_origin('e', SINGLE_VERIFY, BLS_VERIFY, 2, require=['param:pk'], desc='<- pk')

    # ---- (g), (h): inside the two cryptographic sinks (structure only)
    from props.shared import bls_aggregate_binding, batch_path_final_check
    bls_aggregate_binding(ctx, 'g')
    ctx.r1('g', VERIFY_AGG, Sink('BlsSignature::aggregate', 'mithril_stm::*::BlsSignature::aggregate', 'ok'))
    batch_path_final_check(ctx, 'h')

    # ---- (g) the batch: members are weighted too (F14: batch_verify_aggregates summed the member aggregates as they were, so opposite
    # offsets on two members cancelled out and a batch of two individually rejected aggregates was accepted)
    from core import glob_match
    from engine import flows_forward, fn_origins
    bls_aggregate_binding(ctx, 'g', fn_pat=BATCH_VERIFY_AGGS, sig_param='p#3', label='BlsSignature::batch_verify_aggregates', key='batch:weights:transcript',
                          with_verify_args=False)
    bv = ctx.try_fn('g', BATCH_VERIFY_AGGS)
    if bv is not None:
        from props.shared import closure_agg_sites
        body = bv.body
        fam = list(bv.family())
        av = [c for c in body.calls() if any(glob_match('*::aggregate_verify', n) for n in c.names())]
        m1 = [(g, c) for g in fam for c in g.body.calls() if any(glob_match('blst::p1_affines::mult', n) or glob_match('*p1_affines*::mult', n) for n in c.names())]
        m2 = [(g, c) for g in fam for c in g.body.calls() if any(glob_match('blst::p2_affines::mult', n) or glob_match('*p2_affines*::mult', n) for n in c.names())]
        problems = []
        if not av:
            problems.append('no aggregate_verify call')
        if not m1 or not m2:
            problems.append('signatures weighted at %d site(s), keys at %d' % (len(m1), len(m2)))
        else:
            def starts_in_main(ms):
                st = set()
                for g, c in ms:
                    if g is bv:
                        st.add(c.dest[0])
                    else:
                        # the weighting sits in a closure (map / unzip ...): what the closure produces flows out of the call it is given to
                        st |= {cl_local for (pg, cl_local, caps) in closure_agg_sites(fam, g) if pg is bv}
                return st
            d1 = flows_forward(body, starts_in_main(m1))
            d2 = flows_forward(body, starts_in_main(m2))
            for c in av:
                locs = [a[1][0] for a in c.args if a[0] in ('copy', 'move')]
                if not locs or locs[0] not in d1:
                    problems.append('the signature checked by aggregate_verify is not the sum of the weighted member signatures')
                if not any(l in d2 for l in locs[1:]):
                    problems.append('the keys given to aggregate_verify are not the weighted member keys')
            # the same weight multiplies the key and the signature of a member
            s1 = {frozenset(o for o in fn_origins(g, c.args[1], False)) for g, c in m1}
            s2 = {frozenset(o for o in fn_origins(g, c.args[1], False)) for g, c in m2}
            if s1 != s2:
                problems.append('keys and signatures are not multiplied by the same weights')
        inst = 'BlsSignature::batch_verify_aggregates: every member (key, signature) is multiplied by a weight hashed from the batch before the sum is checked'
        if problems:
            R.violation('g', 'R5', inst, 'batch:weights', '; '.join(sorted(set(problems))), bv.loc())
        else:
            R.ok('g', 'R5', inst, '%d + %d weighting site(s)' % (len(m1), len(m2)), bv.loc())
    # the members handed to the batch check are the coefficient-weighted aggregates of each proof (seed C01-5: plain sums of the
    # signatures / keys of a member let two invalid signatures of one member cancel out)
    AGGR = 'mithril_stm::*::BlsSignature::aggregate'
    pb = ctx.try_fn('g', PROOF_BATCH)
    if pb is not None:
        body = pb.body
        ag = [c for c in body.calls() if any(glob_match(AGGR, n) for n in c.names())]
        bs = [c for c in body.calls() if any(glob_match(BATCH_VERIFY_AGGS, n) for n in c.names())]
        inst = 'ConcatenationProof::batch_verify: the member keys and signatures handed to batch_verify_aggregates are the outputs of BlsSignature::aggregate'
        d = flows_forward(body, {c.dest[0] for c in ag}) if ag else set()
        bad = [c.line for c in bs if not all(a[0] in ('copy', 'move') and a[1][0] in d for a in c.args[1:3])]
        if ag and bs and not bad:
            R.ok('g', 'R5', inst, '%d aggregate site(s)' % len(ag), pb.loc())
        else:
            R.violation('g', 'R5', inst, 'batch:member-aggregates', 'BlsSignature::aggregate sites %d, batch_verify_aggregates sites %d, sites fed by something else: %s' % (
                len(ag), len(bs), bad), pb.loc())
    # ---- (a) what is put on the wire is a group element: a decoded signature / key passed the subgroup check (seed C01-3: from_bytes kept
    # only the on-curve check; the aggregate path verifies with the group check off, so sigma + T (T of small order) verified with other bytes
    # and the lottery could be ground)
    for ty, fnn, checks in (('BlsSignature', 'mithril_stm::*::BlsSignature::from_bytes', ['blst::min_sig::Signature::sig_validate', 'blst::min_sig::Signature::validate']),
                            ('BlsVerificationKey', 'mithril_stm::*::BlsVerificationKey::from_bytes', ['blst::min_sig::PublicKey::key_validate', 'blst::min_sig::PublicKey::validate'])):
        ctx.r1('a', fnn, Sink('subgroup check of the decoded %s' % ty, checks, 'ok'))

