"""C14 - the aggregator publishes only verifiable certificates (DESIGN.md section 4, C14)."""
from core import glob_match
from engine import Sink, fn_origins, find_guards, track_result, success_reachable, return_assigns, ok_payload, option_payload
from props.common import Ctx, fn_short, ret_ok_some, ret_ok_none, parse_sql_comparison  # noqa: F401

EXPLANATION = (
    'Static rules over mithril-aggregator: (a) create_certificate returns Some only after: open message not certified, not '
    'expired, multi-signature Some, CertificateVerifier::verify_certificate Ok, certificate stored, open message marked '
    'certified - in that order; the verified, stored and returned certificate is the one built; (b) R5 - the certificate carries '
    'the epoch service\'s AVK / parameters, links to the master certificate of the open message\'s epoch, epoch and protocol '
    'message of the open message; (c) R3 - who may store certificates; (d) R10 - state machine: Ready from Idle only on a valid '
    'chain with genesis present and not in the genesis epoch; epoch gap => Blocked; create_certificate only from the Signing->Ready '
    'transition; the registration round is closed before the epoch service is informed and before the new round opens; (e) the '
    'chain validity test includes the epoch-gap test before the walk. Does not decide the invariant over interleavings nor SQL '
    'predicates (opaque).')

ASSUMPTIONS = ['SQL text of the repositories (uniqueness, master-certificate selection, deletion thresholds) is opaque to the analysis']

AG = 'mithril_aggregator::'
CS = '<' + AG + 'services::certifier::certifier_service::MithrilCertifierService as ' + AG + 'services::certifier::interface::CertifierService>::'
CC = CS + 'create_certificate'
VERIFY = ['*::CertificateVerifier::verify_certificate']
STORE = [AG + 'database::repository::certificate_repository::CertificateRepository::create_certificate']
UPD = [AG + 'database::repository::open_message_repository::OpenMessageRepository::update_open_message']
CMS = ['*::MultiSigner::create_multi_signature']
OMR = ['*::OpenMessageRepository::get_open_message_with_single_signatures']
SM = AG + 'runtime::state_machine::AggregatorRuntime::'


def has(og, pat):
    # a field path under the named origin also counts (getters spliced by the inliner make origins more precise)
    return any(glob_match(pat, o) or (pat[-1] != '*' and glob_match(pat + '.*', o)) for o in og)


def _selected_by_membership(lf, meta_op):
    """The loop form of the signer selection: `for s in current_signers { if ids.contains(&s.party_id) { signers.push(s) } }`.  The
    ids then decide by CONTROL which signers are pushed: every push of a current signer into a collection that reaches the metadata
    sits behind the `true` outcome of `contains` on the open message's signer ids."""
    from engine import flows_forward, track_result
    body = lf.body
    if meta_op[0] not in ('copy', 'move'):
        return False
    tests = [c for c in body.calls() if any(n.endswith('::contains') for n in c.names()) and len(c.args) >= 2
             and has(fn_origins(lf, c.args[0], True), 'call:*OpenMessage::get_signers_id')
             and has(fn_origins(lf, c.args[1], True), 'call:*EpochService::current_signers_with_stake')]
    if not tests:
        return False
    true_edges = set()
    for c in tests:
        true_edges |= track_result(body, c.dest[0], +1).success_edges
    pushes = []
    for c in body.calls():
        if any(n.endswith(('::push', '::insert', '::push_back', '::extend')) for n in c.names()) and len(c.args) >= 2 \
                and has(fn_origins(lf, c.args[1], True), 'call:*EpochService::current_signers_with_stake'):
            a0 = c.args[0]
            if a0[0] in ('copy', 'move') and meta_op[1][0] in flows_forward(body, {a0[1][0]}, True):
                pushes.append(c)
    if not pushes or not true_edges:
        return False
    reach = body.reach([0], removed=true_edges)
    return not any(c.bb in reach for c in pushes)


def run(ctx):
    R = ctx.report
    ws = ctx.ws
    R.clause('a', 'create_certificate returns Some only after all checks and persistence steps, in order')
    R.clause('b', 'the certificate carries the epoch\'s AVK/parameters and links to the master certificate')
    R.clause('c', 'who may store certificates')
    R.clause('d', 'state machine relation and guards')
    R.clause('e', 'chain validity includes the epoch-gap test before the chain walk')
    R.clause('f', 'epoch pruning never deletes the (certified) open messages of the current epoch: they are what prevents a second certification')

    # ---- (a)
    f = ctx.try_fn('a', CC)
    if f is not None:
        lf = f.logic()
        body = lf.body
        ctx.flag_gate('a', f, 'pty:OpenMessage*.is_certified', ret_filter=ret_ok_some, desc='[Ok(Some)]')
        ctx.flag_gate('a', f, 'pty:OpenMessage*.is_expired', ret_filter=ret_ok_some, desc='[Ok(Some)]')
        ctx.r1('a', CC, Sink('create_multi_signature', CMS, 'ok'), ret_filter=ret_ok_some, label='Ok(Some)')
        ctx.r1('a', CC, Sink('CertificateVerifier::verify_certificate', VERIFY, 'ok'), ret_filter=ret_ok_some, label='Ok(Some)')
        ctx.r1('a', CC, Sink('CertificateRepository::create_certificate', STORE, 'ok'), ret_filter=ret_ok_some, label='Ok(Some)')
        ctx.r1('a', CC, Sink('OpenMessageRepository::update_open_message', UPD, 'ok'), ret_filter=ret_ok_some, label='Ok(Some)')
        ctx.order('a', f, ('verify_certificate', VERIFY), ('certificate_repository.create_certificate', STORE))
        ctx.order('a', f, ('certificate_repository.create_certificate', STORE), ('update_open_message', UPD))
        ctx.order('a', f, ('create_multi_signature', CMS), ('verify_certificate', VERIFY))
        # Ok(None) only in the None arm of the multi-signature
        ms, _ = ctx.success_edges_of(lf, CMS)
        none_edges = set()
        for c in ms:
            # the Option payload after `?`
            for l, (ty, nm) in enumerate(body.locals):
                if ty.startswith('std::option::Option<') and 'MultiSignatureWithAncillaryData' in ty:
                    for (bi, si, how, payload) in body.uses(l):
                        if how == 'stmt' and payload[1][0] == 'discr':
                            for (b2, s2, how2, pay2) in body.uses(payload[0][0]):
                                if how2 == 'sw':
                                    from engine import switch_edges
                                    su, fa = switch_edges(b2, pay2[0], 'option', +1)
                                    none_edges |= fa
        if none_edges and not success_reachable(body, none_edges, 'ok', ret_filter=ret_ok_none):
            R.ok('a', 'R1', 'create_certificate: Ok(None) only when no multi-signature could be created', '', f.loc())
        else:
            R.violation('a', 'R1', 'create_certificate: Ok(None) only when no multi-signature could be created', 'create_certificate:ok-none',
                        'Ok(None) reachable outside the None arm of create_multi_signature', f.loc())
        # identity of the certificate along the pipeline
        tn = ctx.call_sites(body, ['mithril_common::entities::certificate::Certificate::try_new'])
        TRY_NEW = 'mithril_common::entities::certificate::Certificate::try_new'
        # wherever under create_certificate the certificate is verified / stored (possibly in helpers): it is the built one
        vs_ = ctx.closure_sites(CC, VERIFY, depth=3)
        ss_ = ctx.closure_sites(CC, STORE, depth=3)
        ok = bool(ctx.closure_sites(CC, [TRY_NEW], depth=3) and vs_ and ss_)
        if ok:
            ok = all(ctx.via_sink(ctx.deep(CC, g_, c_.args[1], 'adapters', up=3, depth=3), TRY_NEW) or ctx.via_sink(ctx.deep(CC, g_, c_.args[1], True, up=3, depth=3), TRY_NEW) for g_, c_ in vs_) and \
                all(ctx.via_sink(ctx.deep(CC, g_, c_.args[1], True, up=3, depth=3), TRY_NEW) for g_, c_ in ss_)
            for sp in return_assigns(body, 'ok')[0]:
                if ret_ok_some(body, sp):
                    x = option_payload(body, ok_payload(body, sp))
                    if x is None or not ctx.via_sink(fn_origins(lf, x, True), STORE[0]):
                        ok = False
        if ok:
            R.ok('a', 'R5', 'create_certificate: verified = stored = built certificate; returned = stored certificate', '', f.loc())
        else:
            R.violation('a', 'R5', 'create_certificate: verified = stored = built certificate; returned = stored certificate', 'create_certificate:identity',
                        'the certificate verified / stored / returned is not the one built by Certificate::try_new', f.loc())
        # the open message marked certified is the one loaded for this entity
        for c in ctx.call_sites(body, UPD):
            og = fn_origins(lf, c.args[1], True)
            if ctx.via_sink(og, OMR):
                R.ok('a', 'R5', 'create_certificate: the open message marked certified is the one loaded for the entity', '', f.loc())
            else:
                R.violation('a', 'R5', 'create_certificate: the open message marked certified is the one loaded for the entity', 'create_certificate:open-message',
                            str(sorted(og)[:4]), f.loc())
        # ---- (b)
        for c in tn:
            names = ['previous_hash', 'epoch', 'metadata', 'protocol_message', 'aggregate_verification_key', 'signature']
            og = [fn_origins(lf, a, True) for a in c.args]
            checks = [
                ('previous_hash <- get_master_certificate_for_epoch(open_message.epoch).hash', has(og[0], 'call:*CertificateRepository::get_master_certificate_for_epoch') ),
                ('epoch <- open_message.epoch', has(fn_origins(lf, c.args[1], 'adapters'), 'pty:OpenMessage.epoch') or ctx.via_sink(og[1], OMR)),
                ('protocol_message <- open_message.protocol_message', has(fn_origins(lf, c.args[3], 'adapters'), 'pty:OpenMessage.protocol_message') or
                 (ctx.via_sink(og[3], OMR) and not has(og[3], 'call:*EpochService*'))),
                ('aggregate_verification_key <- epoch_service.current_aggregate_verification_key()', has(og[4], 'call:*EpochService::current_aggregate_verification_key')),
                ('signature <- (signed_entity_type, create_multi_signature result)', has(og[5], 'call:' + CMS[0]) and has(og[5], 'p#2')),
                ('metadata: parameters <- epoch_service.current_protocol_parameters(), signers <- current_signers_with_stake filtered by open message signer ids',
                 has(og[2], 'call:*EpochService::current_protocol_parameters') and
                 ((has(og[2], 'call:*EpochService::current_signers_with_stake') and has(og[2], 'call:*OpenMessage::get_signers_id'))
                  or _selected_by_membership(lf, c.args[2]))),
            ]
            for d, okk in checks:
                if okk:
                    R.ok('b', 'R5', 'create_certificate: ' + d, '', f.loc())
                else:
                    R.violation('b', 'R5', 'create_certificate: ' + d, 'create_certificate:field:' + d.split(' ', 1)[0].rstrip(':'), 'provenance not established', f.loc())
        for c in ctx.call_sites(body, ['*CertificateRepository::get_master_certificate_for_epoch']):
            og = fn_origins(lf, c.args[1], True)
            if ctx.via_sink(og, OMR):
                R.ok('b', 'R5', 'create_certificate: master certificate looked up for the open message\'s epoch', '', f.loc())
            else:
                R.violation('b', 'R5', 'create_certificate: master certificate looked up for the open message\'s epoch', 'create_certificate:master-epoch', str(sorted(og)[:4]), f.loc())

    # ---- (c)
    ctx.only_callers('c', STORE + [AG + 'database::repository::certificate_repository::CertificateRepository::create_many_certificates'],
                     [(CS + 'create_certificate*', 'sealing, after self-verification'),
                      (AG + 'tools::genesis::*', 'genesis tools (operator command)'),
                      (AG + 'tools::certificates_hash_migrator::*', 'offline hash migration tool'),
                      ('<' + AG + 'services::certificate_chain_synchronizer::*', 'follower synchroniser (verifies the remote chain first)'),
                      (AG + 'services::certificate_chain_synchronizer::*', 'follower synchroniser'),
                      ('<' + AG + 'database::repository::certificate_repository::CertificateRepository as *', 'trait adapters of the repository itself'),
                      (AG + 'database::repository::certificate_repository::*', 'the repository itself')],
                     'certificates are stored only by sealing, genesis tools, migration and the follower synchroniser', min_allowed=2)

    # ---- (d)
    ti = ctx.try_fn('d', SM + 'transition_from_idle')
    if ti is not None:
        body = ti.body
        try:
            st = ws.adt(AG + 'runtime::state_machine::AggregatorState')
            vidx = {v['n']: i for i, v in enumerate(st['variants'])}
        except Exception as e:  # noqa
            R.missing('d', e)
            vidx = {}
        ready_blocks = []
        blocked_blocks = []
        for bi, b in enumerate(body.blocks):
            if b.cleanup:
                continue
            for (_, pl, rv) in b.stmts:
                if rv[0] == 'agg' and rv[2] == AG + 'runtime::state_machine::AggregatorState':
                    (ready_blocks if rv[4] == 'Ready' else blocked_blocks if rv[4] == 'Blocked' else []).append(bi)
        # Ready only if chain_validity_result is Ok
        edges = set()
        for bi, b in enumerate(body.blocks):
            for (_, pl, rv) in b.stmts:
                if rv[0] == 'discr' and 1 <= rv[1][0] <= body.argc and body.lty(rv[1][0]).startswith('std::result::Result<') and not b.cleanup:
                    for (b2, s2, how2, pay2) in body.uses(pl[0]):
                        if how2 == 'sw':
                            from engine import switch_edges
                            su, fa = switch_edges(b2, pay2[0], 'result', +1)
                            edges |= su
        reach = body.reach([0], removed=edges)
        if ready_blocks and edges and not [b for b in ready_blocks if b in reach]:
            R.ok('d', 'R10', 'transition_from_idle: Ready only on the Ok arm of the chain validity result', '', ti.loc())
        else:
            R.violation('d', 'R10', 'transition_from_idle: Ready only on the Ok arm of the chain validity result', 'idle:ready-on-ok', '', ti.loc())
        # Ready requires genesis present (is_none false) and genesis_epoch != current epoch
        gs = find_guards(body)
        eq = [g for g in gs if g.op in ('Eq', 'Ne') and has(g.a_orig | g.b_orig, 'p#2.epoch') and has(g.a_orig | g.b_orig, 'p#3*')]
        isn = [c for c in body.calls() if any(glob_match('std::option::Option::is_none', n) for n in c.names()) and has(fn_origins(ti, c.args[0], True), 'p#3')]
        rem = set()
        for g in eq:
            rem |= (g.false_edges if g.op == 'Eq' else g.true_edges)
        rem2 = set()
        for c in isn:
            rem2 |= track_result(body, c.dest[0], -1).success_edges
        # ... or tested by matching on the Option itself (`match last_genesis_epoch { None => .., Some(e) if .. }`)
        for l in range(1, body.argc + 1):
            if body.lty(l).lstrip('&').startswith('std::option::Option<') and 'Epoch' in body.lty(l):
                tr_ = track_result(body, l, +1, 'option')
                rem2 |= tr_.success_edges
                if tr_.success_edges:
                    isn = isn or [True]
        r1 = body.reach([0], removed=rem)
        r2 = body.reach([0], removed=rem2)
        if eq and isn and not [b for b in ready_blocks if b in r2]:
            R.ok('d', 'R10', 'transition_from_idle: Ready requires a genesis certificate', '', ti.loc())
        else:
            R.violation('d', 'R10', 'transition_from_idle: Ready requires a genesis certificate', 'idle:ready-needs-genesis', '', ti.loc())
        # when genesis epoch == current epoch the result is Blocked: Ready unreachable from the eq-true arm
        rb = set()
        for g in eq:
            arm = g.true_edges if g.op == 'Eq' else g.false_edges
            rb |= body.reach([b for _, b in arm])
        if eq and not [b for b in ready_blocks if b in rb]:
            R.ok('d', 'R10', 'transition_from_idle: still in the genesis epoch => not Ready', '', ti.loc())
        else:
            R.violation('d', 'R10', 'transition_from_idle: still in the genesis epoch => not Ready', 'idle:genesis-epoch-blocks', '', ti.loc())
        # epoch gap => Blocked
        dc = [c for c in body.calls() if any(glob_match('anyhow::Error::downcast_ref', n) for n in c.names())]
        if dc and blocked_blocks:
            R.ok('d', 'R10', 'transition_from_idle: CertificateEpochGap is mapped to Blocked', '', ti.loc())
        else:
            R.violation('d', 'R10', 'transition_from_idle: CertificateEpochGap is mapped to Blocked', 'idle:gap-blocks', '', ti.loc())
    # create_certificate only from the Signing -> Ready transition
    ctx.only_callers('d', ['*::AggregatorRunnerTrait::create_certificate', AG + 'runtime::runner::AggregatorRunnerTrait::create_certificate'],
                     [(SM + 'transition_from_signing_to_ready_multisignature*', 'Signing -> Ready')],
                     'the runner\'s create_certificate is called only by the Signing->Ready transition')
    ctx.only_callers('d', [CC, '*::CertifierService::create_certificate'],
                     [('<' + AG + 'runtime::runner::AggregatorRunner as *>::create_certificate*', 'the runner'),
                      ('<' + AG + 'services::certifier::buffered_certifier::BufferedCertifierService as *>::create_certificate*', 'decorator'),
                      ('<' + AG + 'services::certifier::*', 'certifier decorators')],
                     'the certifier\'s create_certificate is reached only through the runner (and its decorators)')
    # epoch initialisation order
    ei = ctx.try_fn('d', SM + 'execute_epoch_initialization_tasks')
    if ei is not None:
        RT = '*::AggregatorRunnerTrait::'
        ctx.order('d', ei, ('close_signer_registration_round', [RT + 'close_signer_registration_round']), ('inform_new_epoch', [RT + 'inform_new_epoch']))
        ctx.order('d', ei, ('close_signer_registration_round', [RT + 'close_signer_registration_round']), ('upkeep', [RT + 'upkeep']))
        ctx.order('d', ei, ('update_stake_distribution', [RT + 'update_stake_distribution']), ('open_signer_registration_round', [RT + 'open_signer_registration_round']))
        ctx.order('d', ei, ('inform_new_epoch', [RT + 'inform_new_epoch']), ('open_signer_registration_round', [RT + 'open_signer_registration_round']))
    # artifact only with the certificate just created
    tr_ = ctx.try_fn('d', SM + 'transition_from_signing_to_ready_multisignature')
    if tr_ is not None:
        RT = '*::AggregatorRunnerTrait::'
        ctx.order('d', tr_, ('create_certificate', [RT + 'create_certificate']), ('create_artifact', [RT + 'create_artifact']))

    # ---- (e)
    vc = ctx.try_fn('e', CS + 'verify_certificate_chain')
    if vc is not None:
        ctx.r1('e', CS + 'verify_certificate_chain', Sink('Epoch::has_gap_with', 'mithril_common::entities::epoch::Epoch::has_gap_with', 'err'), success='ok') if False else None
        lv = vc.logic()
        body = lv.body
        gaps, gedges = ctx.success_edges_of(lv, ['mithril_common::entities::epoch::Epoch::has_gap_with'], -1)
        walks = ctx.call_sites(body, ['*::CertificateVerifier::verify_certificate_chain'])
        reach = body.reach([0], removed=gedges)
        if gaps and walks and gedges and not [c for c in walks if c.bb in reach]:
            R.ok('e', 'R2', 'verify_certificate_chain: the epoch-gap test (no gap) precedes the chain walk', '', vc.loc())
        else:
            R.violation('e', 'R2', 'verify_certificate_chain: the epoch-gap test (no gap) precedes the chain walk', 'chain:gap-before-walk', '', vc.loc())
        for c in gaps:
            o0 = fn_origins(lv, c.args[0], True)
            o1 = fn_origins(lv, c.args[1], True)
            if (has(o0, 'p#2') and has(o1, 'call:*CertificateRepository::get_latest_certificates')) or (has(o1, 'p#2') and has(o0, 'call:*get_latest_certificates')):
                R.ok('e', 'R5', 'verify_certificate_chain: gap between the current epoch and the latest certificate\'s epoch', '', vc.loc())
            else:
                R.violation('e', 'R5', 'verify_certificate_chain: gap between the current epoch and the latest certificate\'s epoch', 'chain:gap-args', '', vc.loc())
        ctx.r1('e', CS + 'verify_certificate_chain', Sink('CertificateVerifier::verify_certificate_chain', ['*::CertificateVerifier::verify_certificate_chain'], 'ok', per_item=False)) if False else None

    # ---- (f) pruning of open messages: strictly below the epoch being entered
    from props.shared import open_message_prune_rule
    open_message_prune_rule(ctx, 'f', 'so a signed entity already certified in the current epoch can be re-opened and certified again after a restart')
