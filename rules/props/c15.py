"""C15 - crash consistency of sealing (narrow; DESIGN.md section 4, C15)."""
from core import glob_match
from engine import Sink, fn_origins, track_result, success_reachable, return_assigns
from props.common import Ctx, fn_short, ret_ok_some  # noqa: F401
from props import c14

EXPLANATION = (
    'Static rules (narrow): (a) persistence order inside sealing: self-verification < certificate insert < open message marked '
    'certified (a stop between any two leaves either no certificate, or a stored verifiable certificate with a still-open message '
    'that create_certificate refuses to seal twice only through the AlreadyCertified flag - so the order matters); (b) artifact: '
    'compute < store signed entity, the stored certificate_id and entity type derive from the certificate / type passed in, '
    'create_artifact is reached only with the certificate returned by create_certificate; (c) artifact failure maps to ReInit, "not '
    'enough signatures" to KeepState; (d) the entity lock taken before spawning is released on every exit of the spawned task; (e) '
    'the open-message clean-up that runs in the epoch initialisation tasks - hence at every restart - deletes strictly below the '
    'epoch being entered (operator of the embedded SQL condition; shared with C14-f): the open messages of in-flight rounds and, '
    'by cascade, their registered signatures survive a restart. Does not decide what a restart finds after each cut, nor progress.')

ASSUMPTIONS = ['SQLite single-statement atomicity; what a restart observes after each cut is a history property (not decided)']

AG = 'mithril_aggregator::'
SES = AG + 'services::signed_entity::MithrilSignedEntityService'
TASK = SES + '::create_artifact_task'
CA = '<' + SES + ' as ' + AG + 'services::signed_entity::SignedEntityService>::create_artifact'
SM = AG + 'runtime::state_machine::AggregatorRuntime::'


def has(og, pat):
    # a field path under the named origin also counts (getters spliced by the inliner make origins more precise)
    return any(glob_match(pat, o) or (pat[-1] != '*' and glob_match(pat + '.*', o)) for o in og)


def run(ctx):
    R = ctx.report
    ws = ctx.ws
    R.clause('a', 'persistence order inside sealing: verify < insert certificate < mark open message certified')
    R.clause('b', 'artifact: compute < store; stored ids derive from the inputs; created only with the sealed certificate')
    R.clause('c', 'artifact failure => ReInit; not enough signatures => KeepState')
    R.clause('d', 'the entity lock is released on every exit of the spawned task')

    f = ctx.try_fn('a', c14.CC)
    if f is not None:
        ctx.order('a', f, ('verify_certificate', c14.VERIFY), ('certificate_repository.create_certificate', c14.STORE))
        ctx.order('a', f, ('certificate_repository.create_certificate', c14.STORE), ('update_open_message', c14.UPD))
        # nothing is persisted on the Ok(None) path
        lf = f.logic()
        body = lf.body
        from props.common import ret_ok_none
        _, e1 = ctx.success_edges_of(lf, c14.STORE)
        sites = ctx.call_sites(body, c14.STORE + c14.UPD)
        if not sites:
            # the persistence steps live in a helper under create_certificate: its call sites stand for them
            hs = [h.name for h in ctx.closure_fns(f, depth=3) if h is not getattr(f, '_orig', f).root() and ctx.closure_sites(h, c14.STORE + c14.UPD, depth=2)]
            sites = ctx.call_sites(body, hs) if hs else []
        # Ok(None) return unreachable from any persistence call
        bad = []
        for c in sites:
            if c.target is not None and success_reachable(body, set(), 'ok', starts=[c.target], ret_filter=ret_ok_none):
                bad.append(c.line)
        if sites and not bad:
            R.ok('a', 'R2', 'create_certificate: the "no certificate yet" return persists nothing', '', f.loc())
        else:
            R.violation('a', 'R2', 'create_certificate: the "no certificate yet" return persists nothing', 'create_certificate:none-persists', str(bad), f.loc())

        # the crash window (certificate stored, open message not yet flagged) must stay re-sealable: the only thing that makes
        # create_certificate refuse with AlreadyCertified is the flag of the open message itself (seed C15-5: a look-up of the latest
        # stored certificate refused too, and the interrupted round could never be completed after the restart)
        ERR = 'mithril_aggregator::services::certifier::interface::CertifierServiceError'
        inst_r = 'create_certificate: AlreadyCertified is raised only when the open message is flagged certified'
        refusals = [(g, rv, ln) for g, rv, ln in ctx.closure_aggs(f, ERR, depth=3) if rv[4] == 'AlreadyCertified']
        unguarded = []
        for g, rv, ln in refusals:
            gb = g.body
            flag_locals = set()
            for b in gb.blocks:
                if b.cleanup:
                    continue
                for (_, pl, rv2) in b.stmts:
                    for (l, place) in __import__('core').rvalue_reads(rv2):
                        for pe in place[1]:
                            if isinstance(pe, tuple) and pe[0] == 'f' and pe[2] == 'is_certified' and pe[3] and 'OpenMessage' in pe[3] and not pl[1]:
                                flag_locals.add(pl[0])
            edges = set()
            for l in flag_locals:
                edges |= track_result(gb, l, +1, 'bool').success_edges
            sites_b = {bi for bi, b in enumerate(gb.blocks) if not b.cleanup and any(rv2 is rv for (_, pl, rv2) in b.stmts)}
            if not edges or (sites_b & gb.reach([0], removed=edges)):
                unguarded.append('%s line %s' % (fn_short(g.name), ln))
        if not refusals:
            R.ok('a', 'R6', inst_r, 'no AlreadyCertified refusal under create_certificate', f.loc())
        elif unguarded:
            R.violation('a', 'R6', inst_r, 'create_certificate:refusal', 'AlreadyCertified can be raised although open_message.is_certified is false: %s - a certificate stored '
                        'just before a stop (flag not yet written) can then never be sealed again' % unguarded, f.loc())
        else:
            R.ok('a', 'R6', inst_r, '%d refusal site(s), all under the flag' % len(refusals), f.loc())

    # ---- (b)
    t = ctx.try_fn('b', TASK)
    if t is not None:
        lt = t.logic()
        body = lt.body
        COMP = [SES + '::compute_artifact']
        STORE = ['*::SignedEntityStorer::store_signed_entity']
        # compute < store follows from data dependence: the stored artifact is the Ok payload of compute_artifact (checked below)
        ctx.r1('b', TASK, Sink('store_signed_entity', STORE, 'ok'))
        for b in body.blocks:
            for (_, pl, rv) in b.stmts:
                if rv[0] == 'agg' and rv[2] and rv[2].endswith('::SignedEntityRecord'):
                    adt = ws.adt(rv[2])
                    names = [fd['n'] for fd in adt['variants'][0]['fields']]
                    o_c = fn_origins(lt, rv[5][names.index('certificate_id')], True)
                    o_t = fn_origins(lt, rv[5][names.index('signed_entity_type')], True)
                    o_a = fn_origins(lt, rv[5][names.index('artifact')], True)
                    o_i = fn_origins(lt, rv[5][names.index('signed_entity_id')], True)
                    ok = has(o_c, 'p#3.hash') and has(o_t, 'p#2') and has(o_a, 'call:' + COMP[0]) and has(o_i, 'call:' + COMP[0])
                    inst = 'create_artifact_task: record.certificate_id <- certificate.hash, type <- signed_entity_type, artifact/id <- computed artifact'
                    if ok:
                        R.ok('b', 'R5', inst, '', t.loc())
                    else:
                        R.violation('b', 'R5', inst, 'artifact_task:record-fields', 'cert %s type %s' % (sorted(o_c)[:3], sorted(o_t)[:3]), t.loc())
        for c in ctx.call_sites(body, COMP):
            if has(fn_origins(lt, c.args[2], True), 'p#3') and has(fn_origins(lt, c.args[1], True), 'p#2'):
                R.ok('b', 'R5', 'create_artifact_task: the artifact is computed for the given type and certificate', '', t.loc())
            else:
                R.violation('b', 'R5', 'create_artifact_task: the artifact is computed for the given type and certificate', 'artifact_task:compute-args', '', t.loc())
    tr_ = ctx.try_fn('b', SM + 'transition_from_signing_to_ready_multisignature')
    if tr_ is not None:
        lt = tr_.logic()
        RT = '*::AggregatorRunnerTrait::'
        ctx.order('b', tr_, ('create_certificate', [RT + 'create_certificate']), ('create_artifact', [RT + 'create_artifact']))
        for c in ctx.call_sites(lt.body, [RT + 'create_artifact']):
            og = fn_origins(lt, c.args[2], True)
            ot = fn_origins(lt, c.args[1], True)
            if has(og, 'call:' + RT + 'create_certificate') and has(ot, 'pty:SigningState.open_message.signed_entity_type*'):
                R.ok('b', 'R5', 'Signing->Ready: create_artifact(entity of the open message, certificate returned by create_certificate)', '', tr_.loc())
            else:
                R.violation('b', 'R5', 'Signing->Ready: create_artifact(entity of the open message, certificate returned by create_certificate)',
                            'signing_ready:artifact-args', 'cert %s' % sorted(o for o in og if o.startswith('call:mithril'))[:3], tr_.loc())
        for c in ctx.call_sites(lt.body, [RT + 'create_certificate']):
            if has(fn_origins(lt, c.args[1], True), 'pty:SigningState.open_message.signed_entity_type*'):
                R.ok('b', 'R5', 'Signing->Ready: create_certificate for the open message of the Signing state', '', tr_.loc())
            else:
                R.violation('b', 'R5', 'Signing->Ready: create_certificate for the open message of the Signing state', 'signing_ready:certificate-arg', '', tr_.loc())
        # ---- (c)
        body = lt.body
        kinds = {}
        for g in lt.family():
            for b in g.body.blocks:
                for (_, pl, rv) in b.stmts:
                    if rv[0] == 'agg' and rv[2] and rv[2].endswith('::RuntimeError'):
                        kinds.setdefault(rv[4], []).append(g)
        # the closure handed to map_err on create_artifact builds ReInit; the ok_or_else on create_certificate builds KeepState
        from engine import closure_args
        okc = False
        oka = False
        for c in body.calls():
            cls = [x for n in closure_args(body, c) for x in ws.by_name.get(n, [])]
            if not cls:
                continue
            og = fn_origins(lt, c.args[0], 'adapters')
            built = {rv[4] for g in cls for b in g.body.blocks for (_, pl, rv) in b.stmts if rv[0] == 'agg' and rv[2] and rv[2].endswith('::RuntimeError')}
            if has(og, 'call:' + RT + 'create_artifact') and built == {'ReInit'}:
                oka = True
            if has(og, 'call:' + RT + 'create_certificate') and built == {'KeepState'}:
                okc = True
        # the same mappings written in the body instead of in closures (`if let Err(e) = .. { return Err(ReInit { .. e .. }) }`,
        # `let Some(cert) = .. else { return Err(RuntimeError::keep_state(..)) }`)
        def _builders(variant):
            out_ = []
            for bi_, b_ in enumerate(body.blocks):
                if b_.cleanup:
                    continue
                for (_l, pl_, rv_) in b_.stmts:
                    if rv_[0] == 'agg' and rv_[2] and rv_[2].endswith('::RuntimeError') and rv_[4] == variant:
                        out_.append((bi_, rv_))
                if b_.term[0] == 'call':
                    c_ = b_.term[1]
                    for n_ in c_.names():
                        for k_ in ws.by_name.get(n_, []):
                            if k_.name.rsplit('::', 2)[-2:-1] == ['RuntimeError'] and any(a_.endswith('::RuntimeError') and True for (a_, v_) in k_.aggs):
                                vs_ = {rv2[4] for bb2 in k_.body.blocks for (_x, _p, rv2) in bb2.stmts if rv2[0] == 'agg' and rv2[2] and rv2[2].endswith('::RuntimeError')}
                                if vs_ == {variant}:
                                    out_.append((bi_, c_))
            return out_
        if not oka:
            for bi_, rv_ in _builders('ReInit'):
                ops = rv_[5] if isinstance(rv_, tuple) else rv_.args
                if any(has(fn_origins(lt, o_, True), 'call:' + RT + 'create_artifact') for o_ in ops if o_[0] in ('copy', 'move')):
                    oka = True
        if not okc:
            none_edges = set()
            for l_, (ty_, nm_) in enumerate(body.locals):
                if ty_.startswith('std::option::Option<') and 'Certificate' in ty_ and has(fn_origins(lt, ('copy', (l_, ())), True), 'call:' + RT + 'create_certificate'):
                    none_edges |= track_result(body, l_, -1, 'option').success_edges
            if none_edges:
                r_wo = body.reach([0], removed=none_edges)
                ks = _builders('KeepState')
                if ks and all(bi_ not in r_wo for bi_, _ in ks):
                    okc = True
        if oka:
            R.ok('c', 'R1', 'Signing->Ready: an artifact failure is mapped to RuntimeError::ReInit', '', tr_.loc())
        else:
            R.violation('c', 'R1', 'Signing->Ready: an artifact failure is mapped to RuntimeError::ReInit', 'signing_ready:artifact-error', '', tr_.loc())
        if okc:
            R.ok('c', 'R1', 'Signing->Ready: "no certificate yet" is mapped to RuntimeError::KeepState', '', tr_.loc())
        else:
            R.violation('c', 'R1', 'Signing->Ready: "no certificate yet" is mapped to RuntimeError::KeepState', 'signing_ready:none-error', '', tr_.loc())

    # ---- (d)  decided on the calls of the lock API anywhere under create_artifact (the steps may sit in private helpers)
    ca = ctx.try_fn('d', CA)
    if ca is not None:
        lc = ca.logic()
        SL = 'mithril_signed_entity_lock::signed_entity_type_lock::SignedEntityTypeLock::'
        LOCK, REL, ISL = [SL + 'lock'], [SL + 'release'], [SL + 'is_locked']
        SPAWN = ['tokio::task::spawn*', 'tokio::spawn*', 'tokio::task::spawn::spawn*']
        inst = 'create_artifact: lock before spawn; the spawned task releases the lock on every exit'
        problems = []
        root = getattr(ca, '_orig', ca).root()

        def _sites(pats):
            try:
                return ctx.closure_sites(CA, pats, depth=3)
            except Exception:  # noqa
                return []
        locks, rels, isls = _sites(LOCK), _sites(REL), _sites(ISL)
        spawns = ctx.call_sites(lc.body, SPAWN)
        if not locks:
            problems.append('no lock call')
        if not rels:
            problems.append('no release call in the spawned task')
        if not spawns:
            problems.append('no spawn in create_artifact')
        # the locked / released entity type is the one create_artifact was given
        for what, sites in (('locked', locks), ('released', rels)):
            for g, c in sites:
                if not has(ctx.deep(CA, g, c.args[1], True, up=3, depth=3), 'p#2'):
                    problems.append('%s entity type does not derive from signed_entity_type' % what)
        # every exit of a releasing body has passed a release
        for g in {id(g): g for g, _ in rels}.values():
            body = g.body
            rs_ = ctx.call_sites(body, REL)
            removed = {(c.bb, c.target) for c in rs_}
            rets = {bi for bi, b in enumerate(body.blocks) if b.term[0] == 'ret' and not b.cleanup}
            if rets & body.reach([0], removed=removed):
                problems.append('%s can return without releasing the lock' % fn_short(g.name))
            # ... and that body is what is spawned (the coroutine nested in create_artifact, or a method whose future is handed to spawn)
            if getattr(g, '_orig', g).root() is not root:
                hn = getattr(g, '_orig', g).root().name
                if not any(has(fn_origins(lc, c.args[0], True), 'call:' + hn) for c in spawns if c.args):
                    problems.append('the releasing task %s is not the one spawned' % fn_short(hn))
        # an already locked entity is refused, and the lock is taken before the task is spawned
        gate_names = []
        for g, c in isls:
            body = g.body
            rem = track_result(body, c.dest[0], -1).success_edges
            from engine import ty_class
            succ = {'result': 'ok', 'option': 'some', 'bool': 'true'}.get(ty_class(g.ret), 'any')
            if not rem or success_reachable(body, rem, succ):
                problems.append('an already locked entity type is not refused')
            if any(lk.bb in body.reach([0], removed=rem) for lk in ctx.call_sites(body, LOCK)):
                problems.append('the lock is taken although the entity type is already locked')
            if getattr(g, '_orig', g).root() is not root:
                gate_names.append(getattr(g, '_orig', g).root().name)
        if not isls:
            problems.append('an already locked entity type is not refused')
        lock_steps = ctx.call_sites(lc.body, LOCK)
        step_edges = {(c.bb, c.target) for c in lock_steps if c.target is not None}
        helper_names = sorted({getattr(g, '_orig', g).root().name for g, _ in locks if getattr(g, '_orig', g).root() is not root})
        if helper_names:
            hs, he = ctx.success_edges_of(lc, helper_names, +1)
            step_edges |= he
            # the helper's failure (already locked) must not be ignored by create_artifact
            if gate_names and not he:
                problems.append('the result of the locking helper is not branched on')
        if spawns and step_edges:
            reach = lc.body.reach([0], removed=step_edges)
            if any(c.bb in reach for c in spawns):
                problems.append('the task can be spawned before the lock is taken')
        elif spawns and locks:
            problems.append('the lock step is not on the way to the spawn')
        if problems:
            R.violation('d', 'R2', inst, 'create_artifact:lock-pairing', '; '.join(sorted(set(problems))), ca.loc())
        else:
            R.ok('d', 'R2', inst, '%d lock, %d release, %d refusal site(s)' % (len(locks), len(rels), len(isls)), ca.loc())


# ---- (e) added after seed C15-2: what a restart finds
_run_c15 = run


def run(ctx):  # noqa: F811
    _run_c15(ctx)
    from props.shared import open_message_prune_rule
    ctx.report.clause('e', 'the clean-up that runs at every restart keeps the current epoch\'s open messages and their signatures')
    open_message_prune_rule(ctx, 'e', 'together (by cascade) with every single signature already registered for the in-flight rounds: after a restart '
                                      'the interrupted round cannot be completed from the persisted state')
