"""C08 - the signing lottery (very narrow; DESIGN.md section 4, C08)."""
from core import glob_match
from engine import fn_origins, loop_body_entry, Sink
from props.common import Ctx, fn_short  # noqa: F401

EXPLANATION = (
    'Static rules (very narrow): (a) signer and verifier take the same decision procedure with the same roles - '
    'is_lottery_won has exactly the two expected callers (signer lottery loop, verifier index check) and at both phi_f, the '
    'dense-mapping draw over (sigma, message, index), the party stake and the total stake arrive in the same argument '
    'positions; evaluate_dense_mapping has one definition and hashes (msg, index, sigma); (b) the decision is a deterministic '
    'function of its four arguments: the workspace+std call closure of is_lottery_won contains no clock, RNG, file, env, '
    'thread-local or global state; (c) the signer only tries indices in [0,m); (d) stake and total stake reach the rational '
    'arithmetic through value-preserving conversions only (no narrowing, sign-changing or float cast, no shift / mask / division on the '
    'machine integers) - a necessary condition of exactness for totals up to 2^64-1. Does NOT decide the core of the property: '
    'exactness of the Taylor comparison, the error band, monotonicity, the zero-stake and phi_f=1 outcomes are numerical '
    'statements over a continuum.')

ASSUMPTIONS = ['num-bigint / num-rational arithmetic is exact (default num-integer backend)']

ELIG = 'mithril_stm::proof_system::concatenation::eligibility::'
LOT = ELIG + 'is_lottery_won'
DENSE = 'mithril_stm::signature_scheme::bls_multi_signature::signature::BlsSignature::evaluate_dense_mapping'
SIGNER = 'mithril_stm::proof_system::concatenation::signer::ConcatenationProofSigner::check_lottery'
VERIF = 'mithril_stm::proof_system::concatenation::single_signature::SingleSignatureForConcatenation::check_indices'

IMPURE = ['std::time::*', 'std::thread::*', 'std::fs::*', 'std::env::*', 'std::net::*', 'std::io::*', 'std::process::*',
          'rand*::*', '<rand* as *', 'getrandom::*', 'chrono::*::now*', 'std::sync::*', 'std::cell::*', 'std::collections::hash::map::HashMap*::iter*',
          'std::collections::hash::*RandomState*', 'tokio::*', 'std::hash::random::*']


def has(og, pat):
    # a field path under the named origin also counts (getters spliced by the inliner make origins more precise)
    return any(glob_match(pat, o) or (pat[-1] != '*' and glob_match(pat + '.*', o)) for o in og)


def run(ctx):
    R = ctx.report
    ws = ctx.ws
    R.clause('a', 'signer and verifier use the same decision procedure with the same argument roles')
    R.clause('b', 'the decision is a deterministic function of its four arguments (effect-free closure)')
    R.clause('c', 'the signer only tries indices in [0,m)')

    # (callers folded into the exported / named function they are a private helper of)
    from engine import who_calls
    allowed_, offenders_ = who_calls(ws, [LOT], [(SIGNER + '*', 'signer lottery loop'), (VERIF + '*', 'verifier index check')])
    offenders_ = [(f_, l_) for f_, l_ in offenders_ if f_.unit.tag == 'lib']
    both_roles = bool(ctx.closure_sites(SIGNER, [LOT], depth=3)) and bool(ctx.closure_sites(VERIF, [LOT], depth=3))
    callers = sorted({f.root().name for f, _ in ws.callers_of(LOT) if f.unit.tag == 'lib'})
    if not offenders_ and both_roles:
        R.ok('a', 'R3', 'is_lottery_won has exactly two callers: signer lottery loop and verifier index check', '')
    else:
        R.violation('a', 'R3', 'is_lottery_won has exactly two callers: signer lottery loop and verifier index check', 'lottery:callers', str(callers), None)
    if len(ws.find_all(DENSE)) == 1 and len(ws.find_all(LOT)) == 1:
        R.ok('a', 'R3', 'one definition of evaluate_dense_mapping and of is_lottery_won', '')
    else:
        R.violation('a', 'R3', 'one definition of evaluate_dense_mapping and of is_lottery_won', 'lottery:defs', '', None)
    roles = {
        SIGNER: (['pty:ConcatenationProofSigner.parameters.phi_f'], ['call:' + DENSE], ['pty:ConcatenationProofSigner.stake'], ['pty:ConcatenationProofSigner.total_stake'],
                 ['p#3'], ['p#2']),
        VERIF: (['pty:Parameters.phi_f'], ['call:' + DENSE], ['p#3'], ['p#5'], ['pty:SingleSignatureForConcatenation.sigma'], ['p#4']),
    }
    for fn, (phi, ev, st, tot, sigma, msg) in roles.items():
        f = ctx.try_fn('a', fn)
        if f is None:
            continue
        ctx.arg_origin('a', f, LOT, 0, require=phi, desc='(phi_f)')
        ctx.arg_origin('a', f, LOT, 1, require=ev, desc='(draw) <- evaluate_dense_mapping', through_calls=False)
        ctx.arg_origin('a', f, LOT, 2, require=st, forbid=tot, desc='(stake)')
        ctx.arg_origin('a', f, LOT, 3, require=tot, forbid=st, desc='(total stake)')
        ctx.arg_origin('a', f, DENSE, 0, require=sigma, desc='(sigma)')
        ctx.arg_origin('a', f, DENSE, 1, require=msg, desc='(message || commitment)')
    dm = ctx.try_fn('a', DENSE)
    if dm is not None:
        body = dm.body
        ups = [c for c in body.calls() if any(glob_match('*::update', n) or glob_match('*::chain*', n) for n in c.names())]
        fed = set()
        for c in ups:
            if len(c.args) > 1:
                og = fn_origins(dm, c.args[1], True)
                for k, pat in (('msg', 'p#2'), ('index', 'p#3'), ('sigma', 'p#1*')):
                    if has(og, pat):
                        fed.add(k)
        if fed == {'msg', 'index', 'sigma'}:
            R.ok('a', 'R4', 'evaluate_dense_mapping hashes message, index and sigma', '%d update sites' % len(ups), dm.loc())
        else:
            R.violation('a', 'R4', 'evaluate_dense_mapping hashes message, index and sigma', 'dense_mapping:inputs', 'fed: %s' % sorted(fed), dm.loc())

    # ---- (b) purity of the closure
    lf = ctx.try_fn('b', LOT)
    if lf is not None:
        seen = {}
        work = [lf]
        ext = set()
        while work:
            g = work.pop()
            if g.name in seen:
                continue
            seen[g.name] = g
            for h in g.family():
                for callee, resolved, line in h.calls:
                    n = resolved or callee
                    if n in ws.by_name:
                        for k in ws.by_name[n]:
                            if k.unit.crate == 'mithril_stm' and k.name not in seen:
                                work.append(k)
                    else:
                        ext.add(n)
                # statics / thread locals
                for b in h.body.blocks:
                    for (_, pl, rv) in b.stmts:
                        if rv[0] == 'tlr':
                            ext.add('thread_local:' + str(rv[1]))
        bad = sorted(n for n in ext if any(glob_match(p, n) for p in IMPURE) or n.startswith('thread_local:'))
        if bad:
            R.violation('b', 'R11', 'is_lottery_won: effect-free call closure', 'lottery:purity', 'impure callees: %s' % bad[:6], lf.loc())
        else:
            R.ok('b', 'R11', 'is_lottery_won: effect-free call closure', '%d workspace fns, %d external callees (arithmetic / conversions)' % (len(seen), len(ext)), lf.loc())

    # ---- (c)
    sf = ctx.try_fn('c', SIGNER)
    if sf is not None:
        body = sf.body
        ok = False
        for b in body.blocks:
            for (_, pl, rv) in b.stmts:
                if rv[0] == 'agg' and rv[2] == 'std::ops::range::Range' and len(rv[5]) == 2:
                    lo, hi = rv[5]
                    if body.const_of(lo) == 0 and has(fn_origins(sf, hi, 'adapters'), 'pty:ConcatenationProofSigner.parameters.m'):
                        ok = True
        sites = [c for c in body.calls() if any(glob_match(LOT, n) for n in c.names())]
        inloop = all(loop_body_entry(body, c.bb) is not None for c in sites) and bool(sites)
        if not sites:
            # `(0..m).filter(|&index| .. is_lottery_won(..))`: the lottery is evaluated in a closure applied to the elements of the range
            for g in sf.family():
                if g is sf:
                    continue
                for c in g.body.calls():
                    if any(glob_match(DENSE, n) for n in c.names()) and len(c.args) > 2 and \
                            has(fn_origins(g, c.args[2], True), 'adt:std::ops::range::Range::Range') and \
                            has(fn_origins(g, c.args[2], True), 'pty:ConcatenationProofSigner.parameters.m'):
                        inloop = True
        if ok and inloop:
            R.ok('c', 'R6', 'check_lottery iterates the half-open range 0..parameters.m', '', sf.loc())
        else:
            R.violation('c', 'R6', 'check_lottery iterates the half-open range 0..parameters.m', 'signer:range', 'range 0..m found: %s, lottery call in loop: %s' % (ok, inloop), sf.loc())
        # the index tried is the index drawn and the index reported
        for c in sites:
            pass
        ctx.arg_origin('c', sf, DENSE, 2, require_any=['call:*Iterator*::next', 'adt:std::ops::range::Range::Range'], desc='(index) <- loop variable')


# ---- (d) added after seed C08-2: lossless transport of the integer inputs
LOSSLESS_FROM_U64 = {'u64', 'usize', 'u128', 'i128'}
LOSSY_CALLS = ['*::to_f64', '*::to_f32', '*::to_i64', '*::to_i32', '*::to_u32', '*ToPrimitive*', '*::as_', '*::wrapping_*', '*::saturating_*',
               '*::truncate', '*::to_string', '*::from_str*']


def run_inputs(ctx):
    from engine import flows_forward
    R = ctx.report
    R.clause('d', 'stake and total stake reach the rational arithmetic through value-preserving conversions only')
    f = ctx.try_fn('d', LOT)
    if f is None:
        return
    body = f.body
    # params: _1 phi_f, _2 ev, _3 stake, _4 total_stake
    if body.argc != 4 or body.lty(3) != 'u64' or body.lty(4) != 'u64':
        R.missing('d', 'is_lottery_won(phi_f, ev, stake: u64, total_stake: u64): unexpected signature %s' % [body.lty(i) for i in range(1, body.argc + 1)])
        return
    # locals that still hold a machine integer derived from stake / total_stake (flow stops at non-integer types: BigInt, Ratio)
    ints = ('u8', 'u16', 'u32', 'u64', 'u128', 'usize', 'i8', 'i16', 'i32', 'i64', 'i128', 'isize', 'f32', 'f64')
    der = {3, 4}
    changed = True
    bad = []
    while changed:
        changed = False
        for b in body.blocks:
            if b.cleanup:
                continue
            for (ln, pl, rv) in b.stmts:
                if pl[1] or pl[0] in der:
                    continue
                srcs = []
                if rv[0] in ('use', 'cast', 'un'):
                    o = rv[1] if rv[0] == 'use' else rv[2]
                    if o[0] in ('copy', 'move') and not o[1][1]:
                        srcs.append(o[1][0])
                elif rv[0] == 'bin':
                    for o in (rv[2], rv[3]):
                        if o[0] in ('copy', 'move') and not o[1][1]:
                            srcs.append(o[1][0])
                if any(s in der for s in srcs) and body.lty(pl[0]).lstrip('&') in ints:
                    der.add(pl[0])
                    changed = True
    for b in body.blocks:
        if b.cleanup:
            continue
        for (ln, pl, rv) in b.stmts:
            if rv[0] == 'cast' and rv[2][0] in ('copy', 'move') and rv[2][1][0] in der:
                src_ty = body.lty(rv[2][1][0])
                dst_ty = rv[3]
                if src_ty in ('u64', 'usize') and dst_ty not in LOSSLESS_FROM_U64:
                    bad.append('`%s as %s` at line %s' % (src_ty, dst_ty, ln))
                elif src_ty not in ('u64', 'usize') and dst_ty != src_ty:
                    bad.append('`%s as %s` at line %s' % (src_ty, dst_ty, ln))
            if rv[0] == 'bin' and rv[1] in ('Shr', 'Shl', 'BitAnd', 'Rem', 'Div') and any(
                    o[0] in ('copy', 'move') and o[1][0] in der for o in (rv[2], rv[3])):
                bad.append('%s on the stake at line %s' % (rv[1], ln))
        if b.term[0] == 'call':
            c = b.term[1]
            if any(a[0] in ('copy', 'move') and a[1][0] in der for a in c.args) and any(glob_match(p, n) for n in c.names() for p in LOSSY_CALLS):
                bad.append('%s at line %s' % (fn_short(c.best()), c.line))
    # non-vacuity: both values are actually consumed by a conversion call
    used = {3: False, 4: False}
    for c in body.calls():
        for a in c.args:
            if a[0] in ('copy', 'move') and a[1][0] in der:
                for k in (3, 4):
                    if a[1][0] == k or k in _roots(body, a[1][0], der):
                        used[k] = True
    inst = 'is_lottery_won: stake and total_stake are converted without narrowing / sign-changing / float casts'
    if bad:
        R.violation('d', 'R5', inst, 'lottery:lossy-input', '%s: the decision would differ from the exact comparison for stakes outside the narrowed range' % bad[:4], f.loc())
    elif not all(used.values()):
        R.violation('d', 'R5', inst, 'lottery:input-unused', 'stake used: %s, total stake used: %s' % (used[3], used[4]), f.loc())
    else:
        R.ok('d', 'R5', inst, '%d integer locals derived from the two inputs' % len(der), f.loc())


def _roots(body, l, der, depth=6):
    out = {l}
    work = [l]
    while work and depth:
        depth -= 1
        x = work.pop()
        for (bi, si, pl, rv) in body.defs(x):
            if si == 't':
                continue
            for o in ([rv[1]] if rv[0] == 'use' else [rv[2]] if rv[0] in ('cast', 'un') else [rv[2], rv[3]] if rv[0] == 'bin' else []):
                if o[0] in ('copy', 'move') and o[1][0] in der and o[1][0] not in out:
                    out.add(o[1][0])
                    work.append(o[1][0])
    return out


_run0 = run


def run_signer_stake(ctx):
    """The signer decides the lottery with the stake of its initializer; the verifier with the registered stake.  They agree because a signer
    is only created for an initializer whose WHOLE entry (key and stake) is found in the closed registration (seed C08-5: the look-up compared
    the key only, so an initializer carrying another stake got a signer)."""
    R = ctx.report
    R.clause('e', 'a signer exists only for an initializer whose (key, stake) entry is registered')
    LOOK = 'mithril_stm::protocol::key_registration::register::ClosedKeyRegistration::get_signer_index_for_registration'
    CRE = 'mithril_stm::protocol::key_registration::closed_registration_entry::ClosedRegistrationEntry'
    f = ctx.try_fn('e', LOOK)
    if f is None:
        return
    whole = False
    getters = set()
    for g in f.family():
        for c in g.body.calls():
            for n in c.names():
                if glob_match('<' + CRE + ' as std::cmp::PartialEq>::eq', n) or glob_match('<' + CRE + ' as std::cmp::PartialEq>::ne', n) or \
                        glob_match('<&' + CRE + ' as std::cmp::PartialEq*>::eq', n) or (n.endswith('PartialEq>::eq') and 'ClosedRegistrationEntry' in n) or \
                        (n.endswith(('PartialEq>::eq', 'PartialEq>::ne', 'Ord>::cmp')) and any('ClosedRegistrationEntry' in g.body.lty(a[1][0]) for a in c.args if a[0] in ('copy', 'move'))):
                    whole = True
                if 'ClosedRegistrationEntry::get_' in n:
                    getters.add(n.rsplit('::', 1)[-1])
    inst = 'get_signer_index_for_registration matches the whole registration entry (verification key and stake)'
    if whole or {'get_stake', 'get_verification_key_for_concatenation'} <= getters:
        R.ok('e', 'R4', inst, 'entry equality' if whole else 'fields compared: %s' % sorted(getters), f.loc())
    else:
        R.violation('e', 'R4', inst, 'signer-lookup:whole-entry', 'the look-up compares %s only: an initializer whose stake differs from the registered one obtains a signer, which then decides '
                    'the lottery with a stake the verifier does not use' % (sorted(getters) or 'neither the entry nor both of its fields'), f.loc())
    # the derived equality of the entry covers its fields
    ctx.field_cover('e', CRE, '<' + CRE + ' as std::cmp::PartialEq>::eq', ret_consumer=True, desc='(entry equality)')
    # and a signer is created only through that look-up
    from engine import track_result, success_reachable
    tc = ctx.try_fn('e', 'mithril_stm::protocol::participant::initializer::Initializer::try_create_signer')
    if tc is not None:
        tb = tc.body
        looks = [c for c in tb.calls() if LOOK in c.names()]
        rem = set()
        for c in looks:
            rem |= track_result(tb, c.dest[0], +1).success_edges
        inst2 = 'Initializer::try_create_signer: a signer is returned only if the look-up found the entry'
        if looks and rem and not success_reachable(tb, rem, 'ok'):
            R.ok('e', 'R1', inst2, '', tc.loc())
        else:
            R.violation('e', 'R1', inst2, 'signer-lookup:gates', 'look-up sites %d; Ok reachable without its Some outcome' % len(looks), tc.loc())
        # the entry looked up carries the initializer's own stake and key
        for c in looks:
            og = fn_origins(tc, c.args[1], True)
            if has(og, 'pty:Initializer.stake') and (has(og, 'pty:Initializer.bls_verification_key_proof_of_possession') or has(og, 'pty:Initializer.*verification_key*')):
                R.ok('e', 'R5', 'Initializer::try_create_signer: the entry looked up is built from the initializer\'s own key and stake', '', tc.loc())
            else:
                R.violation('e', 'R5', 'Initializer::try_create_signer: the entry looked up is built from the initializer\'s own key and stake', 'signer-lookup:entry-origin',
                            str(sorted(o for o in og if o.startswith('pty:'))[:6]), tc.loc())


def run(ctx):  # noqa: F811
    _run0(ctx)
    run_inputs(ctx)
    run_signer_stake(ctx)
