"""C08 - the signing lottery (very narrow; DESIGN.md section 4, C08)."""
from core import glob_match
from engine import fn_origins, loop_body_entry
from props.common import Ctx, fn_short  # noqa: F401

EXPLANATION = (
    'Static rules (very narrow): (a) signer and verifier take the same decision procedure with the same roles - '
    'is_lottery_won has exactly the two expected callers (signer lottery loop, verifier index check) and at both phi_f, the '
    'dense-mapping draw over (sigma, message, index), the party stake and the total stake arrive in the same argument '
    'positions; evaluate_dense_mapping has one definition and hashes (msg, index, sigma); (b) the decision is a deterministic '
    'function of its four arguments: the workspace+std call closure of is_lottery_won contains no clock, RNG, file, env, '
    'thread-local or global state; (c) the signer only tries indices in [0,m). Does NOT decide the core of the property: '
    'exactness of the Taylor comparison, the error band, monotonicity, the zero-stake and phi_f=1 outcomes are numerical '
    'statements over a continuum.')

ASSUMPTIONS = ['num-bigint / num-rational arithmetic is exact (default num-integer backend)']

ELIG = 'mithril_stm::proof_system::concatenation::eligibility::'
LOT = ELIG + 'is_lottery_won'
DENSE = 'mithril_stm::signature_scheme::bls_multi_signature::signature::BlsSignature::evaluate_dense_mapping'
SIGNER = 'mithril_stm::proof_system::concatenation::signer::ConcatenationProofSigner::check_lottery'
VERIF = 'mithril_stm::proof_system::concatenation::single_signature::SingleSignatureForConcatenation::check_indices'

IMPURE = ['std::time::*', 'std::thread::*', 'std::fs::*', 'std::env::*', 'std::net::*', 'std::io::*', 'std::process::*',
          'rand*::*', '<rand* as *', 'getrandom::*', 'chrono::*::now*', 'std::sync::*', 'std::cell::*', 'std::collections::hash::map::HashMap*::iter*',
          'std::collections::hash::*RandomState*', 'tokio::*', 'std::hash::random::*']


def has(og, pat):
    return any(glob_match(pat, o) for o in og)


def run(ctx):
    R = ctx.report
    ws = ctx.ws
    R.clause('a', 'signer and verifier use the same decision procedure with the same argument roles')
    R.clause('b', 'the decision is a deterministic function of its four arguments (effect-free closure)')
    R.clause('c', 'the signer only tries indices in [0,m)')

    callers = sorted({f.root().name for f, _ in ws.callers_of(LOT) if f.unit.tag == 'lib'})
    if callers == sorted([SIGNER, VERIF]):
        R.ok('a', 'R3', 'is_lottery_won has exactly two callers: signer lottery loop and verifier index check', '')
    else:
        R.violation('a', 'R3', 'is_lottery_won has exactly two callers: signer lottery loop and verifier index check', 'lottery:callers', str(callers), None)
    if len(ws.find_all(DENSE)) == 1 and len(ws.find_all(LOT)) == 1:
        R.ok('a', 'R3', 'one definition of evaluate_dense_mapping and of is_lottery_won', '')
    else:
        R.violation('a', 'R3', 'one definition of evaluate_dense_mapping and of is_lottery_won', 'lottery:defs', '', None)
    roles = {
        SIGNER: (['pty:ConcatenationProofSigner.parameters.phi_f'], ['call:' + DENSE], ['pty:ConcatenationProofSigner.stake'], ['pty:ConcatenationProofSigner.total_stake'],
                 ['p#3'], ['p#2']),
        VERIF: (['pty:Parameters.phi_f'], ['call:' + DENSE], ['p#3'], ['p#5'], ['pty:SingleSignatureForConcatenation.sigma'], ['p#4']),
    }
    for fn, (phi, ev, st, tot, sigma, msg) in roles.items():
        f = ctx.try_fn('a', fn)
        if f is None:
            continue
        ctx.arg_origin('a', f, LOT, 0, require=phi, desc='(phi_f)')
        ctx.arg_origin('a', f, LOT, 1, require=ev, desc='(draw) <- evaluate_dense_mapping', through_calls=False)
        ctx.arg_origin('a', f, LOT, 2, require=st, forbid=tot, desc='(stake)')
        ctx.arg_origin('a', f, LOT, 3, require=tot, forbid=st, desc='(total stake)')
        ctx.arg_origin('a', f, DENSE, 0, require=sigma, desc='(sigma)')
        ctx.arg_origin('a', f, DENSE, 1, require=msg, desc='(message || commitment)')
    dm = ctx.try_fn('a', DENSE)
    if dm is not None:
        body = dm.body
        ups = [c for c in body.calls() if any(glob_match('*::update', n) or glob_match('*::chain*', n) for n in c.names())]
        fed = set()
        for c in ups:
            if len(c.args) > 1:
                og = fn_origins(dm, c.args[1], True)
                for k, pat in (('msg', 'p#2'), ('index', 'p#3'), ('sigma', 'p#1*')):
                    if has(og, pat):
                        fed.add(k)
        if fed == {'msg', 'index', 'sigma'}:
            R.ok('a', 'R4', 'evaluate_dense_mapping hashes message, index and sigma', '%d update sites' % len(ups), dm.loc())
        else:
            R.violation('a', 'R4', 'evaluate_dense_mapping hashes message, index and sigma', 'dense_mapping:inputs', 'fed: %s' % sorted(fed), dm.loc())

    # ---- (b) purity of the closure
    lf = ctx.try_fn('b', LOT)
    if lf is not None:
        seen = {}
        work = [lf]
        ext = set()
        while work:
            g = work.pop()
            if g.name in seen:
                continue
            seen[g.name] = g
            for h in g.family():
                for callee, resolved, line in h.calls:
                    n = resolved or callee
                    if n in ws.by_name:
                        for k in ws.by_name[n]:
                            if k.unit.crate == 'mithril_stm' and k.name not in seen:
                                work.append(k)
                    else:
                        ext.add(n)
                # statics / thread locals
                for b in h.body.blocks:
                    for (_, pl, rv) in b.stmts:
                        if rv[0] == 'tlr':
                            ext.add('thread_local:' + str(rv[1]))
        bad = sorted(n for n in ext if any(glob_match(p, n) for p in IMPURE) or n.startswith('thread_local:'))
        if bad:
            R.violation('b', 'R11', 'is_lottery_won: effect-free call closure', 'lottery:purity', 'impure callees: %s' % bad[:6], lf.loc())
        else:
            R.ok('b', 'R11', 'is_lottery_won: effect-free call closure', '%d workspace fns, %d external callees (arithmetic / conversions)' % (len(seen), len(ext)), lf.loc())

    # ---- (c)
    sf = ctx.try_fn('c', SIGNER)
    if sf is not None:
        body = sf.body
        ok = False
        for b in body.blocks:
            for (_, pl, rv) in b.stmts:
                if rv[0] == 'agg' and rv[2] == 'std::ops::range::Range' and len(rv[5]) == 2:
                    lo, hi = rv[5]
                    if body.const_of(lo) == 0 and has(fn_origins(sf, hi, 'adapters'), 'pty:ConcatenationProofSigner.parameters.m'):
                        ok = True
        sites = [c for c in body.calls() if any(glob_match(LOT, n) for n in c.names())]
        inloop = all(loop_body_entry(body, c.bb) is not None for c in sites) and bool(sites)
        if ok and inloop:
            R.ok('c', 'R6', 'check_lottery iterates the half-open range 0..parameters.m', '', sf.loc())
        else:
            R.violation('c', 'R6', 'check_lottery iterates the half-open range 0..parameters.m', 'signer:range', 'range 0..m found: %s, lottery call in loop: %s' % (ok, inloop), sf.loc())
        # the index tried is the index drawn and the index reported
        for c in sites:
            pass
        ctx.arg_origin('c', sf, DENSE, 2, require=['call:*Iterator*::next'], desc='(index) <- loop variable')
