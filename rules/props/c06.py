"""C06 - everybody derives the same aggregate key (DESIGN.md section 4, C06)."""
from core import glob_match, rvalue_reads
from engine import Sink, fn_origins, flows_forward, LOSSY_COLLECTIONS
from props.common import Ctx, fn_short  # noqa: F401

EXPLANATION = (
    'Static rules: (a) registration order cannot reach the commitment - the registration collections are ordered sets '
    '(BTreeSet fields, from the ADT facts), the Merkle leaves, the signer slot and the slot lookup all iterate that set; '
    '(b) the order is total on what a leaf commits - Ord::cmp of (Closed)RegistrationEntry reads exactly the committed '
    'fields (stake, concatenation key), the leaf byte encoding covers both leaf fields, the conversion entry->leaf moves both; '
    '(c) one computation path for all nodes - who may construct the aggregate key / the closed registration, and every node '
    'obtains it through SignerBuilder::new (non-vacuity per node); (d) total stake is the checked sum over the same set, and '
    'the key carries it. Does not decide injectivity (hash) nor codec round trips.')

ASSUMPTIONS = ['Blake2b collision resistance (distinct registration sets => distinct keys is not decided)']

S = 'mithril_stm::protocol::key_registration::'
KR = S + 'register::KeyRegistration'
CKR = S + 'register::ClosedKeyRegistration'
CRE = S + 'closed_registration_entry::ClosedRegistrationEntry'
RE = S + 'registration_entry::RegistrationEntry'
AVK = 'mithril_stm::proof_system::concatenation::aggregate_key::AggregateVerificationKeyForConcatenation'
LEAF = 'mithril_stm::membership_commitment::merkle_tree::leaf::MerkleTreeConcatenationLeaf'
SB = 'mithril_common::protocol::signer_builder::SignerBuilder'


TRUNCATING = ['*::Iterator::take', '*::Iterator::skip', '*::Iterator::step_by', '*::Iterator::filter', '*::Iterator::filter_map', '*::Iterator::take_while',
              '*::Iterator::skip_while', '*::split_at', '*::split_first', '*::split_last', '*::truncate', '*::index_mut', '*::iter_mut', '*::get_mut',
              '*::fill', '*::copy_from_slice', '*::swap', '*::first', '*::last', '*::chunks*', '*::windows',
              '<[*] as std::ops::index::Index>::index', '<[*] as std::ops::Index>::index', 'std::slice::*::get', '*::to_ascii_lowercase', '*::to_ascii_uppercase']


def has(og, pat):
    # a field path under the named origin also counts (getters spliced by the inliner make origins more precise)
    return any(glob_match(pat, o) or (pat[-1] != '*' and glob_match(pat + '.*', o)) for o in og)


_WSREF = [None]


def fields_read(f, adt_name, _depth=0):
    out = set()
    # reads through trivial accessors (`self.get_stake()`), exported or not
    if _WSREF[0] is not None and _depth < 2:
        for g in f.family():
            for c in g.body.calls():
                for k in _WSREF[0].by_name.get(c.best(), []):
                    if k.kind == 'assoc_fn' and k.nb <= 6 and k.unit.crate == getattr(f, 'unit', k.unit).crate:
                        out |= fields_read(k, adt_name, _depth + 1)
    for g in f.family():
        for b in g.body.blocks:
            if b.cleanup:
                continue
            for (_, pl, rv) in b.stmts:
                for (l, place) in rvalue_reads(rv):
                    for pe in place[1]:
                        if isinstance(pe, tuple) and pe[0] == 'f' and pe[3] == adt_name:
                            out.add(pe[2] if pe[2] else str(pe[1]))
            if b.term[0] == 'call':
                for a in b.term[1].args:
                    if a[0] in ('copy', 'move'):
                        for pe in a[1][1]:
                            if isinstance(pe, tuple) and pe[0] == 'f' and pe[3] == adt_name:
                                out.add(pe[2] if pe[2] else str(pe[1]))
    return out


def run(ctx):
    R = ctx.report
    ws = ctx.ws
    _WSREF[0] = ws
    R.clause('a', 'registration order cannot reach the commitment (ordered sets all the way)')
    R.clause('b', 'the order is total on what the leaf commits; the leaf encoding covers the leaf')
    R.clause('c', 'one computation path for all nodes')
    R.clause('d', 'total stake is the checked sum over the same set')

    # ---- (a)
    for adt_pat, field in ((KR, 'registration_entries'), (CKR, 'closed_registration_entries')):
        try:
            adt = ws.adt(adt_pat)
        except Exception as e:  # noqa
            R.missing('a', e)
            continue
        ty = [fd['ty'] for fd in adt['variants'][0]['fields'] if fd['n'] == field]
        inst = '%s.%s is an ordered set' % (fn_short(adt_pat), field)
        if ty and ty[0].startswith('std::collections::btree::set::BTreeSet<'):
            R.ok('a', 'R5', inst, ty[0][:80])
        else:
            R.violation('a', 'R5', inst, 'regset:%s' % field, 'type is %s: iteration order would depend on insertion order / hashing' % ty, None)
    for fn, what in ((CKR + '::to_merkle_tree', 'Merkle leaves'), (CKR + '::get_signer_index_for_registration', 'signer slot'),
                     (CKR + '::get_registration_entry_for_index', 'slot lookup')):
        f = ctx.try_fn('a', fn)
        if f is None:
            continue
        body = f.body
        # `.iter()` on the set, or a `for` loop over `&set` (IntoIterator on the reference)
        its = [c for c in body.calls() if any(glob_match('std::collections::btree::set::BTreeSet::iter', n) or glob_match('<&std::collections::btree::set::BTreeSet as *IntoIterator>::into_iter', n)
                                              or (glob_match('*IntoIterator*::into_iter', n) and 'BTreeSet<' in body.lty(c.args[0][1][0] if c.args and c.args[0][0] in ('copy', 'move') else 0))
                                              for n in c.names())
               and has(fn_origins(f, c.args[0], True), 'pty:ClosedKeyRegistration.closed_registration_entries')]
        # no sort / shuffle / lossy re-collection on the way
        bad = [c for c in body.calls() if any(glob_match('*::sort*', n) or glob_match('*::shuffle*', n) or glob_match('*::reverse', n) or glob_match('*::rev', n) for n in c.names())]
        lossy = [body.lname(l) for l, (ty, nm) in enumerate(body.locals) if l > body.argc and any(x in ty for x in ('HashMap<', 'HashSet<'))]
        inst = '%s: %s iterate the ordered set closed_registration_entries directly' % (fn_short(fn), what)
        if its and not bad and not lossy:
            R.ok('a', 'R5', inst, '', f.loc())
        else:
            R.violation('a', 'R5', inst, 'regset:iter:%s' % fn_short(fn), 'BTreeSet::iter sites %d, reordering calls %s, hash collections %s' % (
                len(its), [c.best() for c in bad][:3], lossy[:3]), f.loc())
    mt = ctx.try_fn('a', CKR + '::to_merkle_tree')
    if mt is not None:
        # (leaves) <- closed_registration_entries: as a value (iterator chain collected) or filled by a loop (`leaves.push(..)`)
        inst_l = 'ClosedKeyRegistration::to_merkle_tree: arg0 of MerkleTree::new (leaves) <- closed_registration_entries'
        news_ = [c for c in mt.body.calls() if any(glob_match('mithril_stm::membership_commitment::merkle_tree::tree::MerkleTree::new', n) for n in c.names())]
        starts_ = set()
        for b_ in mt.body.blocks:
            for (_l, pl_, rv_) in b_.stmts:
                for (l_, place_) in rvalue_reads(rv_):
                    if any(isinstance(pe, tuple) and pe[0] == 'f' and pe[2] == 'closed_registration_entries' for pe in place_[1]):
                        starts_.add(pl_[0])
        fl_ = flows_forward(mt.body, starts_, True, avoid_types=('HashMap<', 'HashSet<')) if starts_ else set()
        okl = bool(news_) and all(has(fn_origins(mt, c.args[0], True), 'pty:ClosedKeyRegistration.closed_registration_entries') or
                                  (c.args[0][0] in ('copy', 'move') and c.args[0][1][0] in fl_) for c in news_)
        if okl:
            R.ok('a', 'R5', inst_l, '', mt.loc())
        else:
            R.violation('a', 'R5', inst_l, 'to_merkle_tree:leaves', 'MerkleTree::new sites %d; the leaves do not derive from the ordered set' % len(news_), mt.loc())
    # closing keeps the set ordered: collected into a BTreeSet from the BTreeSet
    cr = ctx.try_fn('a', KR + '::close_registration')
    if cr is not None:
        ctx.only_constructors('c', CKR, [(KR + '::close_registration*', 'closing the registration'),
                                         ('<' + CKR + ' as *', 'derived impls (Default / Clone / Deserialize)'),
                                         (CKR + '::*', 'methods of the type'), ('*<impl serde_core::de::Deserialize*', 'serde derive')],
                              'ClosedKeyRegistration is built only by close_registration (and derives)')

    # ---- (b)
    for adt, cmpfn, committed in ((CRE, '<' + CRE + ' as std::cmp::Ord>::cmp', {'stake', 'verification_key_for_concatenation'}),
                                  (RE, '<' + RE + ' as std::cmp::Ord>::cmp', {'0', '1'})):
        f = ctx.try_fn('b', cmpfn)
        if f is None:
            continue
        rd = fields_read(f, adt)
        inst = '%s reads exactly the committed fields %s' % (fn_short(cmpfn), sorted(committed))
        if rd == committed:
            R.ok('b', 'R4', inst, '', f.loc())
        else:
            R.violation('b', 'R4', inst, 'ord:%s' % fn_short(adt), 'fields read by the ordering: %s' % sorted(rd), f.loc())
        # partial_cmp delegates to cmp
        pc = ws.find_all('<' + adt + ' as std::cmp::PartialOrd>::partial_cmp')
        if pc:
            names = [c.best() for c in pc[0].body.calls()]
            if any(n.endswith('::cmp') or n.endswith('Ord>::cmp') for n in names):
                R.ok('b', 'R4', '%s::partial_cmp delegates to cmp' % fn_short(adt), '', pc[0].loc())
            else:
                R.violation('b', 'R4', '%s::partial_cmp delegates to cmp' % fn_short(adt), 'partial_cmp:%s' % fn_short(adt), str(names[:4]), pc[0].loc())

    # the order on keys is injective: the comparator compares the complete canonical encodings
    VK = 'mithril_stm::signature_scheme::bls_multi_signature::verification_key::BlsVerificationKey'
    kc = ctx.try_fn('b', '<' + VK + ' as std::cmp::Ord>::cmp')
    if kc is not None:
        seen, work = {}, [kc]
        while work:
            f = work.pop()
            if id(f) in seen:
                continue
            seen[id(f)] = f
            for g in f.family():
                for c in g.body.calls():
                    for n in c.names():
                        if n.startswith('mithril_stm::') or n.startswith('<mithril_stm::'):
                            for h in ws.find_all(n):
                                if h.unit.crate == 'mithril_stm' and not h.name.endswith('::to_bytes') and id(h) not in seen:
                                    work.append(h)
        enc, lossy = [], []
        for f in seen.values():
            for g in f.family():
                body = g.body
                for bi, b in enumerate(body.blocks):
                    if b.cleanup:
                        continue
                    for (ln, pl, rv) in b.stmts:
                        if rv[0] == 'bin' and rv[1] in ('BitAnd', 'BitOr', 'BitXor', 'Shl', 'Shr', 'Rem', 'Div', 'ShlUnchecked', 'ShrUnchecked'):
                            lossy.append('%s at line %s' % (rv[1], ln))
                        if rv[0] == 'un' and rv[1] == 'Not' and rv[2][0] in ('copy', 'move') and body.lty(rv[2][1][0]) != 'bool':
                            lossy.append('bitwise Not at line %s' % ln)
                        if pl[1] and any((isinstance(pe, tuple) and pe[0] in ('i', 'ci')) or pe == 'i' for pe in pl[1]):
                            lossy.append('element write at line %s' % ln)
                    if b.term[0] == 'call':
                        c = b.term[1]
                        if any(n.endswith('BlsVerificationKey::to_bytes') for n in c.names()):
                            enc.append(c)
                        if any(glob_match(pt, n) for n in c.names() for pt in TRUNCATING) and not (
                                c.best().endswith('Index>::index') and ('Range' not in (c.gargs or '') or 'RangeFull' in (c.gargs or ''))):
                            lossy.append('%s at line %s' % (fn_short(c.best()), c.line))
        inst = 'Ord for BlsVerificationKey compares the complete canonical encodings of both keys (no masking / truncation)'
        if len(enc) >= 2 and not lossy:
            R.ok('b', 'R5', inst, '%d fns, %d encodings compared' % (len(seen), len(enc)), kc.loc())
        else:
            R.violation('b', 'R5', inst, 'vk_ord:complete-encoding', 'to_bytes sites %d; lossy operations in the comparator: %s - two distinct registered keys that '
                        'compare Equal collapse into one BTreeSet entry (a party silently disappears, depending on arrival order)' % (len(enc), lossy[:5]), kc.loc())
    ctx.field_cover('b', LEAF, LEAF + '::to_bytes', ret_consumer=True, desc='(leaf byte encoding)')
    conv = [f for f in ws.find_all('<std::option::Option as std::convert::From>::from') if f.unit.crate == 'mithril_stm' and 'ClosedRegistrationEntry' in f.body.lty(1)
            and 'MerkleTreeConcatenationLeaf' in f.ret]
    if not conv:
        R.missing('b', 'conversion ClosedRegistrationEntry -> Option<MerkleTreeConcatenationLeaf> not found')
    else:
        rd = fields_read(conv[0], CRE) | {c.best().rsplit('::', 1)[-1] for c in conv[0].body.calls()}
        if ({'stake', 'verification_key_for_concatenation'} <= rd) or ({'get_stake', 'get_verification_key_for_concatenation'} <= rd):
            R.ok('b', 'R4', 'entry -> leaf conversion moves stake and concatenation key', '', conv[0].loc())
        else:
            R.violation('b', 'R4', 'entry -> leaf conversion moves stake and concatenation key', 'leaf:conversion', str(sorted(rd)), conv[0].loc())

    # ---- (c)
    ctx.only_constructors('c', AVK, [('<' + AVK + ' as std::convert::From>::from*', 'from the closed registration'),
                                     (AVK + '::from_bytes_legacy*', 'decoder'), ('<' + AVK + ' as *', 'derived impls'),
                                     ('*<impl serde_core::de::Deserialize*', 'serde derive'), (AVK + '::*', 'methods of the type')],
                          'the aggregate key is built only from a closed registration (or decoded)')
    fr = [f for f in ws.find_all('<' + AVK + ' as std::convert::From>::from') if 'ClosedKeyRegistration' in f.body.lty(1)]
    if fr:
        f = ctx.view(fr[0])
        for b in f.body.blocks:
            for (_, pl, rv) in b.stmts:
                if rv[0] == 'agg' and rv[2] == AVK:
                    o0 = fn_origins(f, rv[5][0], True)
                    o1 = fn_origins(f, rv[5][1], 'adapters')
                    if ctx.via_sink(o0, CKR + '::to_merkle_tree') and has(o1, 'pty:ClosedKeyRegistration.total_stake'):
                        R.ok('d', 'R5', 'AVK::from(closed registration): commitment <- to_merkle_tree(), total_stake <- reg.total_stake', '', f.loc())
                    else:
                        R.violation('d', 'R5', 'AVK::from(closed registration): commitment <- to_merkle_tree(), total_stake <- reg.total_stake', 'avk:from-fields', '', f.loc())
    # every node goes through SignerBuilder::new
    per_node = {}
    for f, line in ws.callers_of(SB + '::new'):
        if f.unit.tag != 'lib':
            continue
        per_node.setdefault(f.unit.crate, set()).add(fn_short(f.root().name))
    need = ['mithril_aggregator', 'mithril_signer', 'mithril_client']
    miss = [n for n in need if n not in per_node]
    if miss:
        R.violation('c', 'R3', 'aggregator, signer and client obtain the key through SignerBuilder::new', 'signer_builder:per-node',
                    'no SignerBuilder::new call site in %s' % miss, None)
    else:
        R.ok('c', 'R3', 'aggregator, signer and client obtain the key through SignerBuilder::new', str({k: len(v) for k, v in per_node.items()}))
    # nobody outside mithril-stm / mithril-common::protocol builds a key registration by hand
    off = []
    for f, line in ws.callers_of(['mithril_common::crypto_helper::cardano::key_certification::KeyRegWrapper::init', KR + '::initialize']):
        r = f.root().name
        if f.unit.tag != 'lib':
            continue
        if r.startswith(('mithril_common::protocol::signer_builder::', 'mithril_common::crypto_helper::', '<mithril_aggregator::services::signer_registration::verifier::',
                         'mithril_stm::', '<mithril_stm::', 'mithril_common::test::', 'mithril_end_to_end::', 'mithrildemo::', '<mithril_common::crypto_helper::')):
            continue
        off.append(r)
    if off:
        R.violation('c', 'R3', 'key registrations are built only by SignerBuilder (and the registration verifier)', 'keyreg:builders', str(sorted(set(off))[:5]), None)
    else:
        R.ok('c', 'R3', 'key registrations are built only by SignerBuilder (and the registration verifier)', '')
    sb = ctx.try_fn('c', SB + '::new')
    if sb is not None:
        # every given signer is registered (loop over registered_signers), stake distribution from the same list
        ctx.r1('c', SB + '::new', Sink('KeyRegWrapper::register (each signer)', 'mithril_common::crypto_helper::cardano::key_certification::KeyRegWrapper::register', 'ok', per_item=True))
        ctx.arg_origin('c', SB + '::new', 'mithril_common::crypto_helper::cardano::key_certification::KeyRegWrapper::init', 0, require=['p#1'],
                       desc='(stake distribution) <- registered_signers')
        ctx.arg_origin('c', SB + '::new', 'mithril_common::crypto_helper::cardano::key_certification::KeyRegWrapper::close', 1, require=['p#2'],
                       desc='(parameters) <- protocol_parameters')
    for fn in (SB + '::compute_aggregate_verification_key', SB + '::build_multi_signer'):
        f = ctx.try_fn('c', fn)
        if f is not None:
            cs = [c for c in f.body.calls() if 'new_clerk_from_closed_key_registration' in c.best()]
            if cs and all(has(fn_origins(f, c.args[1], True), 'pty:SignerBuilder.closed_key_registration') for c in cs):
                R.ok('c', 'R5', '%s: clerk <- self.closed_key_registration' % fn_short(fn), '', f.loc())
            else:
                R.violation('c', 'R5', '%s: clerk <- self.closed_key_registration' % fn_short(fn), 'signer_builder:clerk:%s' % fn_short(fn), '', f.loc())

    # ---- (d)
    if cr is not None:
        body = cr.body
        # data flow, however the sum is written (fold / try_fold / for loop, in place or in a helper): the total stake stored in the closed
        # registration derives from the stakes of registration_entries through checked_add (and through no unchecked addition)
        checked = src_ok = False
        try:
            adt_c = ws.adt(CKR)
            ti = [fd['n'] for fd in adt_c['variants'][0]['fields']].index('total_stake')
        except Exception as e:  # noqa
            R.missing('d', e)
            ti = None
        if ti is not None:
            for g, rv, ln in ctx.closure_aggs(KR + '::close_registration', CKR):
                og = ctx.deep(KR + '::close_registration', g, rv[5][ti])
                checked = has(og, 'call:u64::checked_add') or has(og, 'call:*::checked_add')
                # ... or inside the closure the sum is folded with (`try_fold(0, |acc, e| acc.checked_add(e.stake))`)
                for o_ in og:
                    if o_.startswith('closure:'):
                        for cl_ in ws.by_name.get(o_[8:], []):
                            if any(n_.endswith('::checked_add') for (ca_, re_, _l) in cl_.calls for n_ in (ca_, re_) if n_):
                                checked = True
                src_ok = has(og, 'pty:KeyRegistration.registration_entries')
            raw_add = []
            for g in [cr] + [x for x in cr.family() if x is not cr]:
                for b_ in g.body.blocks:
                    for (ln_, pl_, rv_) in b_.stmts:
                        if rv_[0] == 'bin' and rv_[1] in ('Add', 'AddWithOverflow') and 'u64' in g.body.lty(pl_[0]):
                            raw_add.append(ln_)
            if raw_add:
                checked = False
        if checked and src_ok:
            R.ok('d', 'R5', 'close_registration: total stake = checked_add fold over registration_entries', '', cr.loc())
        else:
            R.violation('d', 'R5', 'close_registration: total stake = checked_add fold over registration_entries', 'close:total-stake',
                        'checked_add: %s, folds over the entries: %s' % (checked, src_ok), cr.loc())
        for b in body.blocks:
            for (_, pl, rv) in b.stmts:
                if rv[0] == 'agg' and rv[2] == CKR:
                    o0 = fn_origins(cr, rv[5][0], True)
                    if has(o0, 'pty:KeyRegistration.registration_entries'):
                        R.ok('d', 'R5', 'close_registration: closed entries <- registration_entries (same set)', '', cr.loc())
                    else:
                        R.violation('d', 'R5', 'close_registration: closed entries <- registration_entries (same set)', 'close:entries', '', cr.loc())

    # ---- (e) the nodes feed the SAME registered set into that one computation path
    R.clause('e', 'the signer associates every registered signer with a stake (or fails); the served stake distribution is the signed one')
    from engine import track_result, success_reachable, return_assigns, ok_payload
    DROPPING = ('call:*Iterator>::filter', 'call:*Iterator::filter', 'call:*::filter_map', 'call:*::flatten', 'call:*::flat_map', 'call:*::retain', 'call:*::take_while',
                'call:*::skip_while', 'call:*::take', 'call:*::skip', 'call:*::dedup*', 'call:*::truncate', 'call:*::drain', 'call:*::step_by')
    ASSOC = 'mithril_signer::services::epoch_service::MithrilEpochService::associate_signers_with_stake'
    af = ctx.try_fn('e', ASSOC)
    if af is not None:
        la = af.logic()
        body = la.body
        problems = []
        # (1) nothing between the registered signers and the returned list can drop an element
        for sp in return_assigns(body, 'ok')[0]:
            x = ok_payload(body, sp)
            if x is None:
                continue
            og = fn_origins(la, x, True)
            dr = sorted(o for o in og if any(glob_match(q, o) for q in DROPPING))
            if dr:
                problems.append('the returned list passes %s' % [fn_short(o[5:]) for o in dr][:3])
        # (2) a signer without a stake is a failure: from the stake look-up, Ok is reachable only through its Some outcome
        gets = [c for c in body.calls() if any(n.endswith(('::get', '::get_key_value', '::remove')) and ('HashMap' in n or 'BTreeMap' in n) for n in c.names())
                and has(fn_origins(la, c.args[0], True), 'call:*::StakeStorer::get_stakes')]
        for c in gets:
            tr = track_result(body, c.dest[0], +1)
            if not tr.success_edges or (c.target is not None and success_reachable(body, tr.success_edges, 'ok', starts=[c.target])):
                problems.append('Ok is reachable although the stake look-up at line %d found nothing (the signer is skipped, not refused)' % c.line)
        if not gets and not any(o for o in problems):
            # the look-up moved into a closure (map / try_fold ...): accepted when (1) holds and the closure propagates the miss as an error
            pass
        inst = 'signer: associate_signers_with_stake keeps every registered signer or fails (a signer without stake is never dropped)'
        if problems:
            R.violation('e', 'R1', inst, 'signer:association-total', '; '.join(sorted(set(problems))), af.loc())
        else:
            R.ok('e', 'R1', inst, '%d stake look-up site(s) in the body' % len(gets), af.loc())
    # the Mithril stake distribution served to clients is the set whose key the certificate signs (next epoch's signers)
    MSDB = '<mithril_aggregator::artifact_builder::mithril_stake_distribution::MithrilStakeDistributionArtifactBuilder as mithril_aggregator::artifact_builder::interface::ArtifactBuilder<*>>::compute_artifact'
    MSDB2 = '<mithril_aggregator::artifact_builder::mithril_stake_distribution::MithrilStakeDistributionArtifactBuilder as *>::compute_artifact'
    NEW = ['mithril_common::entities::mithril_stake_distribution::MithrilStakeDistribution::new']
    mf = ctx.ws.find_all(MSDB2)
    if not mf:
        R.missing('e', 'MithrilStakeDistributionArtifactBuilder::compute_artifact not found')
    else:
        ctx.sink_arg('e', mf[0].root().name, NEW, 1, require=['call:*::EpochService::next_signers_with_stake'], forbid=['call:*::EpochService::current_signers_with_stake'],
                     desc='(signers) <- next_signers_with_stake (the set committed by the signed next_aggregate_verification_key)', depth=3, key='msd:signers-role')
        ctx.sink_arg('e', mf[0].root().name, NEW, 2, require=['call:*::EpochService::next_protocol_parameters'], forbid=['call:*::EpochService::current_protocol_parameters'],
                     desc='(parameters) <- next_protocol_parameters', depth=3, key='msd:parameters-role')

