"""C10 - restored database verification (DESIGN.md section 4, C10)."""
from core import glob_match
from engine import Sink, fn_origins, find_guards, track_result, success_reachable, return_assigns
from props.common import Ctx, fn_short  # noqa: F401

EXPLANATION = (
    'Static rules over mithril-client cardano_database_client::proving: (a) VerifiedDigests exist only as the success of '
    'download_and_verify_digests, which requires CertificateMessage::match_message == true on a message whose '
    'CardanoDatabaseMerkleRoot part derives from the root recomputed from the downloaded (filtered) digests; the returned '
    'digest map and tree are those that were checked; (b) success of verify_cardano_database requires the missing-file list '
    'to be empty, and that list is empty by construction only under allow_missing; (c) success requires MKProof::verify Ok of '
    'the proof computed over the locally computed digests; (d) success requires the per-file-name comparison (tampered and '
    'non-verifiable lists empty), computed from the locally computed digests against the verified digest map. Does not '
    'decide file-system behaviour.')

ASSUMPTIONS = ['SHA-256 / Merkle tree collision resistance; the digester computes digests of the files in database_dir (C12)']

P = 'mithril_client::cardano_database_client::proving::'
DVD = P + 'InternalArtifactProver::download_and_verify_digests'
VCD = P + 'InternalArtifactProver::verify_cardano_database'
VD = P + 'VerifiedDigests'


def has(og, pat):
    # a field path under the named origin also counts (getters spliced by the inliner make origins more precise)
    return any(glob_match(pat, o) or (pat[-1] != '*' and glob_match(pat + '.*', o)) for o in og)


def _root_locals(body, operand):
    """Locals an operand is a (reference to a / clone of a / move of a) whole value of."""
    out = set()
    if operand[0] not in ('copy', 'move'):
        return out
    work = [operand[1][0]]
    seen = set()
    while work:
        l = work.pop()
        if l in seen:
            continue
        seen.add(l)
        ds = body.defs(l)
        stepped = False
        for (bi, si, pl, rv) in ds:
            if si == 't':
                if isinstance(rv, tuple):
                    continue
                if any(glob_match('<* as std::clone::Clone>::clone', n) or n == 'std::clone::Clone::clone' for n in rv.names()) and rv.args:
                    a = rv.args[0]
                    if a[0] in ('copy', 'move'):
                        work.append(a[1][0])
                        stepped = True
            elif rv[0] in ('ref', 'cfd') and not [e for e in rv[1][1] if isinstance(e, tuple)]:
                work.append(rv[1][0])
                stepped = True
            elif rv[0] == 'use' and rv[1][0] in ('copy', 'move') and not [e for e in rv[1][1][1] if isinstance(e, tuple)]:
                work.append(rv[1][1][0])
                stepped = True
        if not stepped:
            out.add(l)
    return out


def _bool_polarity(body, operand, depth=6):
    """+1 if the switch operand is the source boolean, -1 if an odd number of `!` lie between them (single-definition chain)"""
    pol = +1
    o = operand
    for _ in range(depth):
        if o[0] not in ('copy', 'move') or o[1][1]:
            break
        ds = [d for d in body.defs(o[1][0]) if d[1] != 't']
        if len(ds) != 1:
            break
        rv = ds[0][3]
        if rv[0] == 'un' and rv[1] == 'Not':
            pol = -pol
            o = rv[2]
        elif rv[0] == 'use':
            o = rv[1]
        else:
            break
    return pol


def run(ctx):
    R = ctx.report
    ws = ctx.ws
    R.clause('e', 'the locally computed digests cover every immutable file present in the range')
    R.clause('a', 'VerifiedDigests exist only if the root recomputed from the downloaded list matches the signed message')
    R.clause('b', 'success requires no missing file unless the caller allowed it')
    R.clause('c', 'success requires the Merkle proof of the locally computed digests to verify')
    R.clause('d', 'success requires each local file digest to equal the digest certified for that file name')

    # ---- (a)
    ctx.only_constructors('a', VD, [(DVD + '*', 'the verifying download')], 'VerifiedDigests is built only by download_and_verify_digests')
    MM = 'mithril_common::messages::certificate::CertificateMessage::match_message'
    ctx.r1('a', DVD, Sink('CertificateMessage::match_message', MM, 'ok'))
    # what is compared with the certificate: the certificate's own message with the CardanoDatabaseMerkleRoot part replaced by the
    # root of the tree rebuilt from the downloaded digest list - wherever these steps sit under download_and_verify_digests
    SETP = '*ProtocolMessage::set_message_part'
    RDF = '*InternalArtifactProver::read_digest_file'
    MKNEW = 'mithril_merkle_tree::merkle_tree::MKTree::new'
    ctx.sink_arg('a', DVD, SETP, 1, require=['adt:*ProtocolMessagePartKey::CardanoDatabaseMerkleRoot'], desc='(part key) = CardanoDatabaseMerkleRoot')
    ctx.sink_arg('a', DVD, SETP, 2, require=['call:*MKTree::compute_root', 'call:*MKTree::new'],
                 desc='(part value) <- MKTree::new(filtered downloaded digests).compute_root()')
    ctx.sink_arg('a', DVD, MM, 0, require=['pty:CertificateMessage'], desc='(self) <- the certificate given to the verifying download')
    # the message compared is the very message whose root part was replaced (set_message_part mutates it in place)
    inst = 'download_and_verify_digests ..> the message matched against the certificate is the one carrying the recomputed root'
    mms = ctx.closure_sites(DVD, [MM])
    good = bool(mms)
    for g, c in mms:
        sets = [c2 for c2 in g.body.calls() if any(glob_match(SETP, n) for n in c2.names())]
        if not any(_root_locals(g.body, c2.args[0]) & _root_locals(g.body, c.args[1]) for c2 in sets):
            good = False
    if good:
        R.ok('a', 'R5', inst, '%d match_message site(s)' % len(mms))
    else:
        R.violation('a', 'R5', inst, 'match_message:same-message', 'match_message is not given the message whose CardanoDatabaseMerkleRoot part was set', None)
    ctx.sink_arg('a', DVD, MKNEW, 0, require_via=[RDF], desc='(leaves) <- the downloaded digest file')
    f = ctx.try_fn('a', DVD)
    if f is not None:
        sites = ctx.closure_aggs(DVD, VD)
        ok = bool(sites)
        for g, rv, ln in sites:
            o0 = ctx.deep(DVD, g, rv[5][0])
            o1 = ctx.deep(DVD, g, rv[5][1])
            ok = ok and ctx.via_sink(o0, RDF) and has(o1, 'call:*MKTree::new')
        if ok:
            R.ok('a', 'R5', 'download_and_verify_digests: the returned map and tree are the checked ones', '%d construction site(s)' % len(sites), f.loc())
        else:
            R.violation('a', 'R5', 'download_and_verify_digests: the returned map and tree are the checked ones', 'verified_digests:fields',
                        'VerifiedDigests fields do not derive from the downloaded digests / the checked tree', f.loc())

    # the returned name->digest map is the very map whose values built the checked tree (no re-keying)
    if f is not None:
        sites = ctx.closure_aggs(DVD, VD)
        inst = 'download_and_verify_digests: the returned digest map is the map whose values were certified (same keys)'
        good = bool(sites)
        for g, rv, ln in sites:
            body0 = g.body
            vals = [c for c in body0.calls() if any(glob_match('std::collections::btree::map::BTreeMap::values', n) or
                                                   glob_match('std::collections::btree::map::BTreeMap::iter', n) for n in c.names())]
            roots_tree = set()
            for c in vals:
                roots_tree |= _root_locals(body0, c.args[0])
            roots_ret = _root_locals(body0, rv[5][0])
            if not (roots_tree and roots_ret and roots_ret <= roots_tree):
                good = False
        if good:
            R.ok('a', 'R5', inst, '', f.loc())
        else:
            R.violation('a', 'R5', inst, 'verified_digests:same-map', 'the returned map is rebuilt (re-keyed) after the tree was computed: the names that '
                        'fix the digests\' positions in the certified tree are no longer the names they are bound to', f.loc())

    # ---- (e) the digests compared are those of every immutable file present (not only completed trios)
    cdr = ws.find_all('*::CardanoImmutableDigester as *ImmutableDigester>::compute_digests_for_range')
    if not cdr:
        R.missing('e', 'compute_digests_for_range impl not found')
    else:
        from props.c05 import closure_of
        global_crates = ('mithril_cardano_node_internal_database',)
        seen = {}
        work = [cdr[0]]
        while work:
            g = work.pop()
            if g.name in seen:
                continue
            seen[g.name] = g
            for h in g.family():
                for callee, resolved, line in h.calls:
                    for n in (resolved, callee):
                        if n and n in ws.by_name:
                            for k in ws.by_name[n]:
                                if k.unit.crate in global_crates and k.name not in seen:
                                    work.append(k)
                            break
        names = set(seen)
        lists_all = any(n.endswith('ImmutableFile::list_all_in_dir') for n in names)
        lists_completed = any(n.endswith('ImmutableFile::list_completed_in_dir') for n in names)
        inst = 'compute_digests_for_range digests every immutable file present in the range (list_all_in_dir, not list_completed_in_dir)'
        if lists_all and not lists_completed:
            R.ok('e', 'R3', inst, 'closure of %d fns' % len(names), cdr[0].loc())
        else:
            R.violation('e', 'R3', inst, 'digests_for_range:listing', 'list_all_in_dir reachable: %s; list_completed_in_dir reachable: %s (the last certified '
                        'trio would never be hashed)' % (lists_all, lists_completed), cdr[0].loc())

    # the digests compared are computed from the FILES, at every verification: the client never gives its digester a digest cache
    # (seed C10-4: a digester kept in the prover with an in-memory cache keyed by file name answered the second verification from memory)
    NEWD = 'mithril_cardano_node_internal_database::digesters::cardano_immutable_digester::CardanoImmutableDigester::new'
    sites = [(f0, c) for f0 in ctx.ws.fns if f0.unit.crate == 'mithril_client' and f0.unit.tag == 'lib'
             for c in f0.body.calls() if NEWD in c.names()]
    inst = 'mithril-client builds its immutable digester without a digest cache (every verification hashes the files)'
    if not sites:
        R.violation('e', 'R5', inst, 'client-digester:no-cache:vacuous', 'no CardanoImmutableDigester::new call in mithril-client', None)
    else:
        cached = []
        for f0, c in sites:
            og = fn_origins(f0, c.args[0], True)
            if any(o.startswith(('call:', 'pty:', 'p#', 'param:', 'lty:')) for o in og):
                cached.append('%s line %d (%s)' % (fn_short(f0.name), c.line, sorted(o for o in og if o.startswith(('call:', 'pty:')))[:2]))
        if cached:
            R.violation('e', 'R5', inst, 'client-digester:no-cache', 'the cache provider argument is not the constant None at: %s' % cached, sites[0][0].loc())
        else:
            R.ok('e', 'R5', inst, '%d construction site(s), cache provider = None' % len(sites), sites[0][0].loc())

    # ---- (b) (c) (d)
    v = ctx.try_fn('b', VCD)
    if v is None:
        return
    lv = v.logic()
    body = lv.body
    # (c)
    ctx.r1('c', VCD, Sink('MKProof::verify', 'mithril_merkle_tree::merkle_tree::MKProof::verify', 'ok'))
    # provenance, wherever under verify_cardano_database the calls sit (the digest computation may live in an awaited private helper)
    CDR = '*::compute_digests_for_range'
    ctx.sink_arg('c', VCD, 'mithril_merkle_tree::merkle_tree::MKTree::compute_proof', 1,
                 require_via=[CDR], desc='(leaves) <- digests computed from database_dir')
    ctx.sink_arg('c', VCD, 'mithril_merkle_tree::merkle_tree::MKTree::compute_proof', 0,
                 require=['pty:VerifiedDigests.merkle_tree'], desc='(tree) <- verified_digests.merkle_tree')
    ctx.sink_arg('c', VCD, CDR, 1, require=['pty:Path'], desc='(dir) <- database_dir')
    # (b),(d): is_empty() guards gating success
    emp = [c for c in body.calls() if any(glob_match('std::vec::Vec::is_empty', n) or glob_match('*::is_empty', n) for n in c.names())]
    kinds = {'missing': [], 'tampered': [], 'non_verifiable': []}
    for c in emp:
        og = fn_origins(lv, c.args[0], True)
        if has(og, 'call:*list_missing_immutable_files'):
            kinds['missing'].append(c)
        if has(og, 'call:*list_immutable_files_not_verified'):
            # which field
            fields = set()
            l = c.args[0][1][0]
            for (bi, si, pl, rv) in body.defs(l):
                if si != 't' and rv[0] == 'ref':
                    for pe in rv[1][1]:
                        if isinstance(pe, tuple) and pe[0] == 'f':
                            fields.add(pe[2])
            if 'tampered_files' in fields:
                kinds['tampered'].append(c)
            if 'non_verifiable_files' in fields:
                kinds['non_verifiable'].append(c)
    for kind, clause, desc in (('missing', 'b', 'missing_immutable_files.is_empty()'),
                               ('tampered', 'd', 'tampered_files.is_empty()'),
                               ('non_verifiable', 'd', 'non_verifiable_files.is_empty()')):
        inst = 'verify_cardano_database: success requires %s' % desc
        cs = kinds[kind]
        if not cs:
            R.violation(clause, 'R1', inst, 'verify_db:%s-empty' % kind, 'no such emptiness test gates the success return: a proof over '
                        'the *set* of computed digests also exists when file contents are swapped or duplicated' if kind != 'missing'
                        else 'no emptiness test of the missing-file list', v.loc())
            continue
        rem = set()
        for c in cs:
            rem |= track_result(body, c.dest[0], +1).success_edges
        if success_reachable(body, rem, 'ok'):
            R.violation(clause, 'R1', inst, 'verify_db:%s-empty' % kind, 'a success return is reachable without the true arm of the test', v.loc())
        else:
            R.ok(clause, 'R1', inst, 'test at line %s' % [c.line for c in cs], v.loc())
    # (b) the missing list is vec![] only under allow_missing
    lm = [c for c in body.calls() if any(glob_match('*list_missing_immutable_files', n) for n in c.names())]
    gs = [(bi, b.term) for bi, b in enumerate(body.blocks) if b.term[0] == 'sw' and not b.cleanup]
    allow_edges = set()
    for bi, t in gs:
        if t[1][0] in ('copy', 'move') and has(fn_origins(lv, t[1], False), 'p#5'):
            from engine import switch_edges
            # the test may be on the flag itself or on its negation kept in a local (`let must_check = !allow_missing`)
            pol = _bool_polarity(body, t[1])
            su, fa = switch_edges(bi, t, 'bool', pol)
            allow_edges |= su
    inst = 'verify_cardano_database: the missing list is computed unless allow_missing'
    if not lm or not allow_edges:
        R.violation('b', 'R6', inst, 'verify_db:allow-missing', 'list_missing_immutable_files calls: %d, allow_missing branches: %d' % (len(lm), len(allow_edges)), v.loc())
    else:
        # without taking the allow_missing==true arm, every path to success passes the listing call
        rem = set(allow_edges) | {(c.bb, c.target) for c in lm}
        if success_reachable(body, rem, 'ok'):
            R.violation('b', 'R6', inst, 'verify_db:allow-missing', 'success reachable without listing missing files and without allow_missing', v.loc())
        else:
            R.ok('b', 'R6', inst, '', v.loc())
        ctx.sink_arg('b', VCD, '*list_missing_immutable_files', 0, require=['pty:Path'], desc='(dir) <- database_dir')
    # (d) provenance of the per-name comparison
    ctx.sink_arg('d', VCD, P + 'VerifiedDigests::list_immutable_files_not_verified', 1, require_via=[CDR],
                 desc='(computed) <- digests computed from database_dir')
    ctx.sink_arg('d', VCD, P + 'VerifiedDigests::list_immutable_files_not_verified', 0, require=['pty:VerifiedDigests'],
                 desc='(self) <- verified_digests')
    ln = ctx.try_fn('d', P + 'VerifiedDigests::list_immutable_files_not_verified')
    if ln is not None:
        b2 = ln.body
        gets = [c for c in b2.calls() if any(glob_match('std::collections::btree::map::BTreeMap::get', n) for n in c.names())]
        ok = False
        for c in gets:
            if has(fn_origins(ln, c.args[0], True), 'pty:VerifiedDigests.digests') and has(fn_origins(ln, c.args[1], True), 'p#2'):
                ok = True
        # the comparison may sit in the loop body or in a closure applied to the looked-up value (`get(name).map(|v| v == digest)`)
        gs2 = [g for h in ln.family() for g in find_guards(h.body) if g.op in ('Ne', 'Eq')
               and has(g.a_orig | g.b_orig, 'call:std::collections::btree::map::BTreeMap::get') and has(g.a_orig | g.b_orig, 'p#2')]
        if not gs2:
            from engine import origins as _or
            for h in ln.family():
                for bb in h.body.blocks:
                    for (_ln, pl, rv) in bb.stmts:
                        if rv[0] == 'bin' and rv[1] in ('Eq', 'Ne'):
                            oo = fn_origins(h, rv[2], True) | fn_origins(h, rv[3], True)
                            if has(oo, 'call:std::collections::btree::map::BTreeMap::get') and has(oo, 'p#2'):
                                gs2.append(rv)
                for c in h.body.calls():
                    if any(glob_match('*PartialEq*::eq', n) or glob_match('*PartialEq*::ne', n) for n in c.names()) and len(c.args) == 2:
                        oo = fn_origins(h, c.args[0], True) | fn_origins(h, c.args[1], True)
                        if has(oo, 'call:std::collections::btree::map::BTreeMap::get') and has(oo, 'p#2'):
                            gs2.append(c)
        if ok and gs2:
            R.ok('d', 'R6', 'list_immutable_files_not_verified: digests.get(file name) compared with the computed digest', '', ln.loc())
        else:
            R.violation('d', 'R6', 'list_immutable_files_not_verified: digests.get(file name) compared with the computed digest',
                        'not_verified:per-name', 'lookup by name: %s, comparison guards: %d' % (ok, len(gs2)), ln.loc())
        # a differing digest lands in tampered_files, an absent name in non_verifiable_files
        pushes = [c for c in b2.calls() if any(glob_match('std::vec::Vec::push', n) for n in c.names())]
        if len(pushes) >= 2:
            R.ok('d', 'R4', 'list_immutable_files_not_verified: both outcomes are recorded', '%d push sites' % len(pushes), ln.loc())
        else:
            R.violation('d', 'R4', 'list_immutable_files_not_verified: both outcomes are recorded', 'not_verified:pushes', '%d push sites' % len(pushes), ln.loc())
