"""Clauses shared by several properties."""
from core import glob_match
from engine import find_guards, fn_origins, loop_body_entry, flows_forward

MEMBERSHIP = 'mithril_stm::*::MerkleTreeBatchCommitment::verify_leaves_membership_from_batch_path'


def has(og, pat):
    # a field path under the named origin also counts (getters spliced by the inliner make origins more precise)
    return any(glob_match(pat, o) or (pat[-1] != '*' and glob_match(pat + '.*', o)) for o in og)


def batch_path_final_check(ctx, clause):
    """STM batch path: Ok only under `exactly one node is left` and `that node == self.root`
    (C01 membership of (vk, stake) leaves; C09-a)."""
    f = ctx.try_fn(clause, MEMBERSHIP)
    if f is None:
        return

    def one_left(g):
        if g.op not in ('Eq', 'Ne'):
            return False
        for x, y in ((g.a_orig, g.b_orig), (g.b_orig, g.a_orig)):
            if (has(x, 'call:std::vec::Vec::len') or has(x, 'call:[[]T[]]::len') or has(x, 'call:*::len')) and \
                    y and all(o.startswith('const:1') for o in y):
                return True
        return False

    def is_root(g):
        if g.op not in ('Eq', 'Ne'):
            return False
        return has(g.a_orig | g.b_orig, 'pty:MerkleTreeBatchCommitment.root')

    ctx.guard_gate(clause, f, 'exactly one node is left after folding the path', one_left, {'eq'},
                   key='batch_path:single-final-node')
    ctx.guard_gate(clause, f, 'the final node equals the committed root', is_root, {'eq'},
                   key='batch_path:final-node==root')


VIEW_CALLS = ('::deref', '::deref_mut', '::iter', '::iter_mut', '::into_iter', '::as_slice', '::as_mut_slice', '::as_ref', '::as_mut', '::borrow', '::borrow_mut',
              '::values', '::values_mut', '::keys', '::index', '::index_mut', '::get', '::get_mut', '::first', '::last', '::by_ref', '::rev', '::enumerate', '::peekable')


def base_locals(body, op, depth=10, env=None):
    """The locals a value is a VIEW of: followed back through copies, references and view-preserving calls (deref, iter, index ...).
    With `env` (a set), closure-environment captures met on the way are recorded there as capture indices (env local 1, field k)."""
    out, seen = set(), set()
    work = [(op[1][0], depth)] if op[0] in ('copy', 'move') else []
    if env is not None and op[0] in ('copy', 'move') and op[1][0] == 1:
        for pe in op[1][1]:
            if isinstance(pe, tuple) and pe[0] == 'f':
                env.add(pe[1])
                break
    while work:
        l, d = work.pop()
        if l in seen:
            continue
        seen.add(l)
        nxt = []
        for (bi, si, pl, rv) in body.defs(l):
            if pl[1]:
                continue
            if si == 't':
                c = rv
                if any(n.endswith(VIEW_CALLS) for n in c.names()) and c.args and c.args[0][0] in ('copy', 'move'):
                    nxt.append(c.args[0][1][0])
            elif rv[0] == 'ref':
                nxt.append(rv[1][0])
                if env is not None and rv[1][0] == 1:
                    for pe in rv[1][1]:
                        if isinstance(pe, tuple) and pe[0] == 'f':
                            env.add(pe[1])
                            break
            elif rv[0] == 'use' and rv[1][0] in ('copy', 'move'):
                nxt.append(rv[1][1][0])
                if env is not None and rv[1][1][0] == 1:
                    for pe in rv[1][1][1]:
                        if isinstance(pe, tuple) and pe[0] == 'f':
                            env.add(pe[1])
                            break
        if not nxt or d == 0:
            out.add(l)
        for n in nxt:
            work.append((n, d - 1))
    return out


def closure_agg_sites(fam, closure_fn):
    """[(parent body fn, local holding the closure value, capture operands)] of the aggregate(s) that build `closure_fn`."""
    name = getattr(closure_fn, '_orig', closure_fn).name
    out = []
    for g in fam:
        for b in g.body.blocks:
            if b.cleanup:
                continue
            for (_, pl, rv) in b.stmts:
                if rv[0] == 'agg' and rv[1] in ('closure', 'coroutine') and rv[2] == name and not pl[1]:
                    out.append((g, pl[0], rv[5]))
    return out


def main_base_locals(main, fam, g, op):
    """base locals IN THE MAIN BODY of a value used in body g (g = main, or a closure of it: captures are followed to the parent)."""
    if g is main:
        return base_locals(main.body, op)
    env = set()
    base_locals(g.body, op, env=env)
    out = set()
    for (pg, cl_local, caps) in closure_agg_sites(fam, g):
        for k in env:
            if k < len(caps):
                out |= main_base_locals(main, fam, pg, caps[k]) if pg is not g else set()
    return out


def _is_update(n):
    return glob_match('*digest::*::update', n) or glob_match('*Digest*::update', n) or n.endswith('::chain_update')


def bls_aggregate_binding(ctx, clause, fn_pat='mithril_stm::*::BlsSignature::aggregate', sig_param='p#2', label='BlsSignature::aggregate',
                          key='bls_aggregate:coefficients', with_verify_args=True):
    """BlsSignature::aggregate (and, since F14, batch_verify_aggregates): every coefficient binds the whole signature set:
    a transcript hasher absorbs every signature; each coefficient finalises a *clone* of that transcript extended by the index;
    the transcript is never reset; the same coefficients multiply keys and signatures.  Evaluated over the function and its closures
    (helpers spliced): the per-signature step may sit in a loop body or in a closure applied element-wise."""
    R = ctx.report
    f = ctx.try_fn(clause, fn_pat)
    if f is None:
        return
    fam = list(f.family())
    inst = '%s: coefficients = H(all signatures || index)' % label
    problems = []
    calls = [(g, c) for g in fam for c in g.body.calls()]
    clone_dests = {(id(g), c.dest[0]) for g, c in calls if any(glob_match('std::clone::Clone::clone', n) or glob_match('<* as std::clone::Clone>::clone', n) for n in c.names())}
    resets = [c for g, c in calls if any(glob_match('*::finalize_reset', n) or glob_match('*::reset', n) or glob_match('*::finalize_into_reset', n) for n in c.names())]
    # the transcript: hashers that absorb every signature (an update per item, fed with the bytes of a signature), not clones
    transcript = set()
    absorb = []
    for g, c in calls:
        if not any(_is_update(n) for n in c.names()) or len(c.args) < 2:
            continue
        og = fn_origins(g, c.args[1], True)
        per_item = loop_body_entry(g.body, c.bb) is not None or g is not f
        if not (per_item and has(og, 'call:*BlsSignature::to_bytes') and (has(og, sig_param) or g is not f)):
            continue
        bl = base_locals(g.body, c.args[0])
        if any((id(g), l) in clone_dests for l in bl):
            continue
        absorb.append(c)
        transcript |= main_base_locals(f, fam, g, c.args[0])
    if not absorb:
        problems.append('no hasher update absorbing every signature in a loop')
    if resets:
        problems.append('the transcript hasher is reset (lines %s)' % [c.line for c in resets])
    # coefficients: per item, finalize(clone(transcript) + index)
    per_index = [(g, c) for g, c in calls if any(glob_match('*::finalize', n) for n in c.names())
                 and (loop_body_entry(g.body, c.bb) is not None or g is not f)]
    if not per_index:
        problems.append('no per-signature finalize in a loop')
    for g, c in per_index:
        # walk back from the finalised hasher through by-value updates to the clone it started from
        cur = c.args[0]
        indexed = False
        clone_call = None
        for _ in range(6):
            if cur[0] not in ('copy', 'move'):
                break
            dl = [(bi, si, pl, rv) for (bi, si, pl, rv) in g.body.defs(cur[1][0]) if not pl[1]]
            step = None
            for (bi, si, pl, rv) in dl:
                if si == 't':
                    cc = rv
                    if any(glob_match('std::clone::Clone::clone', n) or glob_match('<* as std::clone::Clone>::clone', n) for n in cc.names()):
                        clone_call = cc
                    elif any(_is_update(n) for n in cc.names()) and cc.args:
                        indexed = True
                        step = cc.args[0]
                elif rv[0] == 'use' and rv[1][0] in ('copy', 'move'):
                    step = rv[1]
            if clone_call is not None or step is None:
                break
            cur = step
        if clone_call is None:
            problems.append('the coefficient at line %d does not finalise a clone of the transcript' % c.line)
            continue
        if not (main_base_locals(f, fam, g, clone_call.args[0]) & transcript):
            problems.append('the cloned hasher is not the transcript that absorbed the signatures')
        if not indexed:
            # `let mut h = t.clone(); h.update(index); h.finalize()`
            cl = clone_call.dest[0]
            indexed = any(any(_is_update(n) for n in u.names()) and u.args and (base_locals(g.body, u.args[0]) & {cl}) for u in g.body.calls())
        if not indexed:
            problems.append('no per-index update of the cloned hasher')
    mults = [(g, c) for g, c in calls if any(glob_match('blst::*::mult', n) for n in c.names())]
    if len(mults) >= 2:
        o1 = {o for o in fn_origins(mults[0][0], mults[0][1].args[1], True) if o.startswith('call:')}
        o2 = {o for o in fn_origins(mults[1][0], mults[1][1].args[1], True) if o.startswith('call:')}
        if o1 != o2:
            problems.append('keys and signatures are multiplied by different coefficient vectors')
        for g, c in mults:
            if has(fn_origins(g, c.args[1], True), 'call:*::finalize'):
                continue
            # forward: pushed / extended into a vector in this body, or produced by a closure (map / flat_map) that finalises
            starts = {c2.dest[0] for g2, c2 in per_index if g2 is g}
            for g2, c2 in per_index:
                if g2 is not g:
                    starts |= {cl_local for (pg, cl_local, caps) in closure_agg_sites(fam, g2) if pg is g}
            sc = c.args[1]
            if not (starts and sc[0] in ('copy', 'move') and sc[1][0] in flows_forward(g.body, starts)):
                problems.append('a weight (line %d) is not a hash output' % c.line)
    else:
        problems.append('expected two multi-scalar multiplications (keys, signatures), found %d' % len(mults))
    if problems:
        R.violation(clause, 'R5', inst, key, '; '.join(sorted(set(problems))), f.loc())
    else:
        R.ok(clause, 'R5', inst, '%d absorb site(s), %d per-index finalize(s), no reset' % (len(absorb), len(per_index)), f.loc())
    if not with_verify_args:
        return
    # verify_aggregate: the pairing check is on the aggregate of exactly the given keys / signatures
    ctx.arg_origin(clause, 'mithril_stm::*::BlsSignature::verify_aggregate', 'mithril_stm::*::BlsSignature::aggregate', 0,
                   require=['p#2'], desc='(vks) <- vks')
    ctx.arg_origin(clause, 'mithril_stm::*::BlsSignature::verify_aggregate', 'mithril_stm::*::BlsSignature::aggregate', 1,
                   require=['p#3'], desc='(sigs) <- sigs')


MK = 'mithril_merkle_tree::merkle_tree::MKProof'
MKM = 'mithril_merkle_tree::merkle_map::MKMapProof'


def mkmap_verify_rules(ctx, clause):
    """MKMapProof::verify: every sub proof verified recursively, master verified, master contains key+sub_root of
    every sub proof (C09-d; C11 relies on it for the nested block-range map proofs)."""
    from engine import Sink
    R = ctx.report
    # sub proofs are MKMapProof values: each must be verified recursively (its own sub proofs and linkage included),
    # not only its master proof
    def _on_sub(body, c):
        from engine import fn_origins as _fo
        return any(glob_match('pty:MKMapProof.sub_proofs*', o) for o in _fo(body.fn, c.args[0], True)) and \
            not any(glob_match('pty:MKMapProof.master_proof*', o) for o in _fo(body.fn, c.args[0], 'adapters'))
    ctx.r1(clause, MKM + '::verify', Sink('recursive MKMapProof::verify of each sub proof', [MKM + '::verify'], 'ok', per_item=True, arg_filter=_on_sub))
    mv = ctx.try_fn(clause, MKM + '::verify')
    if mv is not None:
        body = mv.body
        # master verified: a verify call whose receiver derives from self.master_proof, outside the loop
        from engine import loop_body_entry, track_result, success_reachable
        masters = [c for c in body.calls() if any(glob_match(MK + '::verify', n) or glob_match(MKM + '::verify', n) for n in c.names())
                   and has(fn_origins(mv, c.args[0], True), 'pty:MKMapProof.master_proof')]
        removed = set()
        from engine import gating_edges as _ge
        for c in masters:
            removed |= _ge(body, c.dest[0], +1, 'ok')[0]
        if masters and not success_reachable(body, removed, 'ok'):
            R.ok(clause, 'R1', 'MKMapProof::verify => master_proof.verify()=ok', '', mv.loc())
        else:
            R.violation(clause, 'R1', 'MKMapProof::verify => master_proof.verify()=ok', 'mkmap:master-verify',
                        'Ok reachable without a successful verification of master_proof', mv.loc())
        conts = [c for c in body.calls() if any(glob_match(MK + '::contains', n) for n in c.names())
                 and has(fn_origins(mv, c.args[0], True), 'pty:MKMapProof.master_proof')]
        emp = [c for c in body.calls() if any(glob_match('*::is_empty', n) for n in c.names())
               and has(fn_origins(mv, c.args[0], True), 'pty:MKMapProof.sub_proofs')]
        problems = []
        if not conts:
            problems.append('no master_proof.contains(..) call')
        else:
            rem = set()
            from engine import gating_edges
            for c in conts:
                rem |= gating_edges(body, c.dest[0], +1, 'ok')[0]
            # the only way around the linkage check is the sub_proofs.is_empty() == true arm
            for c in emp:
                rem |= track_result(body, c.dest[0], +1).success_edges
            if not emp:
                problems.append('linkage check is not skipped exclusively for an empty sub-proof list')
            if success_reachable(body, rem, 'ok'):
                problems.append('Ok reachable without master_proof.contains(..)=ok although sub-proofs exist')
            # what is looked up: key + sub-root of every sub proof
            for c in conts:
                og = fn_origins(mv, c.args[1], True)
                cl_ok = False
                for g in mv.family():
                    # (in a `map` closure or written out as a loop in the body)
                    names = [cc.best() for cc in g.body.calls()] + [x.name for x in getattr(g, 'inlined_fns', [])]
                    if any('compute_root' in n for n in names) and any(glob_match('*::Add*::add', n) or 'add' in n.rsplit('::', 1)[-1] for n in names):
                        cl_ok = True
                if not (has(og, 'pty:MKMapProof.sub_proofs') and cl_ok):
                    problems.append('the looked-up leaves are not key + sub_root over self.sub_proofs')
        if problems:
            R.violation(clause, 'R1', 'MKMapProof::verify: master contains key+sub_root for every sub-proof', 'mkmap:linkage', '; '.join(problems), mv.loc())
        else:
            R.ok(clause, 'R1', 'MKMapProof::verify: master contains key+sub_root for every sub-proof', '', mv.loc())




def open_message_prune_rule(ctx, clause, consequence):
    """The open-message clean-up run by the epoch initialisation tasks (also at every restart) deletes strictly below the epoch
    being entered.  Decided on the comparison OPERATOR of the embedded SQL condition only (see DESIGN 8.2)."""
    from props.common import parse_sql_comparison
    R = ctx.report
    AG = 'mithril_aggregator::'
    CS = '<mithril_aggregator::services::certifier::certifier_service::MithrilCertifierService as mithril_aggregator::services::certifier::interface::CertifierService>::'
    dq = ctx.try_fn(clause, AG + 'database::query::open_message::delete_open_message::DeleteOpenMessageQuery::below_epoch_threshold')
    if dq is None:
        return
    conds = ctx.sql_conditions(dq)
    parsed = [parse_sql_comparison(t) for t, _ in conds]
    inst = 'DeleteOpenMessageQuery::below_epoch_threshold: the SQL condition is `epoch < threshold` (strict)'
    if not conds or any(p is None for p in parsed):
        R.missing(clause, 'below_epoch_threshold: no `<column> <op> ?` condition constant found (conditions: %s) - rewritten in a form this rule does not read' % [t for t, _ in conds])
    elif all(p[1] == '<' for p in parsed):
        R.ok(clause, 'R6', inst, 'condition %r' % conds[0][0], dq.loc())
    else:
        R.violation(clause, 'R6', inst, 'open_message:prune-strict', 'conditions %s parse to %s: open messages of the threshold epoch itself would be deleted, %s' % (
            [t for t, _ in conds], parsed, consequence), dq.loc())
    # wherever under inform_epoch the deletion is issued (repository method, private helpers): its threshold is the epoch being entered
    ctx.sink_arg(clause, CS + 'inform_epoch', AG + 'database::query::open_message::delete_open_message::DeleteOpenMessageQuery::below_epoch_threshold', 0,
                 require=['p#2'], forbid=['call:*::Add*::add', 'call:*::Epoch::next', 'call:*::Epoch::offset_*', 'call:*::checked_add', 'call:*::saturating_add'],
                 desc='(threshold) <- the epoch being entered, not moved forward', key='open_message:prune-threshold')
