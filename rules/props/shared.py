"""Clauses shared by several properties."""
from core import glob_match
from engine import find_guards, fn_origins, loop_body_entry, flows_forward

MEMBERSHIP = 'mithril_stm::*::MerkleTreeBatchCommitment::verify_leaves_membership_from_batch_path'


def has(og, pat):
    # a field path under the named origin also counts (getters spliced by the inliner make origins more precise)
    return any(glob_match(pat, o) or (pat[-1] != '*' and glob_match(pat + '.*', o)) for o in og)


def batch_path_final_check(ctx, clause):
    """STM batch path: Ok only under `exactly one node is left` and `that node == self.root`
    (C01 membership of (vk, stake) leaves; C09-a)."""
    f = ctx.try_fn(clause, MEMBERSHIP)
    if f is None:
        return

    def one_left(g):
        if g.op not in ('Eq', 'Ne'):
            return False
        for x, y in ((g.a_orig, g.b_orig), (g.b_orig, g.a_orig)):
            if (has(x, 'call:std::vec::Vec::len') or has(x, 'call:[[]T[]]::len') or has(x, 'call:*::len')) and \
                    y and all(o.startswith('const:1') for o in y):
                return True
        return False

    def is_root(g):
        if g.op not in ('Eq', 'Ne'):
            return False
        return has(g.a_orig | g.b_orig, 'pty:MerkleTreeBatchCommitment.root')

    ctx.guard_gate(clause, f, 'exactly one node is left after folding the path', one_left, {'eq'},
                   key='batch_path:single-final-node')
    ctx.guard_gate(clause, f, 'the final node equals the committed root', is_root, {'eq'},
                   key='batch_path:final-node==root')


def bls_aggregate_binding(ctx, clause, fn_pat='mithril_stm::*::BlsSignature::aggregate', sig_param='p#2', label='BlsSignature::aggregate',
                          key='bls_aggregate:coefficients', with_verify_args=True):
    """BlsSignature::aggregate (and, since F14, batch_verify_aggregates): every coefficient binds the whole signature set:
    a transcript hasher absorbs every signature; each coefficient finalises a *clone* of that transcript
    extended by the index; the transcript is never reset; the same coefficients multiply keys and signatures."""
    R = ctx.report
    f = ctx.try_fn(clause, fn_pat)
    if f is None:
        return
    body = f.body
    upd = [c for c in body.calls() if any(glob_match('*digest::*::update', n) or glob_match('*Digest*::update', n) for n in c.names())]
    fin = [c for c in body.calls() if any(glob_match('*::finalize', n) for n in c.names())]
    resets = [c for c in body.calls() if any(glob_match('*::finalize_reset', n) or glob_match('*::reset', n)
                                             or glob_match('*::finalize_into_reset', n) for n in c.names())]
    # transcript updates: in a loop, absorbing data derived from the signatures (p#2)
    clone_locals = {c.dest[0] for c in body.calls() if any(glob_match('std::clone::Clone::clone', n) or
                                                             glob_match('<* as std::clone::Clone>::clone', n) for n in c.names())}

    def receiver(c):
        a0 = c.args[0]
        out = set()
        if a0[0] in ('copy', 'move'):
            for (bi, si, pl, rv) in body.defs(a0[1][0]):
                if si != 't' and rv[0] == 'ref':
                    out.add(rv[1][0])
        return out

    absorb = [c for c in upd if loop_body_entry(body, c.bb) is not None and len(c.args) > 1
              and has(fn_origins(f, c.args[1], True), sig_param) and has(fn_origins(f, c.args[1], True), 'call:*BlsSignature::to_bytes')
              and not (receiver(c) & clone_locals)]
    inst = '%s: coefficients = H(all signatures || index)' % label
    problems = []
    if not absorb:
        problems.append('no hasher update absorbing every signature in a loop')
    transcript = set()
    for c in absorb:
        og = fn_origins(f, c.args[0], False)
        a0 = c.args[0]
        # the local the &mut was taken from
        for (bi, si, pl, rv) in body.defs(a0[1][0]):
            if si != 't' and rv[0] == 'ref':
                transcript.add(rv[1][0])
    if resets:
        problems.append('the transcript hasher is reset (lines %s)' % [c.line for c in resets])
    per_index = [c for c in fin if loop_body_entry(body, c.bb) is not None]
    if not per_index:
        problems.append('no per-signature finalize in a loop')
    for c in per_index:
        og = fn_origins(f, c.args[0], True)
        if not has(og, 'call:<* as std::clone::Clone>::clone') and not has(og, 'call:std::clone::Clone::clone'):
            problems.append('the coefficient at line %d does not finalise a clone of the transcript' % c.line)
            continue
        # the clone's source is the transcript
        ok = False
        for cc in body.calls():
            if any(glob_match('std::clone::Clone::clone', n) or glob_match('<* as std::clone::Clone>::clone', n) for n in cc.names()):
                src = cc.args[0]
                for (bi, si, pl, rv) in body.defs(src[1][0]):
                    if si != 't' and rv[0] == 'ref' and rv[1][0] in transcript:
                        ok = True
        if not ok:
            problems.append('the cloned hasher is not the transcript that absorbed the signatures')
        # index mixed in
        idx_upd = [u for u in upd if loop_body_entry(body, u.bb) is not None and (receiver(u) & clone_locals)]
        if not idx_upd:
            problems.append('no per-index update of the cloned hasher')
    mults = [c for c in body.calls() if any(glob_match('blst::*::mult', n) for n in c.names())]
    if len(mults) >= 2:
        o1 = {o for o in fn_origins(f, mults[0].args[1], True) if o.startswith('call:')}
        o2 = {o for o in fn_origins(f, mults[1].args[1], True) if o.startswith('call:')}
        if o1 != o2:
            problems.append('keys and signatures are multiplied by different coefficient vectors')
    else:
        problems.append('expected two multi-scalar multiplications (keys, signatures), found %d' % len(mults))
    if problems:
        R.violation(clause, 'R5', inst, key, '; '.join(problems), f.loc())
    else:
        R.ok(clause, 'R5', inst, '%d absorb site(s), %d per-index finalize(s), no reset' % (len(absorb), len(per_index)), f.loc())
    if not with_verify_args:
        return
    # verify_aggregate: the pairing check is on the aggregate of exactly the given keys / signatures
    ctx.arg_origin(clause, 'mithril_stm::*::BlsSignature::verify_aggregate', 'mithril_stm::*::BlsSignature::aggregate', 0,
                   require=['p#2'], desc='(vks) <- vks')
    ctx.arg_origin(clause, 'mithril_stm::*::BlsSignature::verify_aggregate', 'mithril_stm::*::BlsSignature::aggregate', 1,
                   require=['p#3'], desc='(sigs) <- sigs')


MK = 'mithril_merkle_tree::merkle_tree::MKProof'
MKM = 'mithril_merkle_tree::merkle_map::MKMapProof'


def mkmap_verify_rules(ctx, clause):
    """MKMapProof::verify: every sub proof verified recursively, master verified, master contains key+sub_root of
    every sub proof (C09-d; C11 relies on it for the nested block-range map proofs)."""
    from engine import Sink
    R = ctx.report
    # sub proofs are MKMapProof values: each must be verified recursively (its own sub proofs and linkage included),
    # not only its master proof
    def _on_sub(body, c):
        from engine import fn_origins as _fo
        return any(glob_match('pty:MKMapProof.sub_proofs*', o) for o in _fo(body.fn, c.args[0], True)) and \
            not any(glob_match('pty:MKMapProof.master_proof*', o) for o in _fo(body.fn, c.args[0], 'adapters'))
    ctx.r1(clause, MKM + '::verify', Sink('recursive MKMapProof::verify of each sub proof', [MKM + '::verify'], 'ok', per_item=True, arg_filter=_on_sub))
    mv = ctx.try_fn(clause, MKM + '::verify')
    if mv is not None:
        body = mv.body
        # master verified: a verify call whose receiver derives from self.master_proof, outside the loop
        from engine import loop_body_entry, track_result, success_reachable
        masters = [c for c in body.calls() if any(glob_match(MK + '::verify', n) or glob_match(MKM + '::verify', n) for n in c.names())
                   and has(fn_origins(mv, c.args[0], True), 'pty:MKMapProof.master_proof')]
        removed = set()
        from engine import gating_edges as _ge
        for c in masters:
            removed |= _ge(body, c.dest[0], +1, 'ok')[0]
        if masters and not success_reachable(body, removed, 'ok'):
            R.ok(clause, 'R1', 'MKMapProof::verify => master_proof.verify()=ok', '', mv.loc())
        else:
            R.violation(clause, 'R1', 'MKMapProof::verify => master_proof.verify()=ok', 'mkmap:master-verify',
                        'Ok reachable without a successful verification of master_proof', mv.loc())
        conts = [c for c in body.calls() if any(glob_match(MK + '::contains', n) for n in c.names())
                 and has(fn_origins(mv, c.args[0], True), 'pty:MKMapProof.master_proof')]
        emp = [c for c in body.calls() if any(glob_match('*::is_empty', n) for n in c.names())
               and has(fn_origins(mv, c.args[0], True), 'pty:MKMapProof.sub_proofs')]
        problems = []
        if not conts:
            problems.append('no master_proof.contains(..) call')
        else:
            rem = set()
            from engine import gating_edges
            for c in conts:
                rem |= gating_edges(body, c.dest[0], +1, 'ok')[0]
            # the only way around the linkage check is the sub_proofs.is_empty() == true arm
            for c in emp:
                rem |= track_result(body, c.dest[0], +1).success_edges
            if not emp:
                problems.append('linkage check is not skipped exclusively for an empty sub-proof list')
            if success_reachable(body, rem, 'ok'):
                problems.append('Ok reachable without master_proof.contains(..)=ok although sub-proofs exist')
            # what is looked up: key + sub-root of every sub proof
            for c in conts:
                og = fn_origins(mv, c.args[1], True)
                cl_ok = False
                for g in mv.family():
                    # (in a `map` closure or written out as a loop in the body)
                    names = [cc.best() for cc in g.body.calls()] + [x.name for x in getattr(g, 'inlined_fns', [])]
                    if any('compute_root' in n for n in names) and any(glob_match('*::Add*::add', n) or 'add' in n.rsplit('::', 1)[-1] for n in names):
                        cl_ok = True
                if not (has(og, 'pty:MKMapProof.sub_proofs') and cl_ok):
                    problems.append('the looked-up leaves are not key + sub_root over self.sub_proofs')
        if problems:
            R.violation(clause, 'R1', 'MKMapProof::verify: master contains key+sub_root for every sub-proof', 'mkmap:linkage', '; '.join(problems), mv.loc())
        else:
            R.ok(clause, 'R1', 'MKMapProof::verify: master contains key+sub_root for every sub-proof', '', mv.loc())




def open_message_prune_rule(ctx, clause, consequence):
    """The open-message clean-up run by the epoch initialisation tasks (also at every restart) deletes strictly below the epoch
    being entered.  Decided on the comparison OPERATOR of the embedded SQL condition only (see DESIGN 8.2)."""
    from props.common import parse_sql_comparison
    R = ctx.report
    AG = 'mithril_aggregator::'
    CS = '<mithril_aggregator::services::certifier::certifier_service::MithrilCertifierService as mithril_aggregator::services::certifier::interface::CertifierService>::'
    dq = ctx.try_fn(clause, AG + 'database::query::open_message::delete_open_message::DeleteOpenMessageQuery::below_epoch_threshold')
    if dq is None:
        return
    conds = ctx.sql_conditions(dq)
    parsed = [parse_sql_comparison(t) for t, _ in conds]
    inst = 'DeleteOpenMessageQuery::below_epoch_threshold: the SQL condition is `epoch < threshold` (strict)'
    if not conds or any(p is None for p in parsed):
        R.missing(clause, 'below_epoch_threshold: no `<column> <op> ?` condition constant found (conditions: %s) - rewritten in a form this rule does not read' % [t for t, _ in conds])
    elif all(p[1] == '<' for p in parsed):
        R.ok(clause, 'R6', inst, 'condition %r' % conds[0][0], dq.loc())
    else:
        R.violation(clause, 'R6', inst, 'open_message:prune-strict', 'conditions %s parse to %s: open messages of the threshold epoch itself would be deleted, %s' % (
            [t for t, _ in conds], parsed, consequence), dq.loc())
    ctx.arg_origin(clause, AG + 'database::repository::open_message_repository::OpenMessageRepository::clean_epoch',
                   AG + 'database::query::open_message::delete_open_message::DeleteOpenMessageQuery::below_epoch_threshold', 0,
                   require=['p#2'], desc='(threshold) <- epoch')
    ctx.arg_origin(clause, CS + 'inform_epoch', AG + 'database::repository::open_message_repository::OpenMessageRepository::clean_epoch', 1,
                   require=['p#2'], desc='(threshold) <- the epoch being entered')
