"""C03 - certificate chain anchored in genesis (DESIGN.md section 4, C03)."""
from core import glob_match
from engine import Sink, find_guards, fn_origins, success_reachable, CMP_REL, ALL3
from props.common import Ctx, ret_ok_some, ret_ok_none, fn_short  # noqa: F401

EXPLANATION = (
    'Static rules over mithril-common certificate_chain and the mithril-client verifier: (a) R1 - the '
    'Ok(Some(previous)) return of verify_certificate is reachable only after all standard checks succeeded '
    '(self-loop, hash, signed message, multi-signature, epoch part, epoch chaining, previous hash, AVK chaining, '
    'parameter chaining); (b) R5 - the returned previous certificate is the one checked; (c) genesis checks incl. '
    'key provenance; (d) Ok(None) only after genesis verification or the (dead in this build) full-chain branch; '
    '(e) structure of the two chaining guards; (f) R6 - epoch link direction; (g) client cache discipline.')

ASSUMPTIONS = [
    'Ed25519, BLS multi-signature and hash functions are sound (trusted)',
    'finiteness of the walk for cycles longer than one rests on the hash covering previous_hash (C04-a) plus collision resistance',
]

MV = '<mithril_common::*::MithrilCertificateVerifier as mithril_common::*::CertificateVerifier>::'
VC = MV + 'verify_certificate'
VS = MV + 'verify_standard_certificate'
VG = MV + 'verify_genesis_certificate'
SCOPE = 'mithril_common::certificate_chain::*'
CERT = 'mithril_common::entities::certificate::Certificate'
RETR = '*CertificateRetriever::get_certificate_details'


def has(og, pat):
    # a field path under the named origin also counts (getters spliced by the inliner make origins more precise)
    return any(glob_match(pat, o) or (pat[-1] != '*' and glob_match(pat + '.*', o)) for o in og)


def sides(g, pa, pb):
    return (has(g.a_orig, pa) and has(g.b_orig, pb)) or (has(g.a_orig, pb) and has(g.b_orig, pa))


def p_hash(g):
    return sides(g, 'call:*Certificate::try_compute_hash', 'pty:Certificate.hash')


def p_signed_message(g):
    return sides(g, 'call:*ProtocolMessage::compute_hash', 'pty:Certificate.signed_message')


def p_prev_hash(g):
    return sides(g, 'pty:Certificate.hash', 'pty:Certificate.previous_hash')


def p_epoch_part(g):
    return sides(g, 'call:*ProtocolMessage::get_message_part', 'pty:Certificate.epoch') and \
        has(g.a_orig | g.b_orig, 'adt:*ProtocolMessagePartKey::CurrentEpoch')


def run(ctx):
    R = ctx.report
    _WS[0] = ctx.ws
    _WS[2] = ctx
    try:
        _WS[1] = ctx.within(VC)
    except Exception:  # noqa
        _WS[1] = None
    R.clause('a', 'a standard certificate is accepted (Ok(Some(prev))) only after all nine checks')
    R.clause('b', 'the previous certificate returned is the one fetched by previous_hash and checked')
    R.clause('c', 'genesis: hash, signed message, Ed25519 signature under the configured key, epoch part')
    R.clause('d', 'the walk ends (Ok(None)) only at a verified genesis (or the full-chain-certifying branch, dead in this build)')
    R.clause('e', 'same-epoch link => equal AVK / parameters; cross-epoch link => the ones signed in the previous certificate')
    R.clause('f', 'a link goes to the same or the immediately preceding epoch')
    R.clause('g', 'client: cached links only after an epoch boundary was crossed with full verification')

    # ---------------- (a)
    std = dict(ret_filter=ret_ok_some, label='Ok(Some)')
    ctx.r1('a', VC, Sink('is_chaining_to_itself', CERT + '::is_chaining_to_itself', 'err'), **std)
    ctx.r1('a', VC, Sink('AggregateSignature::verify', 'mithril_stm::*::AggregateSignature::verify', 'ok'), **std)
    ctx.r1('a', VC, Sink('Epoch::has_gap_with', 'mithril_common::entities::epoch::Epoch::has_gap_with', 'err'), **std)
    ctx.relation_gate('a', VC, 'computed hash == certificate.hash', SCOPE, p_hash, {'eq'}, ret_filter=ret_ok_some)
    ctx.relation_gate('a', VC, 'protocol_message.compute_hash() == signed_message', SCOPE, p_signed_message, {'eq'},
                      ret_filter=ret_ok_some)
    ctx.relation_gate('a', VC, 'previous.hash == certificate.previous_hash', SCOPE, p_prev_hash, {'eq'},
                      ret_filter=ret_ok_some)
    ctx.relation_gate('a', VC, 'CurrentEpoch part == certificate.epoch', SCOPE, p_epoch_part, {'eq'},
                      ret_filter=ret_ok_some)
    chain_fns = chaining(ctx)
    for what, fns in chain_fns.items():
        if fns:
            ctx.r1('a', VC, Sink(what + ' chaining guard', [f.name for f in fns], 'ok'), **std)
    # arguments of the multi-signature verification, wherever it is called under verify_certificate (layout independent):
    # what is verified is the certificate under verification (never the fetched previous one), with its own key material
    AGGV = 'mithril_stm::*::AggregateSignature::verify'
    FETCHED = '*CertificateRetriever::get_certificate_details'
    ctx.sink_arg('a', VC, AGGV, 1, require=['pty:Certificate.signed_message'], forbid_via=[FETCHED], desc='(message) <- certificate.signed_message')
    ctx.sink_arg('a', VC, AGGV, 0, require=['pty:Certificate.signature'], forbid_via=[FETCHED], desc='(multi-signature) <- certificate.signature')
    ctx.sink_arg('a', VC, AGGV, 2, require=['call:*Certificate::create_aggregate_verification_key'], forbid_via=[FETCHED],
                 desc='(avk) <- certificate.create_aggregate_verification_key()')
    ctx.sink_arg('a', VC, AGGV, 3, require=['pty:Certificate.metadata.protocol_parameters'], forbid_via=[FETCHED],
                 desc='(parameters) <- certificate.metadata.protocol_parameters')

    # ---------------- (b)
    f = ctx.try_fn('b', VC)
    if f is not None:
        lf = f.logic()
        body = lf.body
        ok = False
        detail = ''
        from engine import return_assigns, ok_payload, option_payload
        for sp in return_assigns(body, 'ok')[0]:
            if not ret_ok_some(body, sp):
                continue
            x = option_payload(body, ok_payload(body, sp))
            if x is None:
                continue
            og = fn_origins(lf, x, True)
            ok = ctx.via_sink(og, RETR)
            detail = sorted(o for o in og if o.startswith('call:mithril'))[:4]
        if ok:
            R.ok('b', 'R5', 'verify_certificate: Some(payload) <- fetched previous certificate', str(detail), f.loc())
        else:
            R.violation('b', 'R5', 'verify_certificate: Some(payload) <- fetched previous certificate', 'verify_certificate:some-payload',
                        'the returned previous certificate does not derive from the certificate retriever', f.loc())
    # the certificate handed to the per-certificate checks as `previous` is the fetched one, the other one is the input;
    # the fetch is by certificate.previous_hash (wherever these calls sit under verify_certificate)
    ctx.sink_arg('b', VC, VS, 2, require_via=[RETR], desc='(previous) <- the certificate fetched by the retriever', depth=2)
    ctx.sink_arg('b', VC, VS, 1, require=['pty:Certificate'], forbid_via=[RETR], desc='(certificate) <- the certificate under verification', depth=2)
    ctx.sink_arg('b', VC, RETR, 1, require=['pty:Certificate.previous_hash'], forbid_via=[RETR], desc='(hash) <- certificate.previous_hash')

    # ---------------- (c)
    ctx.relation_gate('c', VG, 'computed hash == certificate.hash', SCOPE, p_hash, {'eq'})
    ctx.relation_gate('c', VG, 'protocol_message.compute_hash() == signed_message', SCOPE, p_signed_message, {'eq'})
    ctx.relation_gate('c', VG, 'CurrentEpoch part == certificate.epoch', SCOPE, p_epoch_part, {'eq'})
    ED = 'mithril_common::crypto_helper::*::verify'
    ed_sink = Sink('Ed25519 genesis signature verify', ['mithril_common::crypto_helper::ed25519::Ed25519VerificationKey::verify',
                                                       '*::GenesisEd25519VerificationKey::verify',
                                                       '<*ProtocolKey* as *>::verify', 'ed25519_dalek::*::verify*',
                                                       '<ed25519_dalek::* as *Verifier*>::verify'], 'ok')
    ctx.r1('c', VG, ed_sink)
    lf = ctx.try_fn('c', VG)
    if lf is not None:
        lg = lf.logic()
        found = False
        for c in lg.body.calls():
            if ed_sink.matches(c):
                found = True
                og0 = fn_origins(lg, c.args[0], True)
                og1 = fn_origins(lg, c.args[1], True)
                og2 = fn_origins(lg, c.args[2], True) if len(c.args) > 2 else set()
                ok = has(og0, 'pty:MithrilCertificateVerifier.genesis_verifier') and not has(og0, 'pty:Certificate*')
                if ok:
                    R.ok('c', 'R5', 'verify_genesis_certificate: verification key <- self.genesis_verifier (not the certificate)',
                         '', lf.loc())
                else:
                    R.violation('c', 'R5', 'verify_genesis_certificate: verification key <- self.genesis_verifier (not the certificate)',
                                'verify_genesis:key-origin', 'key origins: %s' % sorted(og0)[:10], lf.loc())
                if has(og1, 'pty:Certificate.signed_message'):
                    R.ok('c', 'R5', 'verify_genesis_certificate: message <- certificate.signed_message', '', lf.loc())
                else:
                    R.violation('c', 'R5', 'verify_genesis_certificate: message <- certificate.signed_message',
                                'verify_genesis:msg-origin', 'message origins: %s' % sorted(og1)[:10], lf.loc())
                if has(og2, 'pty:Certificate.signature'):
                    R.ok('c', 'R5', 'verify_genesis_certificate: signature <- certificate.signature', '', lf.loc())
                else:
                    R.violation('c', 'R5', 'verify_genesis_certificate: signature <- certificate.signature',
                                'verify_genesis:sig-origin', 'signature origins: %s' % sorted(og2)[:10], lf.loc())

    # ---------------- (d)
    f = ctx.try_fn('d', VC)
    if f is not None:
        lf = f.logic()
        body = lf.body
        # every Ok(None) return is gated either by verify_genesis_certificate Ok or by the
        # certifies_full_certificate_chain() == true branch after the integrity checks
        removed = set()
        m1 = ctx.mpt.enforces(f, Sink('verify_genesis_certificate', ['*::verify_genesis_certificate'], 'ok'),
                              ret_filter=ret_ok_none)
        gen_edges = set()
        for s in m1.sites:
            gen_edges |= set(map(tuple, s.get('success_edges', [])))
        full = [c for c in body.calls() if any(glob_match('std::option::Option::is_some_and', n) for n in c.names())]
        full_edges = set()
        from engine import track_result, closure_args
        for c in full:
            cl = closure_args(body, c)
            cert_full = False
            for n in cl:
                for g in ctx.ws.by_name.get(n, []):
                    if any('certifies_full_certificate_chain' in cc.best() for cc in g.body.calls()):
                        cert_full = True
            if cert_full:
                tr = track_result(body, c.dest[0], +1)
                full_edges |= tr.success_edges
        # ... or written as a direct test (`Some(t) if t.certifies_full_certificate_chain() => ..`)
        for c in body.calls():
            if any('certifies_full_certificate_chain' in n for n in c.names()):
                full_edges |= track_result(body, c.dest[0], +1).success_edges
        hits = success_reachable(body, gen_edges | full_edges, 'ok', ret_filter=ret_ok_none)
        if hits or not gen_edges:
            R.violation('d', 'R1', 'verify_certificate: Ok(None) only after genesis verification / full-chain branch',
                        'verify_certificate:ok-none', 'an Ok(None) return (bb%s) is reachable without passing '
                        'verify_genesis_certificate=Ok or certifies_full_certificate_chain()=true' % hits, f.loc())
        else:
            R.ok('d', 'R1', 'verify_certificate: Ok(None) only after genesis verification / full-chain branch',
                 'genesis edges %s full-chain edges %s' % (sorted(gen_edges), sorted(full_edges)), f.loc())
        # the full-chain branch still runs the integrity checks
        if full_edges:
            hits2 = success_reachable(body, gen_edges, 'ok', ret_filter=ret_ok_none)
            integ_ok = ctx.mpt.enforces(f, Sink('AggregateSignature::verify', 'mithril_stm::*::AggregateSignature::verify', 'ok'),
                                        ret_filter=ret_ok_none)
            # with the genesis edges removed, remaining Ok(None) returns must pass the multi-signature check
            body_removed = gen_edges | {tuple(e) for s in integ_ok.sites for e in s.get('success_edges', [])}
            hits3 = success_reachable(body, body_removed, 'ok', ret_filter=ret_ok_none)
            if hits3:
                R.violation('d', 'R1', 'verify_certificate: the full-chain branch runs the integrity checks',
                            'verify_certificate:full-chain-integrity', 'Ok(None) (bb%s) reachable without genesis '
                            'verification and without the multi-signature check' % hits3, f.loc())
            else:
                R.ok('d', 'R1', 'verify_certificate: the full-chain branch runs the integrity checks', '', f.loc())
        # R13: certifies_full_certificate_chain() is constant false in this build
        try:
            cf = ctx.ws.find('mithril_stm::*::AggregateSignatureType::certifies_full_certificate_chain')
            vals = set()
            for b in cf.body.blocks:
                for (_, pl, rv) in b.stmts:
                    if pl[0] == 0 and not pl[1]:
                        vals.add(rv[1][3] if rv[0] == 'use' and rv[1][0] == 'const' else 'non-const')
            R.info('d', 'certifies_full_certificate_chain() return values in this build: %s' % sorted(map(str, vals)))
        except Exception as e:  # noqa
            R.info('d', 'certifies_full_certificate_chain not found: %s' % e)
    # chain walk: loops until None
    walk = 'mithril_common::certificate_chain::certificate_verifier::CertificateVerifier::verify_certificate_chain'
    ctx.r1('d', walk, Sink('verify_certificate(per link)', ['*::CertificateVerifier::verify_certificate', VC], 'ok', per_item=False))
    wf = ctx.try_fn('d', walk)
    if wf is not None:
        lw = wf.logic()
        body = lw.body
        # success is reachable only through the None arm of the verify_certificate result
        ok = False
        for c in body.calls():
            if any(glob_match('*::CertificateVerifier::verify_certificate', n) for n in c.names()):
                # find the switch on the Option payload: success edges for 'none'
                from engine import track_result as _tr
        # discriminant switches on Option<Certificate> locals
        none_edges, some_edges = set(), set()
        for bi, b in enumerate(body.blocks):
            if b.cleanup:
                continue
            for (_, pl, rv) in b.stmts:
                if rv[0] == 'discr' and 'Option<mithril_common::entities::certificate::Certificate>' in body.lty(rv[1][0]) \
                        and body.lty(rv[1][0]).startswith('std::option::Option'):
                    for (b2, s2, how2, pay2) in body.uses(pl[0]):
                        if how2 == 'sw':
                            from engine import switch_edges
                            su, fa = switch_edges(b2, pay2[0], 'option', +1)
                            some_edges |= su
                            none_edges |= fa
        hits = success_reachable(body, none_edges, 'ok') if none_edges else [0]
        if hits:
            R.violation('d', 'R1', 'verify_certificate_chain: returns Ok only when a link returned None',
                        'verify_certificate_chain:until-none', 'Ok reachable without the None arm (bb%s)' % hits, wf.loc())
        else:
            R.ok('d', 'R1', 'verify_certificate_chain: returns Ok only when a link returned None',
                 'None-arm edges %s' % sorted(none_edges), wf.loc())

    # ---------------- (e) structure of the chaining guards
    for what, fns in chain_fns.items():
        if not fns:
            R.violation('e', 'R6', '%s chaining guard exists' % what, 'chaining:%s:exists' % what,
                        'no function in %s compares previous/next %s under the same-epoch / cross-epoch split' % (SCOPE, what), None)
        else:
            R.ok('e', 'R6', '%s chaining guard exists' % what, ', '.join(fn_short(x.name) for x in fns))
    # equality of the chained values is total on their fields (a key differing only in total stake is a different key)
    for adt, ex in (('mithril_stm::proof_system::concatenation::aggregate_key::AggregateVerificationKeyForConcatenation', {}),
                    ('mithril_stm::membership_commitment::merkle_tree::commitment::MerkleTreeBatchCommitment',
                     {'hasher': 'PhantomData', 'leaf_type': 'PhantomData'}),
                    ('mithril_common::entities::protocol_parameters::ProtocolParameters', {})):
        ctx.field_cover('e', adt, '<%s as std::cmp::PartialEq>::eq' % adt, ret_consumer=True, exempt=ex, desc='(equality used by the chaining guards)')

    # ---------------- (f)
    ctx.relation_gate('f', VC, 'previous.epoch <= certificate.epoch', SCOPE, p_epoch_dir, {'lt', 'eq'},
                      ret_filter=ret_ok_some)
    ctx.arg_origin('f', '*MithrilCertificateVerifier::verify_epoch_chaining', '*::Epoch::has_gap_with', 0,
                   require=['pty:Certificate.epoch'], desc='<- certificate.epoch')
    ctx.arg_origin('f', '*MithrilCertificateVerifier::verify_epoch_chaining', '*::Epoch::has_gap_with', 1,
                   require=['pty:Certificate.epoch'], desc='<- previous_certificate.epoch')
    gap = ctx.try_fn('f', 'mithril_common::entities::epoch::Epoch::has_gap_with')
    if gap is not None:
        gs = [g for g in find_guards(gap.body) if g.op in ('Gt', 'Ge', 'Lt', 'Le')]
        ok = False
        for g in gs:
            if has(g.a_orig, 'call:*abs_diff') and has(g.b_orig, 'const:*1_u64*') and g.op == 'Gt' and g.returned:
                ok = True
        # returned comparison: `_0 = Gt(abs_diff, 1)`
        if not ok:
            for b in gap.body.blocks:
                for (_, pl, rv) in b.stmts:
                    if pl[0] == 0 and rv[0] == 'bin' and rv[1] == 'Gt' and rv[3][0] == 'const' and rv[3][3] == 1:
                        from engine import origins
                        if has(origins(gap.body, rv[2]), 'call:*abs_diff'):
                            ok = True
        if ok:
            R.ok('f', 'R6', 'Epoch::has_gap_with: gap <=> |a-b| > 1', '', gap.loc())
        else:
            R.violation('f', 'R6', 'Epoch::has_gap_with: gap <=> |a-b| > 1', 'has_gap_with:abs_diff>1',
                        'the returned value is not `abs_diff(..) > 1`', gap.loc())

    # ---------------- (g) client
    client(ctx)
    served_is_verified(ctx)


_WS = [None, None, None]


def p_epoch_dir(g):
    """(previous.epoch ? certificate.epoch) in an ordering comparison, whichever way round it is written and however the two
    certificates reach the comparing function: the PREVIOUS certificate is the one fetched through the retriever."""
    if g.op not in ('Gt', 'Ge', 'Lt', 'Le') or not (has(g.a_orig, 'pty:Certificate.epoch') and has(g.b_orig, 'pty:Certificate.epoch')):
        return False
    from props.common import deep_origins
    FETCHED = 'call:*CertificateRetriever::get_certificate_details'
    da = deep_origins(_WS[0], g.fn, g.a, True, depth=4, within=_WS[1])
    db = deep_origins(_WS[0], g.fn, g.b, True, depth=4, within=_WS[1])
    a_prev, b_prev = _WS[2].via_sink(da, FETCHED[5:]), _WS[2].via_sink(db, FETCHED[5:])
    if a_prev and not b_prev:
        return True
    if b_prev and not a_prev:
        return 'swap'
    return False


def find_caller_of(ctx, callee_pat):
    cs = ctx.ws.callers_of(callee_pat)
    cs = [f for f, _ in cs if f.unit.tag == 'lib']
    return cs[0].root() if cs else None


def chaining(ctx):
    """Discover, by content, the fns that implement the AVK and the protocol-parameter chaining guard and
    check their structure (clause e).  Returns {'avk': [fns], 'parameters': [fns]}."""
    R = ctx.report
    out = {'avk': [], 'parameters': []}
    specs = {
        'avk': ('aggregate_verification_key', 'adt:*ProtocolMessagePartKey::NextAggregateVerificationKey'),
        'parameters': ('metadata.protocol_parameters', 'adt:*ProtocolMessagePartKey::NextProtocolParameters'),
    }
    for f in ctx.ws.find_all(SCOPE):
        if f.kind == 'closure' or f.unit.tag != 'lib' or f.argc != 3:
            continue
        f = ctx.view(f)
        body = f.body
        gs = find_guards(body)
        eg = [g for g in gs if g.op == 'Eq' and sides(g, 'p#3.epoch', 'p#2.epoch')]
        if not eg:
            continue
        for what, (field, nextkey) in specs.items():
          # a body can hold several epoch tests (the chaining helpers spliced into a common caller): the one that governs THIS
          # comparison is the one under whose true arm alone the same-epoch comparison is reachable
          same0 = [g for g in gs if g.op == 'Eq' and sides(g, 'p#3.' + field, 'p#2.' + field)]
          # a caller into which a chaining function was spliced is not itself the chaining function (that one is examined on its own)
          own = getattr(f, '_orig', f)
          if same0 and getattr(body.blocks[same0[0].bb], 'owner', own) not in (own, None) and \
                  getattr(body.blocks[same0[0].bb], 'owner', own).root() is not own.root() and \
                  getattr(body.blocks[same0[0].bb], 'owner').argc == 3:
              continue
          cands = [e for e in eg if same0 and same0[0].bb not in body.reach([0], removed=e.true_edges)] or eg[:1]
          for E in cands[:1]:
                same = [g for g in gs if g.op == 'Eq' and sides(g, 'p#3.' + field, 'p#2.' + field)]
                if not same:
                    continue
                inst = '%s: %s chaining' % (fn_short(f.name), what)
                key = 'chaining:%s' % what
                problems = []
                S = same[0]
                # 1. same-epoch comparison only under E.true
                if S.bb in body.reach([0], removed=E.true_edges):
                    problems.append('the same-epoch comparison (line %d) is reachable when epochs differ' % S.line)
                # 2. cross-epoch comparison only under E.false: comparisons against the next-key part
                cross_sites = []
                for g in f.family():
                    for gg in find_guards(g.body):
                        if gg.op != 'Eq':
                            continue
                        og = gg.a_orig | gg.b_orig
                        if has(og, 'p#2.' + field + '*') and (has(og, nextkey) or (g is not f and has(og, 'clarg#*'))):
                            cross_sites.append((g, gg))
                # the next-key lookup
                look = [c for c in body.calls() if any(glob_match('*ProtocolMessage::get_message_part', n) for n in c.names())]
                look = [c for c in look if has(fn_origins(f, c.args[1], True), nextkey) and has(fn_origins(f, c.args[0], True), 'p#3.protocol_message')]
                if not look:
                    problems.append('no lookup of %s in previous_certificate.protocol_message' % nextkey)
                else:
                    for c in look:
                        if c.bb in body.reach([0], removed=E.false_edges):
                            problems.append('the cross-epoch lookup (line %d) is reachable when epochs are equal' % c.line)
                if not cross_sites:
                    problems.append('no comparison of the signed next value with certificate.%s' % field)
                # 3. the validity value gates success, and all its definitions are those comparisons
                v_locals = set()
                for (l, p) in [(S_dest(body, S), 0)]:
                    if l is not None:
                        v_locals.add(l)
                from engine import track_result
                vl = S_dest(body, S)
                if vl is None:
                    problems.append('cannot locate the validity value')
                else:
                    tr = track_result(body, vl, +1, 'bool')
                    if success_reachable(body, tr.success_edges, 'ok') or not tr.success_edges:
                        problems.append('Ok is reachable without the validity value being true')
                    # all defs of locals the value flows through
                    chain = flow_chain(body, vl)
                    for l in chain:
                        for (bi, si, pl, rv) in body.defs(l):
                            if si == 't':
                                c = rv
                                nm = c.best()
                                if not (glob_match('*PartialEq*::eq', nm) or glob_match('std::option::Option::is_some_and', nm)):
                                    problems.append('validity value defined by %s (line %d)' % (nm, c.line))
                            else:
                                k = rv[0]
                                if k == 'use' and rv[1][0] == 'const':
                                    if rv[1][3] != 0:
                                        problems.append('validity value assigned constant true')
                                elif k in ('use', 'bin', 'un'):
                                    pass
                                else:
                                    problems.append('validity value defined by %s' % k)
                if problems:
                    R.violation('e', 'R6', inst, key, '; '.join(problems), f.loc())
                else:
                    R.ok('e', 'R6', inst, 'epoch-equality guard L%d splits: same-epoch equality L%d; cross-epoch lookup of %s '
                         'compared with certificate.%s (%d site(s)); validity gates Ok' % (E.line, S.line, nextkey, field, len(cross_sites)), f.loc())
                    out[what].append(f)
    return out


def S_dest(body, g):
    """Local receiving the boolean result of comparison guard g."""
    blk = body.blocks[g.bb]
    if g.kind == 'binop':
        for (line, pl, rv) in blk.stmts:
            if rv[0] == 'bin' and line == g.line and rv[1] == g.op:
                return pl[0]
        return None
    if blk.term[0] == 'call':
        return blk.term[1].dest[0]
    return None


def flow_chain(body, l):
    """Locals the boolean flows through by plain copies (both directions)."""
    seen = {l}
    work = [l]
    while work:
        x = work.pop()
        for (bi, si, how, payload) in body.uses(x):
            if how == 'stmt':
                pl, rv, place = payload
                if rv[0] == 'use' and not pl[1] and pl[0] not in seen and pl[0] != 0:
                    seen.add(pl[0])
                    work.append(pl[0])
    return seen


def client(ctx):
    R = ctx.report
    CV = '<mithril_client::certificate_client::verify::MithrilCertificateVerifier as mithril_client::certificate_client::api::CertificateVerifier>::verify_chain'
    WITHOUT = 'mithril_client::certificate_client::verify::MithrilCertificateVerifier::verify_without_cache'
    WITH = 'mithril_client::certificate_client::verify::MithrilCertificateVerifier::verify_with_cache_enabled'
    CACHED = 'mithril_client::certificate_client::verify::MithrilCertificateVerifier::fetch_cached_previous_hash'
    ctx.only_callers('g', CACHED, [(WITH + '*', 'the cache-enabled step')], 'only the cache-enabled step consults the cache')
    ctx.only_callers('g', WITH, [(CV + '*', 'second loop of verify_chain')], 'only verify_chain enables the cache')
    ctx.only_callers('g', '*::CertificateVerifierCache::store_validated_certificate',
                     [(WITHOUT + '*', 'after full verification')], 'cache is filled only by verify_without_cache')
    # a link taken from the cache names the next certificate by hash only: the certificate downloaded for it must have that hash
    # (F12: it was not compared - a provider could answer the hash of a certificate that had failed validation with any genuine
    # certificate, and the cached, never anchored descendants were accepted on the second attempt)
    wv = ctx.try_fn('g', WITH)
    if wv is not None:
        GCD = ['*::CertificateRetriever::get_certificate_details', '*::InternalCertificateRetriever::get_certificate_details',
               '<*InternalCertificateRetriever as *CertificateRetriever>::get_certificate_details']
        inst = 'verify_with_cache_enabled: a certificate downloaded for a cached link is used only if its hash equals the requested hash'
        sites = ctx.closure_sites(wv, GCD, depth=2)
        bad = []
        for g, c in sites:
            body = g.body
            req = {o for o in fn_origins(g, c.args[1], 'adapters') if not o.startswith('const:')}

            def pred(gd, req=req):
                if gd.op not in ('Eq', 'Ne'):
                    return False
                for x, y in ((gd.a_orig, gd.b_orig), (gd.b_orig, gd.a_orig)):
                    if any(glob_match('call:' + q, o) for q in GCD for o in x) and not any(glob_match('call:' + q, o) for q in GCD for o in y) \
                            and (req & y):
                        return True
                return False
            removed = set()
            for gd in find_guards(body):
                if pred(gd):
                    rel_t = CMP_REL[gd.op]
                    if rel_t <= {'eq'}:
                        removed |= gd.true_edges
                    if (ALL3 - rel_t) <= {'eq'}:
                        removed |= gd.false_edges
            uses = {cc.bb for cc in ctx.call_sites(body, [WITHOUT])}
            start = [c.target] if c.target is not None else []
            reach = body.reach(start, removed=removed)
            if not removed or (uses & reach) or success_reachable(body, removed, 'ok', starts=start):
                bad.append('%s line %d' % (fn_short(g.name), c.line))
        if bad:
            R.violation('g', 'R6', inst, 'client:cached-link-hash', 'download sites whose certificate is used without `certificate.hash == requested hash`: %s' % bad, wv.loc())
        else:
            R.ok('g', 'R6', inst, '%d download site(s) in the cache-enabled step' % len(sites), wv.loc())
    # store only after verify_certificate succeeded
    from engine import Sink as S
    wf = ctx.try_fn('g', WITHOUT)
    if wf is not None:
        lw = wf.logic()
        body = lw.body
        vsink = S('internal verify_certificate', ['*::CertificateVerifier::verify_certificate'], 'ok')
        r = ctx.mpt.enforces(wf, vsink)
        if r.holds:
            R.ok('g', 'R1', 'verify_without_cache => internal_verifier.verify_certificate=ok', '', wf.loc())
        else:
            R.violation('g', 'R1', 'verify_without_cache => internal_verifier.verify_certificate=ok',
                        'verify_without_cache=>verify_certificate', ' | '.join(r.problems)[:800], wf.loc())
        edges = set()
        for s in r.sites:
            edges |= {tuple(e) for e in s.get('success_edges', [])}
        STOREC = ['*::CertificateVerifierCache::store_validated_certificate']
        stores = [c for c in body.calls() if any(glob_match(STOREC[0], n) for n in c.names())]
        if not stores:
            # the store moved into a helper awaited by verify_without_cache: its call sites stand for it
            hs = []
            for h in ctx.closure_fns(wf, depth=2):
                if h is getattr(wf, '_orig', wf).root():
                    continue
                try:
                    if ctx.closure_sites(h, STOREC, depth=2):
                        hs.append(h.name)
                except Exception:  # noqa
                    pass
            stores = ctx.call_sites(body, hs) if hs else []
        if not stores:
            R.violation('g', 'R2', 'verify_without_cache: verify_certificate Ok precedes store_validated_certificate',
                        'verify_without_cache:order:vacuous', 'no store_validated_certificate call found', wf.loc())
        else:
            reach = body.reach([0], removed=edges)
            bad = [c for c in stores if c.bb in reach]
            if bad:
                R.violation('g', 'R2', 'verify_without_cache: verify_certificate Ok precedes store_validated_certificate',
                            'verify_without_cache:order', 'store at line %d reachable without a successful verification' % bad[0].line, wf.loc())
            else:
                R.ok('g', 'R2', 'verify_without_cache: verify_certificate Ok precedes store_validated_certificate', '', wf.loc())
    # verify_chain: the cache-enabled step is reachable only after the first loop was left through
    # the epoch-boundary / None exits, and the first loop verifies without cache
    cf = ctx.try_fn('g', CV)
    if cf is not None:
        from engine import track_result, closure_args, switch_edges
        MODV = 'mithril_client::certificate_client::verify::'

        def phase_bodies(pat):
            out = {}
            for g, c in ctx.closure_sites(cf, [pat], depth=3):
                rn = getattr(g, '_orig', g).root().name
                if rn in (WITH, WITHOUT) or not rn.startswith(('<' + MODV, MODV)):
                    continue        # the steps themselves (the cache-enabled step falls back on the uncached one)
                out.setdefault(getattr(g, '_orig', g).name, (g, []))[1].append(c)
            return out
        p1 = phase_bodies(WITHOUT)      # bodies driving the uncached phase
        p2 = phase_bodies(WITH)         # bodies driving the cache-enabled phase
        if not p1 or not p2:
            R.violation('g', 'R2', 'verify_chain: both phases exist', 'verify_chain:phases',
                        'bodies calling verify_with_cache_enabled: %d, verify_without_cache: %d' % (len(p2), len(p1)), cf.loc())
        else:
            R.ok('g', 'R2', 'verify_chain: both phases exist', '', cf.loc())

            def boundary(g):
                """(edges on which the epoch boundary was crossed or the chain ended, boundary test sites) of one body"""
                gb = g.body
                allowed, tests = set(), []
                for c in gb.calls():
                    if any(glob_match('std::option::Option::is_some_and', n) or glob_match('std::option::Option::is_none_or', n) or
                           glob_match('std::option::Option::map_or', n) for n in c.names()):
                        for n in closure_args(gb, c):
                            for cl in ctx.ws.by_name.get(n, []):
                                if any(gg.op in ('Ne', 'Eq') and has(gg.a_orig | gg.b_orig, '*epoch*') for gg in find_guards(cl.body)):
                                    tests.append((c.bb, c.line))
                                    allowed |= track_result(gb, c.dest[0], +1).success_edges
                for gg in find_guards(gb):
                    if gg.op in ('Ne', 'Eq') and has(gg.a_orig | gg.b_orig, '*epoch*'):
                        tests.append((gg.bb, gg.line))
                        allowed |= (gg.true_edges if gg.op == 'Ne' else gg.false_edges)
                for bi, b_ in enumerate(gb.blocks):
                    if b_.cleanup:
                        continue
                    for (_, pl, rv) in b_.stmts:
                        if rv[0] == 'discr' and gb.lty(rv[1][0]).startswith('std::option::Option<mithril_common::entities::certificate::Certificate>'):
                            for (b2, s2, how2, pay2) in gb.uses(pl[0]):
                                if how2 == 'sw':
                                    su, fa = switch_edges(b2, pay2[0], 'option', +1)
                                    allowed |= fa
                return allowed, tests
            bad, bad2, ntests = [], [], 0
            for name, (g, wo_calls) in sorted(p1.items()):
                gb = g.body
                allowed, tests = boundary(g)
                ntests += len(tests)
                if name in p2:
                    # one body drives both phases: the cache-enabled step is unreachable without crossing the boundary
                    reach = gb.reach([0], removed=allowed)
                    bad += ['%s line %d' % (fn_short(name), c.line) for c in p2[name][1] if c.bb in reach]
                else:
                    # the uncached phase is a function of its own: it returns Ok only across the boundary (or at the end of the chain),
                    # and whoever starts the cache-enabled phase has awaited it successfully
                    if success_reachable(gb, allowed, 'ok'):
                        bad.append('%s returns Ok without crossing the epoch boundary' % fn_short(name))
                    for name2, (g2, w_calls) in sorted(p2.items()):
                        callers = ctx.call_sites(cf.logic().body, [getattr(g, '_orig', g).root().name])
                        starts2 = ctx.call_sites(cf.logic().body, [getattr(g2, '_orig', g2).root().name]) if name2 != getattr(cf.logic(), '_orig', cf.logic()).name else w_calls
                        ed = set()
                        for c in callers:
                            ed |= track_result(cf.logic().body, c.dest[0], +1).success_edges
                        if not callers or not ed or any(c.bb in cf.logic().body.reach([0], removed=ed) for c in starts2) or not starts2:
                            bad.append('the cache-enabled phase (%s) can start without a successful %s' % (fn_short(name2), fn_short(name)))
                # the boundary test is evaluated only after an uncached verification succeeded
                removed = {(c.bb, c.target) for c in wo_calls}
                reach2 = gb.reach([0], removed=removed)
                bad2 += ['%s line %d' % (fn_short(name), ln) for (bb_, ln) in tests if bb_ in reach2]
            if bad or not ntests:
                R.violation('g', 'R2', 'verify_chain: cache phase only after the epoch-boundary test (or end of chain)',
                            'verify_chain:cache-after-boundary', '%s; boundary tests found: %d' % (bad, ntests), cf.loc())
            else:
                R.ok('g', 'R2', 'verify_chain: cache phase only after the epoch-boundary test (or end of chain)', '%d boundary test(s)' % ntests, cf.loc())
            if bad2:
                R.violation('g', 'R2', 'verify_chain: the epoch-boundary test follows an uncached verification',
                            'verify_chain:boundary-after-uncached', 'boundary test reachable without verify_without_cache: %s' % bad2, cf.loc())
            else:
                R.ok('g', 'R2', 'verify_chain: the epoch-boundary test follows an uncached verification', '', cf.loc())
            # the exit of loop 1 towards the cache phase is guarded by `epoch != start_epoch` (or None)
            gs = []
            for name, (g, _c) in p1.items():
                gs += [x for x in find_guards_family(g) if x[1].op in ('Ne', 'Eq') and has(x[1].a_orig | x[1].b_orig, '*epoch*')]
            if gs:
                R.ok('g', 'R6', 'verify_chain: loop 1 exit tests the epoch against the start epoch',
                     'guards at lines %s' % [x[1].line for x in gs], cf.loc())
            else:
                R.violation('g', 'R6', 'verify_chain: loop 1 exit tests the epoch against the start epoch',
                            'verify_chain:epoch-boundary-guard', 'no epoch (in)equality guard in the uncached phase', cf.loc())


def served_is_verified(ctx):
    """The chain is verified on the entity converted from the served message, and the client returns / uses the served message:
    every verified field of the entity must be the same-named field of the message (added after seed C03-5: the conversion
    recomputed signed_message from the protocol message, so the served field was never looked at)."""
    from props.c04 import find_impl
    E_ = 'mithril_common::entities::'
    M_ = 'mithril_common::messages::certificate::'
    MP_ = 'mithril_common::messages::message_parts::certificate_metadata::CertificateMetadataMessagePart'
    fm2c = find_impl(ctx, 'g', E_ + 'certificate::Certificate', 'std::convert::TryFrom', M_ + 'CertificateMessage')
    if fm2c is not None:
        ctx.field_mapping('g', M_ + 'CertificateMessage', E_ + 'certificate::Certificate', fm2c, desc='(served message -> verified entity)')
        ctx.field_mapping('g', MP_, E_ + 'certificate_metadata::CertificateMetadata', fm2c, desc='(served message -> verified entity)',
                          src_prefix='pty:CertificateMessage.metadata')


def find_guards_family(fn):
    out = []
    for g in fn.family():
        for gg in find_guards(g.body):
            out.append((g, gg))
    return out
