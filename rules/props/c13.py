"""C13 - chain import converges under roll-backs (narrow; DESIGN.md section 4, C13)."""
from core import glob_match, rvalue_reads
from engine import Sink, fn_origins, track_result, success_reachable, loop_info
from props.common import Ctx, fn_short, parse_sql_comparison  # noqa: F401

EXPLANATION = (
    'Static rules (narrow): (a) a roll-back deletes blocks+transactions, block-range roots and legacy block-range roots inside '
    'one SQLite transaction (begin < three deletes < commit, commit on every success path, all three bound to the same block '
    'number); (b) both scanner events are handled (per-item: every polled batch is either stored or rolled back with the error '
    'propagated), storage errors propagate; (c) the resume cursor is advanced only after the whole batch loop succeeded; (d) '
    'roll-forward storage is chunk-atomic (begin/commit bracket per chunk); (e) the embedded SQL thresholds of the three '
    'roll-back deletes have the directions the repository documents (blocks strictly above the threshold, range roots containing '
    'or above it); (f) the block delete cascades to the transactions only with foreign keys enforced: who opens SQLite connections, the '
    'connection factory executes the foreign_keys pragma on every success path when the option is set, both nodes request the option for '
    'the cardano_tx store, nobody force-disables it; (g) the chain-reader block streamer drops no roll-back except the one that opens '
    'the chain sync (slot == start slot AND nothing polled yet). Does not decide convergence over histories, nor restart behaviour.')

ASSUMPTIONS = ['SQLite transaction semantics; the chain scanner reports roll-backs faithfully']

PR = 'mithril_persistence::database::repository::cardano_transaction_repository::CardanoTransactionRepository::'
RB = PR + 'remove_rolled_back_transactions_and_block_range_by_block_number'
RBS = PR + 'remove_rolled_back_blocks_transactions_and_block_range_by_slot_number'
STORE = PR + 'store_blocks_and_transactions'
IMP = 'mithril_cardano_node_chain::chain_importer::blocks_and_transactions_importer::BlocksTransactionsImporter::'
Q = 'mithril_persistence::database::query::'
BEGIN = ['mithril_persistence::sqlite::connection_extensions::ConnectionExtensions::begin_transaction', '*::begin_transaction']
COMMIT = ['mithril_persistence::sqlite::transaction::Transaction::commit', '*::Transaction::commit']


DROPPING = ('call:*Iterator>::filter', 'call:*Iterator::filter', 'call:*::retain', 'call:*::retain_mut', 'call:*::take_while', 'call:*::skip_while',
            'call:*::filter_map', 'call:*::skip', 'call:*::take', 'call:*::step_by', 'call:*::truncate', 'call:*::split_off', 'call:*::drain',
            'call:*::dedup*', 'call:*::extract_if', 'call:*::partition')


def has(og, pat):
    # a field path under the named origin also counts (getters spliced by the inliner make origins more precise)
    return any(glob_match(pat, o) or (pat[-1] != '*' and glob_match(pat + '.*', o)) for o in og)


def run(ctx):
    R = ctx.report
    ws = ctx.ws
    R.clause('a', 'a roll-back deletes blocks+transactions, range roots and legacy range roots in one transaction')
    R.clause('b', 'both scanner events are handled and storage errors propagate')
    R.clause('c', 'the resume cursor advances only after the whole batch loop succeeded')
    R.clause('d', 'roll-forward storage is chunk-atomic')
    R.clause('e', 'SQL thresholds of the roll-back deletes')

    # ---- (a)
    f = ctx.try_fn('a', RB)
    if f is not None:
        lf = f.logic()
        body = lf.body
        dels = {
            'blocks+transactions': [Q + 'cardano_block::delete_cardano_block_and_transactions::DeleteCardanoBlockAndTransactionQuery::above_block_number_threshold'],
            'block range roots': [Q + 'block_range_root::delete_block_range_root::DeleteBlockRangeRootQuery::contains_or_above_block_number_threshold'],
            'legacy block range roots': [Q + 'block_range_root::delete_legacy_block_range_root::DeleteLegacyBlockRangeRootQuery::contains_or_above_block_number_threshold',
                                         Q + '*::DeleteLegacyBlockRangeRootQuery::contains_or_above_block_number_threshold'],
        }
        bs, bedges = ctx.success_edges_of(lf, BEGIN)
        cs = ctx.call_sites(body, COMMIT)
        fetches = ctx.call_sites(body, ['*::ConnectionExtensions::fetch_first', '*::ConnectionExtensions::fetch', '*::ConnectionExtensions::apply'])
        problems = []
        if not bs or not cs:
            problems.append('begin_transaction sites %d, commit sites %d' % (len(bs), len(cs)))
        for what, pats in dels.items():
            qs = ctx.call_sites(body, pats)
            if not qs:
                problems.append('no %s delete query' % what)
                continue
            for q in qs:
                if not has(fn_origins(lf, q.args[0], True), 'p#2'):
                    problems.append('%s delete is not bound to the given block number' % what)
                # executed: the query value reaches a fetch/apply call
                ex = [c for c in fetches if has(fn_origins(lf, c.args[1], True), 'call:' + q.best())]
                if not ex:
                    problems.append('%s delete query is built but not executed' % what)
                for c in ex:
                    # after begin, before commit, result propagated
                    if c.bb in body.reach([0], removed=bedges):
                        problems.append('%s delete can run outside the transaction' % what)
                    tr = track_result(body, c.dest[0], +1)
                    if not tr.discharged():
                        problems.append('%s delete result is not propagated' % what)
                    # commit not reachable if the delete failed
                    if any(cc.bb in body.reach([b for _, b in tr.fail_edges]) for cc in cs):
                        problems.append('commit reachable after a failed %s delete' % what)
                    # every delete precedes the commit
                    if not any(cc.bb in body.reach([c.target]) for cc in cs):
                        problems.append('%s delete is after the commit' % what)
        # commit on every success path
        cedges = set()
        for c in cs:
            tr = track_result(body, c.dest[0], +1)
            cedges |= tr.success_edges or {(c.bb, c.target)}
        if cs and success_reachable(body, cedges, 'ok'):
            problems.append('Ok reachable without a successful commit')
        inst = 'remove_rolled_back_..._by_block_number: begin < 3 deletes (same block number, errors propagate) < commit'
        if problems:
            R.violation('a', 'R2', inst, 'rollback:transaction', '; '.join(sorted(set(problems))), f.loc())
        else:
            R.ok('a', 'R2', inst, '', f.loc())
    g = ctx.try_fn('a', RBS)
    if g is not None:
        # F16: every Ok of the by-slot roll-back has removed something - above the closest stored block, or (no stored block at or below the
        # slot) everything: the pinned tree returned Ok without touching the store in that case
        DELQ = [Q + 'cardano_block::delete_cardano_block_and_transactions::DeleteCardanoBlockAndTransactionQuery::all',
                Q + 'cardano_block::delete_cardano_block_and_transactions::DeleteCardanoBlockAndTransactionQuery::above_block_number_threshold']
        # the steps the by-slot function itself calls (not the helpers of those steps)
        direct = set()
        for c in g.logic().body.calls():
            for n in c.names():
                for h in ws.by_name.get(n, []):
                    if h.kind in ('fn', 'assoc_fn') and h.unit.tag == 'lib' and h.root().name != RB and h.root() is not getattr(g, '_orig', g).root() \
                            and ctx.closure_sites(h, DELQ, depth=2):
                        direct.add(h.root().name)
        removers = [RB] + sorted(direct)
        ctx.r1('a', RBS, Sink('a removal (by block number, or of everything)', removers, 'ok'), label='roll-back by slot: every Ok return has passed a removal')
        # the remove-everything arm is transactional and covers the three tables too
        for hn in removers:
            if hn == RB:
                continue
            hf = ctx.try_fn('a', hn)
            if hf is None:
                continue
            hl = hf.logic()
            hb = hl.body
            bs_, bed_ = ctx.success_edges_of(hl, BEGIN)
            cs_ = ctx.call_sites(hb, COMMIT)
            pr_ = []
            # (explicit constructor names: named definitions are never spliced into their callers, scope globs are)
            tables = {'blocks+transactions': ['*::DeleteCardanoBlockAndTransactionQuery::all', '*::DeleteCardanoBlockAndTransactionQuery::above_block_number_threshold'],
                      'block range roots': ['*::DeleteBlockRangeRootQuery::contains_or_above_block_number_threshold'],
                      'legacy block range roots': ['*::DeleteLegacyBlockRangeRootQuery::contains_or_above_block_number_threshold']}
            for what, pats in tables.items():
                qs = ctx.call_sites(hb, pats)
                if not qs:
                    pr_.append('no %s delete' % what)
                for c in qs:
                    if c.bb in hb.reach([0], removed=bed_):
                        pr_.append('%s delete outside the transaction' % what)
            ced_ = set()
            for c in cs_:
                tr = track_result(hb, c.dest[0], +1)
                ced_ |= tr.success_edges or {(c.bb, c.target)}
            if not bs_ or not cs_ or success_reachable(hb, ced_, 'ok'):
                pr_.append('Ok reachable without begin/commit')
            inst_h = '%s: the three tables are emptied in one transaction' % fn_short(hn)
            if pr_:
                R.violation('a', 'R2', inst_h, 'rollback:remove-all', '; '.join(sorted(set(pr_))), hf.loc())
            else:
                R.ok('a', 'R2', inst_h, '', hf.loc())
        lg = g.logic()
        body = lg.body
        rb = ctx.call_sites(body, [RB])
        look = ctx.call_sites(body, [PR + 'get_closest_block_number_above_slot_number'])
        ok = bool(rb) and bool(look) and all(has(fn_origins(lg, c.args[1], True), 'call:' + PR + 'get_closest_block_number_above_slot_number') for c in rb) and \
            all(has(fn_origins(lg, c.args[1], True), 'p#2') for c in look)
        disc = all(track_result(body, c.dest[0], +1).discharged() for c in rb)
        if ok and disc:
            R.ok('a', 'R5', 'roll-back by slot: block number <- closest block for the slot; the removal error propagates', '', g.loc())
        else:
            R.violation('a', 'R5', 'roll-back by slot: block number <- closest block for the slot; the removal error propagates', 'rollback:by-slot', '', g.loc())

    # ---- (b), (c)  stated at the exported entry `run`: the polling loop is wherever BlockStreamer::poll_next is called under it; the
    # store / roll-back / cursor steps may sit in the loop body or in helpers it awaits
    RUN = IMP + 'run'
    ST = ['*::ChainDataStore::store_blocks_and_transactions']
    RM = ['*::ChainDataStore::remove_rolled_chain_data_and_block_range']
    POLL = ['*::BlockStreamer::poll_next']
    run_ = ctx.try_fn('b', RUN)
    if run_ is not None:
        loops = {}
        for g, c in ctx.closure_sites(RUN, POLL, depth=4):
            if '::chain_importer::' not in getattr(g, '_orig', g).root().name:
                continue        # a streamer delegating to the streamer it wraps is not the importer's loop
            loops.setdefault(getattr(g, '_orig', g).name, (g, []))[1].append(c)
        inst_b = 'importer loop: every polled batch is stored or rolled back; errors propagate'
        inst_c = 'importer: last_polled_point is written only after the batch loop ended (poll returned None)'
        if not loops:
            R.violation('b', 'R1', inst_b, 'importer:loop', 'no BlockStreamer::poll_next call under run', run_.loc())
        for li, polls in loops.values():
            body = li.body
            root_li = getattr(li, '_orig', li).root()
            # helpers (under the loop function) that store / roll back / touch the cursor
            def _helpers(pats):
                out_ = []
                for h in ctx.closure_fns(root_li, depth=3):
                    if h is root_li:
                        continue
                    try:
                        if ctx.closure_sites(h, pats, depth=2):
                            out_.append(h.name)
                    except Exception:  # noqa
                        pass
                return out_
            sts, sedges = ctx.success_edges_of(li, ST + _helpers(ST))
            rms, redges = ctx.success_edges_of(li, RM + _helpers(RM))
            problems = []
            if not sts or not rms:
                problems.append('store sites %d, roll-back sites %d, poll sites %d' % (len(sts), len(rms), len(polls)))
            else:
                pe = set()
                for c in polls:
                    pe |= track_result(body, c.dest[0], +1).success_edges
                starts = [b_ for _, b_ in pe]
                r = body.reach(starts, removed=sedges | redges, stop={c.bb for c in polls})
                if any(c.bb in r for c in polls):
                    problems.append('a polled batch can be skipped (next poll reachable without a successful store / roll-back)')
                # the store / roll-back results propagate, where they arise
                for g2, c2 in ctx.closure_sites(root_li, ST + RM, depth=3):
                    tr = track_result(g2.body, c2.dest[0], +1)
                    if not tr.discharged():
                        problems.append('result of %s not propagated' % fn_short(c2.best()))
                    og = ctx.deep(root_li, g2, c2.args[1], True, up=3, depth=3)
                    if not has(og, 'call:*::BlockStreamer::poll_next'):
                        problems.append('%s is not given what the scanner event carried' % fn_short(c2.best()))
                    # the whole batch: no element-dropping adapter between the event and the store (seed C13-5: forward blocks were
                    # filtered against a stored height read before the roll-back of the same run)
                    dropping = sorted(o for o in og if any(glob_match(q, o) for q in DROPPING))
                    if dropping and any(glob_match(q, n) for q in ST for n in c2.names()):
                        problems.append('the stored batch passes %s: blocks of a polled batch can be dropped' % [fn_short(o[5:]) for o in dropping][:3])
                for c in sts + rms:
                    if not track_result(body, c.dest[0], +1).discharged():
                        problems.append('result of %s not propagated' % fn_short(c.best()))
            if problems:
                R.violation('b', 'R1', inst_b, 'importer:loop', '; '.join(sorted(set(problems))), li.loc())
            else:
                R.ok('b', 'R1', inst_b, '', li.loc())
        # (c) cursor: wherever it is read from the streamer / written to the importer, that point is reached only when the stream has
        # ended successfully (poll returned None, directly or inside an awaited helper whose own Ok requires it)
        LPP = ['*::BlockStreamer::last_polled_point']

        def done_edges(view, depth=0):
            """edges of view.body on which the polled stream is known to have ended successfully"""
            body = view.body
            ed = set()
            if ctx.call_sites(body, POLL):
                for l, (ty, nm) in enumerate(body.locals):
                    if ty.startswith('std::option::Option<') and 'ChainScannedBlocks' in ty:
                        ed |= track_result(body, l, -1, 'option').success_edges
            if depth < 2:
                root0 = getattr(view, '_orig', view).root()
                for c in body.calls():
                    for n in c.names():
                        for h in ws.by_name.get(n, []):
                            if h.root() is root0 or h.kind not in ('fn', 'assoc_fn') or h.unit.crate != root0.unit.crate:
                                continue
                            if not ctx.closure_sites(h, POLL, depth=2):
                                continue
                            hv = ctx.view(h).logic()
                            hd = done_edges(hv, depth + 1)
                            if hd and not success_reachable(hv.body, hd, 'ok'):
                                ed |= track_result(body, c.dest[0], +1).success_edges
            return ed
        cur = [(g, c) for g, c in ctx.closure_sites(RUN, LPP, depth=4) if '::chain_importer::' in getattr(g, '_orig', g).root().name]   # not the streamers' own delegations
        if not cur:
            R.violation('c', 'R2', inst_c, 'importer:cursor', 'last_polled_point sites 0', run_.loc())
        else:
            bad = []
            for g, c in cur:
                ed = done_edges(g)
                if not ed or c.bb in g.body.reach([0], removed=ed):
                    bad.append('%s line %d' % (fn_short(g.name), c.line))
            if bad:
                R.violation('c', 'R2', inst_c, 'importer:cursor', 'the cursor read/write is reachable without the end-of-stream arm: %s' % bad, cur[0][0].loc())
            else:
                R.ok('c', 'R2', inst_c, '%d site(s)' % len(cur), cur[0][0].loc())
        # (c) what the importers remember in memory between runs: a roll-back rewrites the STORE; a chain position kept in a cell of
        # an importer survives it.  Allowed: the streaming cursor (above); any other such cell must be rewritten on the roll-back path
        # (seed C13-4: the block-range importer remembered its last computed range and never recomputed the ranges a roll-back removed)
        CELL = ('Mutex<', 'RwLock<', 'Cell<', 'Atomic', 'OnceLock<', 'OnceCell<')
        POS = ('BlockRange', 'BlockNumber', 'ChainPoint', 'SlotNumber', 'RawCardanoPoint')
        BTI = IMP[:-2]
        CURSOR = {(BTI, 'last_polled_point')}
        cells = []
        for an, a in sorted(ws.adts.items()):
            if '::chain_importer::' not in an or not an.startswith('mithril_cardano_node_chain::'):
                continue
            for v in a['variants']:
                for fd in v['fields']:
                    ty = fd.get('ty') or ''
                    if any(x in ty for x in CELL) and any(x in ty for x in POS):
                        cells.append((an, fd['n']))
        rb_roots = set()
        for f0 in ws.fns:
            if f0.unit.crate == 'mithril_cardano_node_chain' and f0.unit.tag == 'lib' and '::chain_importer::' in f0.name and \
                    any(glob_match(q, n) for (cal, res, _l) in f0.calls for n in (cal, res) if n for q in RM):
                rb_roots |= {id(x) for x in ctx.closure_fns(f0.root(), depth=3)}
        WR = ('*::lock', '*::lock_owned', '*::blocking_lock', '*::try_lock', '*::write', '*::blocking_write', '*::try_write', '*::store', '*::set', '*::replace',
              '*::swap', '*::fetch_*', '*::get_mut', '*::take')
        inst_m = 'importers: a chain position remembered in memory is the streaming cursor, or is rewritten on the roll-back path'
        stale = []
        for an, fn_ in cells:
            if (an, fn_) in CURSOR:
                continue
            short = an.rsplit('::', 1)[-1]
            writers = set()
            for f0 in ws.fns:
                if f0.unit.crate != 'mithril_cardano_node_chain' or f0.unit.tag != 'lib':
                    continue
                if not any(any(glob_match(q, n) for q in WR) for (cal, res, _l) in f0.calls for n in (cal, res) if n):
                    continue
                for c in f0.body.calls():
                    if any(glob_match(q, n) for q in WR for n in c.names()) and c.args and \
                            has(fn_origins(f0, c.args[0], 'adapters'), 'pty:%s.%s' % (short, fn_)):
                        writers.add(id(f0.root()))
            if not (writers & rb_roots):
                stale.append('%s.%s' % (short, fn_))
        if stale:
            R.violation('c', 'R3', inst_m, 'importer:memory-state:%s' % ','.join(stale), 'in-memory chain positions never rewritten where a roll-back is handled: %s '
                        '(resuming from them skips what the roll-back removed from the store)' % stale, run_.loc())
        else:
            R.ok('c', 'R3', inst_m, '%d cell(s): %s' % (len(cells), ['%s.%s' % (a_.rsplit('::', 1)[-1], f_) for a_, f_ in cells]), run_.loc())
        # the scan covers [start_point(), requested beacon]
        SCAN = ['*::BlockScanner::scan']
        ctx.sink_arg('b', RUN, SCAN, 1, require_via=[IMP + 'start_point'], desc='(from) <- start_point()', depth=4, key='importer:run-args:from')
        ctx.sink_arg('b', RUN, SCAN, 2, require=['p#2'], desc='(until) <- the requested beacon', depth=4, key='importer:run-args:until')

    # ---- (d)
    s = ctx.try_fn('d', STORE)
    if s is not None:
        ls = s.logic()
        body = ls.body
        bs, bedges = ctx.success_edges_of(ls, BEGIN)
        cs = ctx.call_sites(body, COMMIT)
        ins = ctx.call_sites(body, [PR + 'create_block_and_transactions_with_connection'])
        problems = []
        if not bs or not cs or not ins:
            problems.append('begin %d commit %d insert %d' % (len(bs), len(cs), len(ins)))
        else:
            for c in ins:
                li2 = loop_info(body, c.bb)
                if c.bb in body.reach([0], removed=bedges):
                    problems.append('insert reachable outside a transaction')
                tr = track_result(body, c.dest[0], +1)
                if not tr.discharged():
                    problems.append('insert error not propagated')
                if any(cc.bb in body.reach([b for _, b in tr.fail_edges]) for cc in cs):
                    problems.append('commit reachable after a failed insert')
            cedges = set()
            for c in cs:
                tr = track_result(body, c.dest[0], +1)
                cedges |= tr.success_edges or {(c.bb, c.target)}
            # after an insert succeeded, Ok is reachable only through a commit
            for c in ins:
                tr = track_result(body, c.dest[0], +1)
                if success_reachable(body, cedges, 'ok', starts=[b for _, b in tr.success_edges]):
                    problems.append('Ok reachable after an insert without commit')
        if problems:
            R.violation('d', 'R2', 'store_blocks_and_transactions: begin < insert chunk < commit for every chunk', 'store:chunk-atomic', '; '.join(sorted(set(problems))), s.loc())
        else:
            R.ok('d', 'R2', 'store_blocks_and_transactions: begin < insert chunk < commit for every chunk', '', s.loc())

    # ---- (e)
    table = [
        (Q + 'cardano_block::delete_cardano_block_and_transactions::DeleteCardanoBlockAndTransactionQuery::above_block_number_threshold', {'>'}, 'blocks strictly above the threshold'),
        (Q + 'block_range_root::delete_block_range_root::DeleteBlockRangeRootQuery::contains_or_above_block_number_threshold', {'>='}, 'range roots whose start is at or above the threshold\'s range start'),
        (Q + 'block_range_root_legacy::delete_block_range_root::DeleteLegacyBlockRangeRootQuery::contains_or_above_block_number_threshold', {'>='}, 'legacy range roots whose start is at or above the threshold\'s range start'),
    ]
    for fn, ops, what in table:
        qf = ctx.try_fn('e', fn)
        if qf is None:
            continue
        conds = ctx.sql_conditions(qf)
        parsed = [parse_sql_comparison(t) for t, _ in conds]
        simple = [p for p in parsed if p is not None]
        inst = '%s: %s' % (fn_short(fn), what)
        if simple and all(p[1] in ops for p in simple):
            R.ok('e', 'R6', inst, 'conditions %s' % [t for t, _ in conds], qf.loc())
        elif not simple:
            R.info('e', '%s: condition %s is not a single comparison (not decided)' % (fn_short(fn), [t for t, _ in conds]))
        else:
            R.violation('e', 'R6', inst, 'sql:%s' % fn_short(fn), 'conditions %s parse to %s' % ([t for t, _ in conds], parsed), qf.loc())
        if 'contains_or_above' in fn:
            # the threshold handed to SQL is the start of the block range containing the block number
            ok = any(glob_match('*BlockRange::from_block_number', n) for c in qf.body.calls() for n in c.names())
            if ok:
                R.ok('e', 'R5', '%s: threshold = start of the range containing the block number' % fn_short(fn), '', qf.loc())
            else:
                R.violation('e', 'R5', '%s: threshold = start of the range containing the block number' % fn_short(fn), 'sql:range-start:%s' % fn_short(fn), '', qf.loc())


# ---------------------------------------------------------------- added after seeds C13-1 / C13-2

CB = 'mithril_persistence::sqlite::connection_builder::'
CO = CB + 'ConnectionOptions'
STREAMER = 'mithril_cardano_node_chain::chain_scanner::chain_reader_block_streamer::'


def _fk_rules(ctx):
    """(f) the transactions of a rolled-back block are removed by the ON DELETE CASCADE of the block delete (the roll-back issues
    no delete on cardano_tx): every connection of the cardano_tx stores must therefore enforce foreign keys."""
    import re
    R = ctx.report
    ws = ctx.ws
    R.clause('f', 'connections of the chain-data stores enforce foreign keys (the block delete cascades to the transactions)')
    # f0: the premise - the roll-back really has no transaction delete of its own
    f = ctx.try_fn('f', RB)
    if f is not None:
        own = [c.best() for g in f.logic().family() for c in g.body.calls()
               if any(glob_match(Q + 'cardano_transaction::delete*', n) or glob_match(Q + '*::DeleteCardanoTransaction*', n) for n in c.names())]
        if own:
            R.info('f', 'the roll-back deletes transactions explicitly (%s): the cascade is no longer the only mechanism' % own[:2])
    # f1: who opens connections
    openers = sorted({x.root().name for x, _ in ws.callers_of(['sqlite::connection::Connection::open*', 'sqlite::open*']) if x.unit.tag == 'lib'})
    allow = [(CB + 'ConnectionBuilder::build_without_migrations', 'the one connection factory'),
             ('mithril_signer::store::mktree_store_sqlite::MKTreeStoreSqlite::create_connection', 'scratch Merkle-tree store, no chain data')]
    off = [o for o in openers if not any(glob_match(a, o) for a, _ in allow)]
    inst = 'SQLite connections are opened only by ConnectionBuilder::build_without_migrations'
    if off or (CB + 'ConnectionBuilder::build_without_migrations') not in openers:
        R.violation('f', 'R3', inst, 'sqlite:openers', 'connections opened by %s' % (off or openers), None)
    else:
        R.ok('f', 'R3', inst, '%d opener(s)' % len(openers))
    # f2: flag => pragma, on every success path of the factory
    b = ctx.try_fn('f', CB + 'ConnectionBuilder::build_without_migrations')
    if b is not None:
        body = b.body
        guards, execs = [], []
        for c in body.calls():
            if any(n.endswith('::contains') for n in c.names()) and len(c.args) == 2 and \
                    has(fn_origins(b, c.args[1], True), 'adt:' + CO + '::EnableForeignKeys') and has(fn_origins(b, c.args[0], True), 'pty:ConnectionBuilder.options'):
                guards.append(c)
            if any(glob_match('sqlite::connection::Connection::execute', n) or glob_match('sqlite::*::execute', n) for n in c.names()) and len(c.args) == 2:
                txt = None
                if c.args[1][0] == 'const':
                    txt = c.args[1][1]
                else:
                    cs = [o[6:] for o in fn_origins(b, c.args[1], 'adapters') if o.startswith('const:')]
                    txt = cs[0] if cs else None
                if txt and re.search(r'pragma\s+foreign_keys\s*=\s*(true|on|1|yes)\b', txt, re.I):
                    execs.append(c)
        inst = 'build_without_migrations: EnableForeignKeys set => `pragma foreign_keys=<on>` executed successfully before any connection is returned'
        if not guards or not execs:
            R.violation('f', 'R1', inst, 'connection:fk-pragma', 'EnableForeignKeys tests: %d, foreign_keys pragma executions: %d - pool connections '
                        '(built without migrations) would run with foreign keys off: the block delete no longer cascades, orphan transactions make '
                        '`insert or ignore` drop re-included transactions' % (len(guards), len(execs)), b.loc())
        else:
            removed = set()
            for g in guards:
                removed |= track_result(body, g.dest[0], -1).success_edges     # the flag is NOT set
            for e in execs:
                removed |= track_result(body, e.dest[0], +1).success_edges     # pragma executed OK
            if success_reachable(body, removed):
                R.violation('f', 'R1', inst, 'connection:fk-pragma', 'a connection can be returned with the option set and the pragma not executed (or its error dropped)', b.loc())
            else:
                R.ok('f', 'R1', inst, '', b.loc())
    # f3: the chain-data stores ask for the option
    for fn, who in (('mithril_signer::dependency_injection::builder::DependenciesBuilder::build_cardano_tx_sqlite_connection_pool', 'signer'),
                    ('mithril_aggregator::dependency_injection::builder::DependenciesBuilder::setup_connection_builder', 'aggregator')):
        g = ctx.try_fn('f', fn)
        if g is None:
            continue
        got = any(a == CO and v == 1 for h in g.logic().family() for (a, v) in h.aggs) or any(a == CO and v == 1 for (a, v) in g.aggs)
        # variant index -> name, from the ADT
        try:
            adt = ws.adt(CO)
            names = [v['n'] for v in adt['variants']]
            idx = names.index('EnableForeignKeys')
            got = any(a == CO and v == idx for h in [g] + list(g.logic().family()) for (a, v) in h.aggs)
        except Exception as e:  # noqa
            R.missing('f', e)
            continue
        inst = '%s: the cardano_tx connection builder is given ConnectionOptions::EnableForeignKeys' % who
        if got:
            R.ok('f', 'R5', inst, '', g.loc())
        else:
            R.violation('f', 'R5', inst, 'connection:fk-option:%s' % who, 'option not constructed in %s' % fn_short(fn), g.loc())
    # f4: nobody force-disables them in a node
    try:
        adt = ws.adt(CO)
        idx = [v['n'] for v in adt['variants']].index('ForceDisableForeignKeys')
        users = sorted({h.root().name for h in ws.fns if h.unit.tag in ('lib', 'bin') and any(a == CO and v == idx for (a, v) in h.aggs)
                        and not h.root().name.startswith('<' + CO) and not h.root().name.startswith(CB)})
        inst = 'ForceDisableForeignKeys is requested by no node code path'
        if users:
            R.violation('f', 'R3', inst, 'connection:fk-force-disable', str(users[:4]), None)
        else:
            R.ok('f', 'R3', inst, '')
    except Exception as e:  # noqa
        R.missing('f', e)


def _streamer_rules(ctx):
    """(g) the chain reader streamer forwards every roll-back except the protocol's initial roll-back to the intersection point.
    Stated on paths, not on how the streamer names its intermediate values: from the point where a RollBackward event of the chain
    reader is taken apart, the streamer can move on (return, or ask the reader for the next event) WITHOUT having forwarded the
    roll-back (put its point into a value it hands on, or truncated its buffer) only on paths where (i) the roll-back slot equals the
    slot the scan started from and (ii) a piece of streamer state written while polling says nothing was delivered yet."""
    from engine import find_guards
    R = ctx.report
    ws = ctx.ws
    R.clause('g', 'the block streamer drops no roll-back other than the initial one to the intersection point')
    SELF = STREAMER + 'ChainReaderBlockStreamer'
    PN = '<' + SELF + ' as mithril_cardano_node_chain::chain_scanner::interface::BlockStreamer>::poll_next'
    pn = ctx.try_fn('g', PN)
    if pn is None:
        return
    NEXT = ['*::ChainBlockReader::get_next_chain_block']
    written = set()
    for h in ws.fns:
        if h.root().name.startswith('<' + SELF + ' as ') or h.root().name.startswith(SELF + '::'):
            for fw in h.fwrites:
                if fw[0] == SELF:
                    written.add(fw[1])
    inst = 'a RollBackward is skipped only when its slot equals the slot the scan started from'
    inst2 = 'the skip is also gated by streamer state written while polling (only the opening roll-back, before any block was delivered)'
    examined = 0
    verdict_eq = verdict_state = True
    detail = []
    for raw in ctx.closure_fns(PN, depth=3):
        if not (raw.name.startswith('<' + SELF + ' as ') or raw.name.startswith(SELF + '::')):
            continue
        v = ctx.view(raw)
        for g in v.family():
            body = g.body
            # where a RollBackward event is taken apart, and the locals holding its payload
            rb_blocks, payload = set(), set()
            for bi, blk in enumerate(body.blocks):
                if blk.cleanup:
                    continue
                for (_l, pl, rv) in blk.stmts:
                    for (l_, place_) in rvalue_reads(rv):
                        if any(isinstance(pe, tuple) and pe[0] == 'd' and pe[2] == 'RollBackward' for pe in place_[1]) and \
                                'ChainBlockNextAction' in body.lty(l_):
                            rb_blocks.add(bi)
                            if not pl[1]:
                                payload.add(pl[0])
            if not rb_blocks:
                continue
            gs_eq = [x for x in find_guards(body) if x.op in ('Eq', 'Ne') and
                     ((has(x.a_orig, '*from.slot_number*') and not has(x.b_orig, '*from.slot_number*')) or
                      (has(x.b_orig, '*from.slot_number*') and not has(x.a_orig, '*from.slot_number*')))]
            ord_from = [x for x in find_guards(body) if x.op in ('Lt', 'Le', 'Gt', 'Ge') and has(x.a_orig | x.b_orig, '*from.slot_number*')]
            pay = flows_forward_(body, payload)
            fwd = set()
            for bi, blk in enumerate(body.blocks):
                if blk.cleanup:
                    continue
                for (_l, pl, rv) in blk.stmts:
                    if rv[0] == 'agg' and rv[1] == 'adt' and any(o[0] in ('copy', 'move') and o[1][0] in pay for o in rv[5]) and \
                            not (rv[2] or '').startswith('std::'):
                        fwd.add(bi)
                if blk.term[0] == 'call' and any(n.endswith('::truncate') for n in blk.term[1].names()):
                    fwd.add(bi)
            nxt = {c.bb for c in body.calls() if any(glob_match(NEXT[0], n) for n in c.names())}
            for h2 in ctx.closure_fns(raw, depth=2):
                if h2 is not raw and ctx.closure_sites(h2, NEXT, depth=2):
                    nxt |= {c.bb for c in body.calls() if h2.name in c.names()}
            exits = nxt | {bi for bi, blk in enumerate(body.blocks) if blk.term[0] == 'ret' and not blk.cleanup}
            starts = sorted(rb_blocks)

            def moves_on(removed):
                r = body.reach(starts, removed=removed, stop=fwd | (nxt - rb_blocks))
                return sorted((r & exits) - rb_blocks)
            if not moves_on(set()):
                examined += 1
                detail.append('%s: no roll-back is ever skipped' % fn_short(raw.name))
                continue
            examined += 1
            eq_edges = set()
            for x in gs_eq:
                eq_edges |= (x.true_edges if x.op == 'Eq' else x.false_edges)
            if ord_from and not gs_eq:
                verdict_eq = False
                detail.append('%s: the skip is decided by an ordering comparison with the start slot (%s)' % (fn_short(raw.name), [x.op for x in ord_from]))
            elif not eq_edges or moves_on(eq_edges):
                verdict_eq = False
                detail.append('%s: the streamer moves on without forwarding the roll-back although its slot differs from the start slot' % fn_short(raw.name))
            gated = False
            for bi, blk in enumerate(body.blocks):
                if blk.cleanup or blk.term[0] != 'sw' or blk.term[1][0] not in ('copy', 'move'):
                    continue
                og = fn_origins(g, blk.term[1], True)
                if any(has(og, 'pty:ChainReaderBlockStreamer.%s*' % w) for w in written):
                    for succ in body.succ(bi):
                        if not moves_on({(bi, succ)}):
                            gated = True
            if not gated:
                verdict_state = False
                detail.append('%s: the skip depends on no streamer state (fields written while polling: %s)' % (fn_short(raw.name), sorted(written)))
    if not examined:
        R.missing('g', 'no code taking a ChainBlockNextAction::RollBackward apart was found under ChainReaderBlockStreamer::poll_next')
        return
    if verdict_eq:
        R.ok('g', 'R6', inst, '; '.join(detail)[:200], pn.loc())
    else:
        R.violation('g', 'R6', inst, 'streamer:skip-rollback', '; '.join(detail)[:600] + ': a real roll-back older than the resume point never reaches the '
                    'store, the abandoned fork stays and `insert or ignore` drops the canonical blocks with the same numbers', pn.loc())
    if verdict_state:
        R.ok('g', 'R6', inst2, 'state fields: %s' % sorted(written), pn.loc())
    else:
        R.violation('g', 'R6', inst2, 'streamer:skip-stateless', '; '.join(detail)[:600] + ': after blocks were streamed, a fork whose fork point is exactly the start '
                    'point is never rolled back in the store', pn.loc())


def flows_forward_(body, starts):
    from engine import flows_forward
    return flows_forward(body, set(starts), True, mut_refs_only=True) if starts else set()


from engine import CMP_REL as CMP_REL_, ALL3 as ALL3_  # noqa: E402

_run_base = run


def run(ctx):  # noqa: F811
    _run_base(ctx)
    _fk_rules(ctx)
    _streamer_rules(ctx)
