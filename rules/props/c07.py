"""C07 - signer registration (DESIGN.md section 4, C07)."""
from core import glob_match
from engine import Sink, fn_origins, find_guards, track_result, success_reachable, return_assigns, CMP_REL, ALL3
from props.common import Ctx, fn_short  # noqa: F401

EXPLANATION = (
    'Static rules: (a) R1 - KeyRegWrapper::register succeeds only after KES verification (which itself requires '
    'OpCert::validate Ok - cold-key signature - and a Sum6Kes verify Ok inside the +-1 window), proof-of-possession '
    'verification (both halves), not-already-registered, and presence of the pool in the stake distribution; the '
    'missing-opcert branch is a failure in this build (cfg! folded); (b) R5 - the KES signature is checked over this '
    'verification key with this certificate\'s KES key; (c) R5 - party id derives from the cold key (never from the '
    'claimed id), stake derives from the stake distribution looked up by that id (never from the request), also in the '
    'aggregator verifier; (d) R13 - the evolution window constants are 1; (e) leader: stored only after verify Ok in the '
    'open round of the announced epoch. Does not decide KES/Ed25519/BLS soundness nor KES period arithmetic.')

ASSUMPTIONS = ['kes-summed-ed25519, ed25519-dalek, blst are sound (trusted)']

REG = 'mithril_common::crypto_helper::cardano::key_certification::KeyRegWrapper::register'
KESV = '<mithril_common::crypto_helper::cardano::kes::verifier_standard::KesVerifierStandard as mithril_common::crypto_helper::cardano::kes::interface::KesVerifier>::verify'
OPV = 'mithril_common::crypto_helper::cardano::opcert::OpCert::validate'
POP = 'mithril_stm::*::BlsVerificationKeyProofOfPossession::verify_proof_of_possession'
ENTRY_NEW = 'mithril_stm::*::RegistrationEntry::new'
STM_REG = 'mithril_stm::*::KeyRegistration::register'
STM_REG_ENTRY = 'mithril_stm::*::KeyRegistration::register_by_entry'
AGGV = '<mithril_aggregator::services::signer_registration::verifier::MithrilSignerRegistrationVerifier as mithril_aggregator::services::signer_registration::api::SignerRegistrationVerifier>::verify'
LEADER = '<mithril_aggregator::services::signer_registration::leader::MithrilSignerRegistrationLeader as mithril_aggregator::services::signer_registration::api::SignerRegisterer>::register_signer'


def has(og, pat):
    # a field path under the named origin also counts (getters spliced by the inliner make origins more precise)
    return any(glob_match(pat, o) or (pat[-1] != '*' and glob_match(pat + '.*', o)) for o in og)


def run(ctx):
    R = ctx.report
    ws = ctx.ws
    R.clause('a', 'register succeeds only after KES verification, PoP verification, not-already-registered, pool in the distribution')
    R.clause('b', 'the KES signature is checked over this verification key with this certificate\'s KES key')
    R.clause('c', 'party id comes from the cold key, stake from the stake distribution')
    R.clause('d', 'the KES evolution window is +-1')
    R.clause('e', 'leader: a signer is stored only after verify Ok in the open round of the announced epoch')

    # ---- (a)
    kes_trait = ['*::KesVerifier::verify', KESV]
    ctx.r1('a', REG, Sink('KesVerifier::verify', kes_trait, 'ok'))
    ctx.r1('a', REG, Sink('KeyRegistration::register', STM_REG, 'ok'))
    ctx.r1('a', STM_REG, Sink('RegistrationEntry::new', ENTRY_NEW, 'ok'))
    ctx.r1('a', STM_REG, Sink('register_by_entry', STM_REG_ENTRY, 'ok'))
    ctx.r1('a', ENTRY_NEW, Sink('verify_proof_of_possession', POP, 'ok'))
    ctx.r1('a', KESV, Sink('OpCert::validate', OPV, 'ok'))
    sum6 = ['kes_summed_ed25519::*::verify', '<kes_summed_ed25519::* as kes_summed_ed25519::traits::KesSig>::verify', 'kes_summed_ed25519::traits::KesSig::verify']
    kv = ctx.try_fn('a', KESV)
    if kv is not None:
        body = kv.body
        vs = [c for c in body.calls() if any(glob_match(p, n) for p in sum6 for n in c.names())]
        inst = 'KesVerifierStandard::verify: Ok only after a Sum6Kes signature verification succeeded'
        if not vs:
            R.violation('a', 'R1', inst, 'kes:verify-gates', 'no KES signature verification call', kv.loc())
        else:
            rem = set()
            for c in vs:
                rem |= track_result(body, c.dest[0], +1).success_edges
            if success_reachable(body, rem, 'ok') or not rem:
                R.violation('a', 'R1', inst, 'kes:verify-gates', 'Ok reachable without a successful KES verify', kv.loc())
            else:
                R.ok('a', 'R1', inst, '', kv.loc())
            for c in vs:
                o_key = fn_origins(kv, c.args[2], True)
                o_msg = fn_origins(kv, c.args[3], True)
                if has(o_key, 'call:*OpCert::get_kes_verification_key') and has(o_key, 'p#4') and has(o_msg, 'p#2'):
                    R.ok('b', 'R5', 'KesVerifierStandard::verify: key <- operational_certificate.get_kes_verification_key(), message <- message', '', kv.loc())
                else:
                    R.violation('b', 'R5', 'KesVerifierStandard::verify: key <- operational_certificate.get_kes_verification_key(), message <- message',
                                'kes:key+msg-origin', 'key %s msg %s' % (sorted(o_key)[:5], sorted(o_msg)[:5]), kv.loc())
            # (d) window constants
            consts = []
            for c in body.calls():
                if any(glob_match('*::saturating_sub', n) or glob_match('*::saturating_add', n) for n in c.names()):
                    for a in c.args[1:]:
                        og = fn_origins(kv, a, True)
                        consts.append((c.best().rsplit('::', 1)[-1], sorted(og)))
            ok = len(consts) >= 2 and all(any(o.startswith('const:1') or 'KesEvolutions(1' in o or o == 'const:1_u64' for o in og) or
                                          any(glob_match('adt:*KesEvolutions*', o) for o in og) for _, og in consts)
            one = all(_is_one(kv, c) for c in body.calls() if any(glob_match('*::saturating_sub', n) or glob_match('*::saturating_add', n) for n in c.names()))
            if consts and one:
                R.ok('d', 'R13', 'KesVerifierStandard::verify: saturating_sub / saturating_add by the constant 1', str(consts)[:120], kv.loc())
            else:
                R.violation('d', 'R13', 'KesVerifierStandard::verify: saturating_sub / saturating_add by the constant 1', 'kes:window',
                            'window operands: %s' % consts, kv.loc())
        # the window is clamped to the last period of the KES scheme (F13: the clamp was 64 for a Sum6 key whose last evolution is 63;
        # the KES library verifies an out-of-range period as the last one, so announcing 65 accepted a signature made at 63)
        import re as _re
        depth = None
        for (ty, nm) in body.locals:
            m = _re.search(r'Sum(\d+)Kes', ty)
            if m:
                depth = int(m.group(1))
                break
        clamps = []
        for c in body.calls():
            if any(glob_match('std::cmp::min', n) or glob_match('*::Ord>::min', n) or glob_match('std::cmp::Ord::min', n) or glob_match('*::clamp', n) for n in c.names()):
                for a in c.args:
                    v = body.const_of(a)
                    if isinstance(v, int):
                        clamps.append(v)
        inclusive = any(glob_match('*RangeInclusive*::new', n) for c in body.calls() for n in c.names())
        inst = 'KesVerifierStandard::verify: the tried evolutions are clamped to the last period of the KES scheme'
        if depth is None:
            R.missing('d', 'no Sum<N>Kes type in KesVerifierStandard::verify')
        else:
            last = 2 ** depth - 1
            lim = last if inclusive else last + 1
            if clamps and max(clamps) <= lim:
                R.ok('d', 'R13', inst, 'Sum%d: last evolution %d, clamp %s (%s range)' % (depth, last, clamps, 'inclusive' if inclusive else 'exclusive'), kv.loc())
            else:
                R.violation('d', 'R13', inst, 'kes:last-period', 'Sum%d has evolutions 0..=%d; upper clamp constants found: %s (%s range): an evolution above the last one is '
                            'verified by the KES library as the last one, widening the +-1 window at the upper bound' % (depth, last, clamps, 'inclusive' if inclusive else 'exclusive'), kv.loc())
    # OpCert::validate: Ok only after the cold key verified the certificate body
    ov = ctx.try_fn('a', OPV)
    if ov is not None:
        body = ov.body
        vs = [c for c in body.calls() if c.best().rsplit('::', 1)[-1] == 'verify']
        rem = set()
        from engine import gating_edges
        for c in vs:
            rem |= gating_edges(body, c.dest[0], +1, 'ok')[0]
        if vs and rem and not success_reachable(body, rem, 'ok'):
            R.ok('a', 'R1', 'OpCert::validate: Ok only after the cold key signature verified', '', ov.loc())
        else:
            R.violation('a', 'R1', 'OpCert::validate: Ok only after the cold key signature verified', 'opcert:validate', 'Ok reachable without verify', ov.loc())
        for c in vs:
            o0 = fn_origins(ov, c.args[0], True)
            o1 = fn_origins(ov, c.args[1], True)
            o2 = fn_origins(ov, c.args[2], True) if len(c.args) > 2 else set()
            if has(o0, 'pty:OpCert.cold_vk') and has(o1, 'call:*OpCert::compute_message_to_sign') and has(o1, 'pty:OpCert.opcert_without_vk.kes_vk') \
                    and has(o2, 'pty:OpCert.opcert_without_vk.cert_sig'):
                R.ok('a', 'R5', 'OpCert::validate: cold_vk.verify(message(kes_vk, issue_number, start_kes_period), cert_sig)', '', ov.loc())
            else:
                R.violation('a', 'R5', 'OpCert::validate: cold_vk.verify(message(kes_vk, issue_number, start_kes_period), cert_sig)',
                            'opcert:validate-args', 'key %s msg %s sig %s' % (sorted(o0)[:3], sorted(o1)[:4], sorted(o2)[:3]), ov.loc())
    # proof of possession: both halves
    pf = ctx.try_fn('a', POP)
    if pf is not None:
        ctx.r1('a', POP, Sink('verify_pairing (k2 half)', 'mithril_stm::*::verify_pairing', 'ok'), success='ok')
        ctx.guard_gate('a', pf, 'k1.verify(..) == BLST_SUCCESS',
                       lambda g: g.op in ('Eq', 'Ne') and (has(g.a_orig | g.b_orig, 'adt:blst::BLST_ERROR::BLST_SUCCESS') or has(g.a_orig | g.b_orig, 'const:*BLST_SUCCESS*'))
                       and has(g.a_orig | g.b_orig, 'call:blst::*::verify'), {'eq'}, key='pop:k1')
    # not already registered
    re_ = ctx.try_fn('a', STM_REG_ENTRY)
    if re_ is not None:
        body = re_.body
        cs = [c for c in body.calls() if any(glob_match('std::collections::hash::set::HashSet::contains', n) or glob_match('std::collections::btree::set::BTreeSet::contains', n)
                                             for n in c.names())]
        rem = set()
        for c in cs:
            rem |= track_result(body, c.dest[0], -1).success_edges
        if cs and rem and not success_reachable(body, rem, 'ok'):
            R.ok('a', 'R1', 'register_by_entry: Ok only if the key was not already registered', '', re_.loc())
        else:
            R.violation('a', 'R1', 'register_by_entry: Ok only if the key was not already registered', 'register_by_entry:duplicate',
                        'Ok reachable when contains(key) is true', re_.loc())
    # pool present in the distribution
    rf = ctx.try_fn('a', REG)
    if rf is not None:
        body = rf.body
        gets = [c for c in body.calls() if c.best().rsplit('::', 1)[-1] == 'get' and has(fn_origins(rf, c.args[0], True), 'pty:KeyRegWrapper.stake_distribution')]
        rem = set()
        for c in gets:
            rem |= track_result(body, c.dest[0], +1).success_edges
        if gets and rem and not success_reachable(body, rem, 'ok'):
            R.ok('a', 'R1', 'KeyRegWrapper::register: Ok only if stake_distribution.get(id) is Some', '', rf.loc())
        else:
            R.violation('a', 'R1', 'KeyRegWrapper::register: Ok only if stake_distribution.get(id) is Some', 'register:pool-present',
                        'Ok reachable without a hit in the stake distribution', rf.loc())
        # (c)
        for c in gets:
            og = fn_origins(rf, c.args[1], True)
            inst = 'KeyRegWrapper::register: stake lookup key <- opcert.compute_protocol_party_id(), never the claimed party_id'
            if has(og, 'call:*OpCert::compute_protocol_party_id') and not has(og, 'pty:SignerRegistrationParameters.party_id*'):
                R.ok('c', 'R5', inst, '', rf.loc())
            else:
                R.violation('c', 'R5', inst, 'register:id-origin', 'lookup key origins: %s' % sorted(o for o in og if o.startswith(('pty', 'call:mithril')))[:6], rf.loc())
        ctx.arg_origin('c', REG, STM_REG, 1, require=['pty:KeyRegWrapper.stake_distribution'], forbid=['pty:SignerRegistrationParameters.party_id*'],
                       desc='(stake) <- self.stake_distribution[id]')
        ctx.arg_origin('c', REG, STM_REG, 2, require=['pty:SignerRegistrationParameters.verification_key_for_concatenation'],
                       desc='(vk+pop) <- parameters.verification_key_for_concatenation')
        # returned id
        from engine import ok_payload
        okid = False
        for sp in return_assigns(body, 'ok')[0]:
            x = ok_payload(body, sp)
            if x is not None:
                og = fn_origins(rf, x, True)
                okid = has(og, 'call:*OpCert::compute_protocol_party_id') and not has(og, 'pty:SignerRegistrationParameters.party_id*')
        if okid:
            R.ok('c', 'R5', 'KeyRegWrapper::register: returned party id <- cold key hash', '', rf.loc())
        else:
            R.violation('c', 'R5', 'KeyRegWrapper::register: returned party id <- cold key hash', 'register:returned-id', 'returned id may derive from the claimed party id', rf.loc())
        # (b) what is signed / with which certificate: every KES verification anywhere under `register` (whatever private helper it
        # sits in) gets this registration's key as the message, its signature, its operational certificate and the announced evolutions
        P = 'pty:SignerRegistrationParameters.'
        for i, (req, what) in enumerate(((P + 'verification_key_for_concatenation', 'message <- this verification key'),
                                         (P + 'verification_key_signature_for_concatenation', 'signature <- this key\'s KES signature'),
                                         (P + 'operational_certificate*', 'certificate <- this operational certificate'),
                                         (P + 'kes_evolutions', 'evolutions <- the announced evolutions')), start=1):
            ctx.sink_arg('b', REG, kes_trait, i, require=[req], desc='(%s)' % what, key='register:kes-args:%d' % i)
        ctx.r1('b', REG, Sink('KesVerifier::verify', kes_trait, 'ok'), label='the KES check gates registration')
        # the party id is computed from the same opcert that was KES-checked
        cp = [c for c in body.calls() if any(glob_match('*OpCert::compute_protocol_party_id', n) for n in c.names())]
        if cp and all(has(fn_origins(rf, c.args[0], True), 'pty:SignerRegistrationParameters.operational_certificate*') for c in cp):
            R.ok('c', 'R5', 'KeyRegWrapper::register: party id computed from parameters.operational_certificate', '', rf.loc())
        else:
            R.violation('c', 'R5', 'KeyRegWrapper::register: party id computed from parameters.operational_certificate', 'register:id-cert', '', rf.loc())
        # missing opcert is a failure in this build
        ctx.arg_origin('c', 'mithril_common::crypto_helper::cardano::opcert::OpCert::compute_protocol_party_id', '*::compute_protocol_party_id_as_hash*', 0,
                       require=['p#1'], desc='<- self', min_sites=0) if False else None

    # aggregator verifier
    av = ctx.try_fn('c', AGGV)
    if av is not None:
        lav = av.logic()
        ctx.r1('c', AGGV, Sink('KeyRegWrapper::register', REG, 'ok'))
        body = lav.body
        for b in body.blocks:
            for (_, pl, rv) in b.stmts:
                if rv[0] == 'agg' and rv[2] and rv[2].endswith('::SignerWithStake'):
                    adt = ws.adt(rv[2])
                    names = [fd['n'] for fd in adt['variants'][0]['fields']]
                    o_id = fn_origins(lav, rv[5][names.index('party_id')], True)
                    o_st = fn_origins(lav, rv[5][names.index('stake')], True)
                    gets = [c for c in body.calls() if c.best().rsplit('::', 1)[-1] == 'get' and has(fn_origins(lav, c.args[0], True), 'p#3')]
                    key_ok = bool(gets) and all(has(fn_origins(lav, c.args[1], 'adapters'), 'call:' + REG) and
                                                not has(fn_origins(lav, c.args[1], 'adapters'), 'pty:Signer.party_id*') for c in gets)
                    ok = has(o_id, 'call:' + REG) and has(o_st, 'p#3') and key_ok
                    inst = 'MithrilSignerRegistrationVerifier::verify: party id <- registered id; stake <- stake_distribution[registered id]'
                    if ok:
                        R.ok('c', 'R5', inst, '', av.loc())
                    else:
                        R.violation('c', 'R5', inst, 'agg_verifier:id+stake', 'id %s stake %s' % (
                            sorted(o for o in o_id if o.startswith(('call:mithril', 'p#')))[:4], sorted(o for o in o_st if o.startswith(('call:mithril', 'p#')))[:4]), av.loc())
        # ... and such a construction must exist: a verified signer that is not rebuilt with the registered id keeps the CLAIMED one
        # (seed C07-5: `SignerWithStake::from_signer(signer, stake)` alone - the instance above was vacuous)
        rebuilt = False
        for g in lav.family():
            for b in g.body.blocks:
                if b.cleanup:
                    continue
                for (_, pl, rv) in b.stmts:
                    if rv[0] == 'agg' and rv[2] and rv[2].endswith('::SignerWithStake'):
                        adt = ws.adt(rv[2])
                        names = [fd['n'] for fd in adt['variants'][0]['fields']]
                        if has(fn_origins(g, rv[5][names.index('party_id')], True), 'call:' + REG):
                            rebuilt = True
                    # field form: `signer_with_stake.party_id = registered id`
                    if pl[1] and any(isinstance(pe, tuple) and pe[0] == 'f' and pe[2] == 'party_id' and pe[3] and pe[3].endswith('::SignerWithStake') for pe in pl[1]):
                        if rv[0] == 'use' and has(fn_origins(g, rv[1], True), 'call:' + REG):
                            rebuilt = True
        inst2 = 'MithrilSignerRegistrationVerifier::verify: the verified signer is rebuilt with the party id returned by the registration'
        if rebuilt:
            R.ok('c', 'R5', inst2, '', av.loc())
        else:
            R.violation('c', 'R5', inst2, 'agg_verifier:id-rebuilt', 'no SignerWithStake is given the registered (cold-key derived) party id: the stored signer keeps the id claimed in the message', av.loc())

    # ---- (e)
    ctx.r1('e', LEADER, Sink('SignerRegistrationVerifier::verify', ['*::SignerRegistrationVerifier::verify'], 'ok'))
    lf = ctx.try_fn('e', LEADER)
    if lf is not None:
        ll = lf.logic()
        body = ll.body
        ver = [c for c in body.calls() if any(glob_match('*::SignerRegistrationVerifier::verify', n) for n in c.names())]
        sav = [c for c in body.calls() if any(glob_match('*::VerificationKeyStorer::save_verification_key', n) for n in c.names())]
        vsink = ctx.mpt.enforces(lf, Sink('SignerRegistrationVerifier::verify', ['*::SignerRegistrationVerifier::verify'], 'ok'))
        edges = set()
        for s in vsink.sites:
            edges |= {tuple(e) for e in s.get('success_edges', [])}
        reach = body.reach([0], removed=edges)
        if sav and edges and not [c for c in sav if c.bb in reach]:
            R.ok('e', 'R2', 'register_signer: verify Ok precedes save_verification_key', '', lf.loc())
        else:
            R.violation('e', 'R2', 'register_signer: verify Ok precedes save_verification_key', 'leader:verify<save', 'save reachable without a successful verify', lf.loc())
        # stored value = verified value; epoch = the round's
        for c in sav:
            o_s = fn_origins(ll, c.args[2], True)
            o_e = fn_origins(ll, c.args[1], True)
            if has(o_s, 'call:*::SignerRegistrationVerifier::verify') and has(o_e, 'pty:MithrilSignerRegistrationLeader.current_round*'):
                R.ok('e', 'R5', 'register_signer: stored signer <- verifier result; epoch <- current round', '', lf.loc())
            else:
                R.violation('e', 'R5', 'register_signer: stored signer <- verifier result; epoch <- current round', 'leader:stored-origin',
                            'signer %s epoch %s' % (sorted(o for o in o_s if o.startswith('call:mithril'))[:3], sorted(o for o in o_e if o.startswith('pty'))[:3]), lf.loc())
        for c in ver:
            o_d = fn_origins(ll, c.args[2], True)
            if has(o_d, 'pty:MithrilSignerRegistrationLeader.current_round*'):
                R.ok('e', 'R5', 'register_signer: verification uses the round\'s stake distribution', '', lf.loc())
            else:
                R.violation('e', 'R5', 'register_signer: verification uses the round\'s stake distribution', 'leader:distribution-origin', str(sorted(o_d)[:5]), lf.loc())
        # round must be open and of the announced epoch
        ctx.guard_gate('e', lf, 'round.epoch == announced epoch',
                       lambda g: g.op in ('Ne', 'Eq') and has(g.a_orig | g.b_orig, 'p#2') and has(g.a_orig | g.b_orig, 'pty:MithrilSignerRegistrationLeader.current_round*'),
                       {'eq'}, key='leader:round-epoch')
        opn = [c for c in body.calls() if any(glob_match('std::option::Option::ok_or', n) or glob_match('std::option::Option::ok_or_else', n) for n in c.names())
               and has(fn_origins(ll, c.args[0], True), 'pty:MithrilSignerRegistrationLeader.current_round*')]
        rem = set()
        for c in opn:
            rem |= track_result(body, c.dest[0], +1).success_edges
        if opn and rem and not success_reachable(body, rem, 'ok'):
            R.ok('e', 'R1', 'register_signer: fails when no round is open', '', lf.loc())
        else:
            R.violation('e', 'R1', 'register_signer: fails when no round is open', 'leader:round-open', '', lf.loc())


def _is_one(fn, c):
    body = fn.body
    for a in c.args[1:]:
        if body.const_of(a) == 1:
            return True
        og = fn_origins(fn, a, True)
        if any(o.startswith('const:1') for o in og):
            return True
        # newtype wrapper around the literal: KesEvolutions(1)
        if a[0] in ('copy', 'move'):
            for (bi, si, pl, rv) in body.defs(a[1][0]):
                if si != 't' and rv[0] == 'agg' and rv[5] and body.const_of(rv[5][0]) == 1:
                    return True
    return False
