"""C17 - beacons (narrow; DESIGN.md section 4, C17)."""
from core import glob_match
from engine import fn_origins
from props.common import Ctx, fn_short  # noqa: F401

EXPLANATION = (
    'Static rules (narrow): (a) the beacon is a pure function of (time point, configuration) - the call closure of '
    'SignedEntityConfig::time_point_to_signed_entity contains no clock, RNG, file, env, global or hash-iteration dependence; '
    '(b) one definition for all nodes - the block-number entity variants are constructed from a chain tip only in that function '
    '(other constructors: deserialisation, database hydration, error-text formatting, test doubles - frozen with reasons); both '
    'signing configs go through the one shared formula; (c) subtraction is saturating (the `-` operators resolve to the wrapper '
    'impls ending in saturating_sub), the divisor derives from max(step, 1), the transaction step from '
    'max(range-start(step), range length), operand roles (tip, security parameter, step); (d) every entity kind is handled (no '
    'unreachable!/todo! arm). Does not decide the arithmetic claims (<= tip-k, monotone, multiples, range boundary).')

ASSUMPTIONS = ['integer arithmetic claims are numerical (not decided)']

C = 'mithril_common::entities::signed_entity_config::'
TP = C + 'SignedEntityConfig::time_point_to_signed_entity'
TXC = C + 'CardanoTransactionsSigningConfig::compute_block_number_to_be_signed'
BTC = C + 'CardanoBlocksTransactionsSigningConfig::compute_block_number_to_be_signed'
SET = 'mithril_common::entities::signed_entity_type::SignedEntityType'

IMPURE = ['std::time::*', 'chrono::*now*', 'rand*::*', 'getrandom::*', 'std::fs::*', 'std::env::*', 'std::net::*', 'std::thread::*', 'tokio::*',
          'std::collections::hash::map::HashMap*::iter*', 'std::collections::hash::map::HashMap*::values*', 'std::collections::hash::set::HashSet*::iter*',
          'std::sync::*', 'std::cell::*']


def has(og, pat):
    # a field path under the named origin also counts (getters spliced by the inliner make origins more precise)
    return any(glob_match(pat, o) or (pat[-1] != '*' and glob_match(pat + '.*', o)) for o in og)


def closure(ws, roots, crates=('mithril_common',)):
    """Workspace call closure (several impls can share one canonical name: keyed by identity)."""
    seen = {}
    ext = set()
    work = list(roots)
    while work:
        g = work.pop()
        if id(g) in seen:
            continue
        seen[id(g)] = g
        for h in g.family():
            for callee, resolved, line in h.calls:
                n = resolved or callee
                if n in ws.by_name:
                    for k in ws.by_name[n]:
                        if k.unit.crate in crates and k.unit.tag == 'lib' and id(k) not in seen:
                            work.append(k)
                else:
                    ext.add(n)
    return seen, ext


MAXP = ('std::cmp::max', '*::Ord>::max', 'std::cmp::Ord::max')
KEEP = ('*::clone', '*::deref', '*::borrow', '*::as_ref', '*::to_owned', '*::from', '*::into', '*::Deref>::deref', '*::Clone>::clone')


def _const_val(ws, body, op):
    """The integer value of a constant operand: a literal, or a named constant the driver evaluated (incl. integer newtypes)."""
    if op[0] == 'const':
        if isinstance(op[3], int):
            return op[3]
        c = ws.consts.get(op[1])
        if c is not None:
            try:
                return int(c['bits'])
            except (KeyError, ValueError):
                return None
        return None
    v = body.const_of(op)
    return v if isinstance(v, int) else None


def _nonzero(ws, f, op, at_bb, depth=0):
    """Is the value of `op` (used in block `at_bb`) different from zero on every path?  Decided structurally: a non-zero constant; a
    newtype built around one; `max(x, c)` with a constant c >= 1; a copy / conversion of such a value; or a value v used only where
    a test of v against 0 has taken its non-zero outcome (`if step == 0 { 1 } else { step }`).  Every definition of a local counts."""
    from engine import find_guards
    body = f.body
    if depth > 8:
        return False
    cv = _const_val(ws, body, op)
    if cv is not None:
        return cv != 0
    if op[0] not in ('copy', 'move'):
        return False
    # a zero test on the same value whose zero outcome cannot reach this use
    og = {o for o in fn_origins(f, op, 'adapters') if o.startswith(('p#', 'pty:'))}
    if og:
        for g in find_guards(body):
            for x, xo, y in ((g.a, g.a_orig, g.b), (g.b, g.b_orig, g.a)):
                yv = _const_val(ws, body, y)
                if yv is None:
                    yo = [o for o in fn_origins(f, y, True)]
                    if len(yo) == 1 and yo[0].startswith('const:'):
                        try:
                            yv = int(yo[0][6:].split('_')[0])
                        except ValueError:
                            yv = None
                if yv is None or {o for o in xo if o.startswith(('p#', 'pty:'))} != og:
                    continue
                swap = x is g.b
                op_ = g.op if not swap else {'Lt': 'Gt', 'Gt': 'Lt', 'Le': 'Ge', 'Ge': 'Le'}.get(g.op, g.op)
                # edges on which the value may be zero
                if yv == 0 and op_ == 'Eq':
                    zero = g.true_edges
                elif yv == 0 and op_ == 'Ne':
                    zero = g.false_edges
                elif (yv == 0 and op_ == 'Gt') or (yv == 1 and op_ == 'Ge'):
                    zero = g.false_edges
                elif (yv == 0 and op_ == 'Le') or (yv == 1 and op_ == 'Lt'):
                    zero = g.true_edges
                else:
                    continue
                nonzero_edges = (g.true_edges | g.false_edges) - zero
                if zero and nonzero_edges and at_bb not in body.reach([0], removed=nonzero_edges):
                    return True
    if op[1][1]:
        return False
    l = op[1][0]
    defs = []
    for bi, b in enumerate(body.blocks):
        if b.cleanup:
            continue
        for (_, pl, rv) in b.stmts:
            if pl[0] == l and not pl[1]:
                defs.append((bi, rv, None))
        t = b.term
        if t[0] == 'call' and t[1].dest[0] == l and not t[1].dest[1]:
            defs.append((bi, None, t[1]))
    if not defs:
        return False
    for bi, rv, call in defs:
        if call is not None:
            if any(glob_match(p_, n) for n in call.names() for p_ in MAXP):
                if not any(_nonzero(ws, f, a, bi, depth + 1) for a in call.args):
                    return False
            elif any(glob_match(p_, n) for n in call.names() for p_ in KEEP) and len(call.args) == 1:
                if not _nonzero(ws, f, call.args[0], bi, depth + 1):
                    return False
            else:
                return False
        elif rv[0] == 'use':
            if not _nonzero(ws, f, rv[1], bi, depth + 1):
                return False
        elif rv[0] == 'agg' and len(rv[5]) == 1:
            if not _nonzero(ws, f, rv[5][0], bi, depth + 1):
                return False
        elif rv[0] == 'ref':
            if not _nonzero(ws, f, ('copy', rv[1]), bi, depth + 1):
                return False
        else:
            return False
    return True


def run(ctx):
    R = ctx.report
    ws = ctx.ws
    R.clause('a', 'the beacon is a pure function of (time point, config)')
    R.clause('b', 'one definition for all nodes')
    R.clause('c', 'subtraction is saturating, division guarded, operand roles')
    R.clause('d', 'every entity kind is handled')

    tp = ctx.try_fn('a', TP)
    if tp is not None:
        seen, ext = closure(ws, [tp])
        bad = sorted(n for n in ext if any(glob_match(p, n) for p in IMPURE))
        if bad:
            R.violation('a', 'R11', 'time_point_to_signed_entity: effect-free call closure', 'beacon:purity', str(bad[:5]), tp.loc())
        else:
            R.ok('a', 'R11', 'time_point_to_signed_entity: effect-free call closure', '%d workspace fns, %d external callees' % (len(seen), len(ext)), tp.loc())
        # (d)
        panics = [n for n in ext if any(glob_match(p, n) for p in ('std::panicking::*', 'std::rt::panic*', 'std::panicking::unreachable*'))]
        body = tp.body
        own_panics = [c.best() for c in body.calls() if any(glob_match(p, n) for p in ('std::panicking::*', 'std::rt::panic*') for n in c.names())]
        try:
            adt = ws.adt(SET)
            built = set()
            for b in body.blocks:
                for (_, pl, rv) in b.stmts:
                    if rv[0] == 'agg' and rv[2] == SET:
                        built.add(rv[4])
            allv = {v['n'] for v in adt['variants']}
            if built == allv and not own_panics:
                R.ok('d', 'R10', 'time_point_to_signed_entity builds every SignedEntityType variant and has no panicking arm', '%d variants' % len(allv), tp.loc())
            else:
                R.violation('d', 'R10', 'time_point_to_signed_entity builds every SignedEntityType variant and has no panicking arm', 'beacon:all-kinds',
                            'variants not built: %s; panicking calls: %s' % (sorted(allv - built), own_panics[:3]), tp.loc())
        except Exception as e:  # noqa
            R.missing('d', e)
        # operands of the two block-number variants
        for b in body.blocks:
            for (_, pl, rv) in b.stmts:
                if rv[0] == 'agg' and rv[2] == SET and rv[4] in ('CardanoTransactions', 'CardanoBlocksTransactions'):
                    og0 = fn_origins(tp, rv[5][0], 'adapters')
                    og1 = fn_origins(tp, rv[5][1], True)
                    cfgf = 'cardano_transactions_signing_config' if rv[4] == 'CardanoTransactions' else 'cardano_blocks_transactions_signing_config'
                    want = TXC if rv[4] == 'CardanoTransactions' else BTC
                    ok = has(og0, 'pty:TimePoint.epoch') and has(og1, 'call:' + want) and has(og1, 'pty:TimePoint.chain_point.block_number') and \
                        has(og1, 'pty:SignedEntityConfig.' + cfgf + '*')
                    if rv[4] == 'CardanoBlocksTransactions':
                        og2 = fn_origins(tp, rv[5][2], 'adapters')
                        ok = ok and has(og2, 'pty:SignedEntityConfig.' + cfgf + '*')
                    inst = 'time_point_to_signed_entity: %s(epoch of the time point, block number from the tip through the %s, ...)' % (rv[4], cfgf)
                    # ... and through nothing else of the configuration: the beacon of an entity is a function of the time point and its OWN
                    # signing configuration (seed C17-5: the blocks beacon took min() with the transactions' security parameter)
                    foreign = set()
                    for opnd in rv[5]:
                        for o in fn_origins(tp, opnd, True):
                            if glob_match('pty:SignedEntityConfig.*', o) and not o.startswith('pty:SignedEntityConfig.' + cfgf):
                                foreign.add(o)
                    if ok and not foreign:
                        R.ok('b', 'R5', inst, '', tp.loc())
                    else:
                        R.violation('b', 'R5', inst, 'beacon:operands:%s' % rv[4], ('the beacon also depends on %s' % sorted(foreign)[:3]) if foreign else '', tp.loc())
    # ---- (b) who builds the block-number variants
    allow = [
        (TP + '*', 'the beacon function'),
        ('<' + SET + ' as *', 'derives (Clone / Deserialize / ...)'),
        ('*<impl serde_core::de::Deserialize*', 'serde derive'),
        ('*::Hydrator::hydrate_signed_entity_type*', 'database hydration of a stored value'),
        ('<mithril_aggregator::artifact_builder::cardano_transactions::CardanoTransactionsArtifactBuilder as *>::compute_artifact*', 'error-context text only (from the beacon being certified)'),
        ('<mithril_aggregator::artifact_builder::cardano_blocks_transactions::CardanoBlocksTransactionsArtifactBuilder as *>::compute_artifact*', 'error-context text only'),
        ('<* as mithril_common::test::double::Dummy>::dummy*', 'test double'),
        ('mithril_common::test::*', 'test helpers'), ('<mithril_common::messages::*', 'message conversions'),
        ('mithril_common::messages::*', 'message conversions'), ('mithril_end_to_end::*', 'end-to-end test lab'), ('mithril_aggregator_fake::*', 'fake aggregator'),
        ('<mithril_common::entities::signed_entity_type::SignedEntityType as std::convert::TryFrom*', 'message -> entity conversion'),
        ('<mithril_common::entities::signed_entity_type::SignedEntityType as std::convert::From*', 'message -> entity conversion'),
    ]
    for vi, vn in ((3, 'CardanoTransactions'), (4, 'CardanoBlocksTransactions')):
        ctx.only_constructors('b', SET, allow, 'SignedEntityType::%s is derived from a chain tip only by time_point_to_signed_entity' % vn, variant=vi,
                              key='constructs:SignedEntityType::%s' % vn)
    # the two signing configurations: examined at their exported methods, with the private formula helper(s) spliced in - how the
    # arithmetic is split between the method and its helper is not the rule's business
    from engine import origins
    SUBP = ('*std::ops::arith::Sub*::sub', '*::saturating_sub', '*::checked_sub')
    DIVP = ('*std::ops::arith::Div*::div', '*std::ops::arith::Rem*::rem')
    spliced = {}
    for fn in (TXC, BTC):
        f = ctx.try_fn('b', fn)
        if f is None:
            continue
        body = f.body
        spliced[fn] = {x.name for x in getattr(f, 'inlined_fns', [])}
        subs = [c for c in body.calls() if any(glob_match(p_, n) for n in c.names() for p_ in SUBP)]
        divs = [c for c in body.calls() if any(glob_match(p_, n) for n in c.names() for p_ in DIVP)]
        # a checked division cannot panic on a zero divisor (it yields None): no floor needed, but its divisor is the step all the same
        cdivs = [c for c in body.calls() if any(glob_match(p_, n) for n in c.names() for p_ in ('*::checked_rem', '*::checked_div', '*::checked_rem_euclid', '*::checked_div_euclid'))]
        margin = [c for c in subs if len(c.args) == 2 and has(fn_origins(f, c.args[0], 'adapters'), 'p#2') and
                  has(origins(body, c.args[1], False), 'pty:*.security_parameter')]
        # (1) the security parameter reaches the subtraction as configured
        inst_sp = '%s: the security parameter reaches the formula unmodified' % fn_short(fn)
        sp_any = [c for c in subs if len(c.args) == 2 and has(fn_origins(f, c.args[0], 'adapters'), 'p#2') and has(fn_origins(f, c.args[1], True), 'pty:*.security_parameter')]
        rec = []
        for c in sp_any:
            d1 = origins(body, c.args[1], False)
            rec += sorted(o for o in d1 if o.startswith('call:') and not any(o.endswith(x) for x in ('::clone', '::deref', '::borrow', '::as_ref', '::to_owned')))
        if margin and not rec:
            R.ok('c', 'R5', inst_sp, '', f.loc())
        else:
            R.violation('c', 'R5', inst_sp, 'beacon:security-parameter:%s' % fn_short(fn), 'the margin subtracted from the tip is recomputed by %s: the selected '
                        'block can exceed tip - security_parameter' % (rec[:3] or 'nothing derived from self.security_parameter'), f.loc())
        # (2) arithmetic shape
        problems = []
        raw = []
        for b_ in body.blocks:
            for (line, pl, rv) in b_.stmts:
                if rv[0] == 'bin' and rv[1] in ('Sub', 'SubWithOverflow', 'Div', 'Rem', 'Mul', 'MulWithOverflow', 'Add', 'AddWithOverflow'):
                    raw.append('%s@L%d' % (rv[1], line))
        if raw:
            problems.append('raw integer %s (overflow / division by zero panics)' % raw[:4])
        if not margin:
            problems.append('no saturating `block_number - security_parameter`')
        for c in subs:
            if any(glob_match('*::saturating_sub', n) or glob_match('*::checked_sub', n) for n in c.names()):
                continue
            tgt = [g for n in c.names() for g in ws.by_name.get(n, [])]
            seen, ext = closure(ws, tgt)
            if not any(glob_match('*::saturating_sub', n) for n in ext):
                problems.append('the subtraction %s (line %s) does not end in saturating_sub' % (fn_short(c.best()), c.line))
        if margin:
            mids = {id(c) for c in margin}
            for l in sorted(body.ret_carriers()):
                og = origins(body, l, True, call_filter=lambda c: id(c) not in mids)
                if has(og, 'p#2'):
                    problems.append('the chain tip reaches the returned value without passing `tip - security_parameter` (a path returns a value above the margin)')
                    break
            og_all = set()
            for l in body.ret_carriers():
                og_all |= origins(body, l, True)
            if not has(og_all, 'pty:*.step'):
                problems.append('the configured step does not influence the result')
        for c in divs:
            if not _nonzero(ws, f, c.args[1], c.bb):
                problems.append('the divisor of %s (line %s) is not floored at 1 (step = 0 would panic)' % (fn_short(c.best()), c.line))
        if fn == TXC:
            # the transaction step is aligned on block ranges and never below one range
            step_og = set()
            for c in divs + cdivs:
                step_og |= fn_origins(f, c.args[1], True)
            floor_len = has(step_og, 'call:std::cmp::max') or any(has(g_.a_orig | g_.b_orig, 'call:*BlockRange::from_block_number') for g_ in __import__('engine').find_guards(body))
            if not (has(step_og, 'call:*BlockRange::from_block_number') and floor_len):
                problems.append('the transaction step is not max(range_start(step), range length)')
        inst = '%s: every result passes the saturating `tip - security_parameter`, rounded down by the (floored) step' % fn_short(fn)
        if problems:
            R.violation('c', 'R7', inst, 'beacon:formula:%s' % fn_short(fn), '; '.join(problems), f.loc())
        else:
            R.ok('c', 'R7', inst, '%d subtraction(s), %d division(s)' % (len(subs), len(divs)), f.loc())
    if len(spliced) == 2:
        # whether the two configurations share a private helper is a matter of layout, not of the property: each is decided on its
        # own above (a shared helper is only recorded)
        shared = spliced[TXC] & spliced[BTC]
        R.info('b', 'private helpers shared by the two signing configurations: %s' % (', '.join(sorted(fn_short(x) for x in shared)) or 'none'))
    tx = ctx.try_fn('c', TXC)
    if tx is not None:
        subs = [c for c in tx.body.calls() if any(glob_match('*std::ops::arith::Sub*::sub', n) for n in c.names())]
        ok = bool(subs)
        for c in subs:
            tgt = [g for n in c.names() for g in ws.by_name.get(n, [])]
            seen, ext = closure(ws, tgt)
            if not any(glob_match('*::saturating_sub', n) for n in ext):
                ok = False
        raw = [1 for b in tx.body.blocks for (_, pl, rv) in b.stmts if rv[0] == 'bin' and rv[1] in ('Sub', 'SubWithOverflow')]
        if ok and not raw:
            R.ok('c', 'R7', 'CardanoTransactionsSigningConfig: the final "- 1" is saturating', '', tx.loc())
        else:
            R.violation('c', 'R7', 'CardanoTransactionsSigningConfig: the final "- 1" is saturating', 'beacon:minus-one', '', tx.loc())
