"""C19 - only verified files are restored (DESIGN.md section 4, C19)."""
from core import glob_match
from engine import Sink, fn_origins, track_result, success_reachable
from props.common import Ctx, fn_short  # noqa: F401

EXPLANATION = (
    'Static rules over mithril-client: (a) ancillary - unpack into a fresh temporary directory < AncillaryVerifier::verify Ok < '
    'move_to_final_location; the temporary directory is removed on every exit; (b) a ValidatedAncillaryManifest exists only as the '
    'success of verify, which requires manifest parse, verify_data Ok (per-file hashes), a present signature and '
    'ManifestVerifier::verify Ok under the configured key over the manifest hash; (c) only manifest-listed files are moved, from '
    'the verified directory; (d) every archive whose entries are not individually vouched must be unpacked somewhere that is '
    'verified or cleaned as a whole - on the pinned tree immutable archives are unpacked straight into the database directory '
    'and the post-download clean-up only scans its immutable/ sub-directory (known finding). Does not decide archive-parser '
    'behaviour (tar path handling is third-party).')

ASSUMPTIONS = ['tar/zstd unpacking (third-party); Ed25519 manifest signature soundness']

DT = 'mithril_client::cardano_database_client::download_unpack::download_task::DownloadTask::'
AV = 'mithril_client::utils::ancillary_verifier::'
VER = AV + 'AncillaryVerifier::verify'
MOVE = AV + 'ValidatedAncillaryManifest::move_to_final_location'
VAM = AV + 'ValidatedAncillaryManifest'
UDF = 'mithril_client::utils::unexpected_downloaded_file_verifier::'


def has(og, pat):
    # a field path under the named origin also counts (getters spliced by the inliner make origins more precise)
    return any(glob_match(pat, o) or (pat[-1] != '*' and glob_match(pat + '.*', o)) for o in og)


def run(ctx):
    R = ctx.report
    ws = ctx.ws
    R.clause('a', 'ancillary: unpack into a temp dir < verify Ok < move; temp dir removed on every exit')
    R.clause('b', 'a ValidatedAncillaryManifest exists only as the success of verify (parse, data, signature under the configured key)')
    R.clause('c', 'only manifest-listed files are moved')
    R.clause('d', 'archives with unvouched entries are unpacked where the result is verified or cleaned as a whole')

    # ---- (a)  layout-independent: the three steps may live in one function or be spread over helpers
    from props.common import deep_origins
    DU = [DT + 'download_unpack_file']
    TMP = 'call:*temp_ancillary_target_dir'
    lib = [x for x in ws.fns if x.unit.crate == 'mithril_client' and x.unit.tag == 'lib']
    ver_sites = [(g, c) for g in lib for c in g.body.calls() if VER in c.names()]
    move_sites = [(g, c) for g in lib for c in g.body.calls() if MOVE in c.names()]
    if not ver_sites:
        R.missing('a', 'no call of AncillaryVerifier::verify in mithril-client')
    if not move_sites:
        R.missing('a', 'no call of ValidatedAncillaryManifest::move_to_final_location in mithril-client')
    # the ancillary unpack sites: download_unpack_file calls in a body (family) that also verifies
    fam_of_ver = set()
    for g, c in ver_sites:
        fam_of_ver |= {id(x) for x in g.root().family()}
    unpack_sites = [(g, c) for g in lib for c in g.body.calls() if any(n in c.names() for n in DU) and id(g) in fam_of_ver]
    inst = 'ancillary archive is unpacked into the temporary directory (not the target)'
    if not unpack_sites:
        R.violation('a', 'R5', inst, 'ancillary:unpack-dir', 'no download_unpack_file call next to the verification', None)
    else:
        bad = [c.line for g, c in unpack_sites if not has(deep_origins(ws, g, c.args[2] if len(c.args) > 2 else c.args[-1], True, depth=2), TMP)
               and not any(has(deep_origins(ws, g, a, True, depth=2), TMP) for a in c.args)]
        tgt = [c.line for g, c in unpack_sites if any(has(deep_origins(ws, g, a, 'adapters', depth=2), 'pty:DownloadTask.target_dir') and
                                                       not has(deep_origins(ws, g, a, 'adapters', depth=2), TMP) for a in c.args[1:])]
        if bad or tgt:
            R.violation('a', 'R5', inst, 'ancillary:unpack-dir', 'unpack sites not into the temp dir: %s; into the target dir: %s' % (bad, tgt), unpack_sites[0][0].loc())
        else:
            R.ok('a', 'R5', inst, '%d site(s)' % len(unpack_sites), unpack_sites[0][0].loc())
    inst = 'the verifier checks the temporary directory with the configured verifier'
    if ver_sites:
        bad = []
        for g, c in ver_sites:
            d = deep_origins(ws, g, c.args[1], True, depth=2)
            v = deep_origins(ws, g, c.args[0], True, depth=2)
            if not has(d, TMP) or not has(v, 'pty:DownloadTask.kind*'):
                bad.append(c.line)
        if bad:
            R.violation('a', 'R5', inst, 'ancillary:verify-args', 'verify sites at lines %s' % bad, ver_sites[0][0].loc())
        else:
            R.ok('a', 'R5', inst, '%d site(s)' % len(ver_sites), ver_sites[0][0].loc())
    inst = 'the moved manifest is the validated one; destination is the target directory'
    if move_sites:
        bad = []
        for g, c in move_sites:
            recv_ty = g.body.lty(c.args[0][1][0]) if c.args[0][0] in ('copy', 'move') else ''
            d = deep_origins(ws, g, c.args[1], 'adapters', depth=2)
            if 'ValidatedAncillaryManifest' not in recv_ty or has(d, TMP) or not (has(d, 'pty:DownloadTask.target_dir*') or has(d, 'pty:*.target_dir*')):
                bad.append(c.line)
        if bad:
            R.violation('a', 'R5', inst, 'ancillary:move-args', 'move sites at lines %s' % bad, move_sites[0][0].loc())
        else:
            R.ok('a', 'R5', inst, '%d site(s); the receiver type can only be produced by verify (clause b)' % len(move_sites), move_sites[0][0].loc())
    # order inside each body that holds a verify: unpack (success) precedes verify (the body may be the fn, its coroutine, or an
    # `async {}` block nested in it)
    seen_bodies = set()
    for g, c in ver_sites:
        if id(g) in seen_bodies:
            continue
        seen_bodies.add(id(g))
        rn = fn_short(g.root().name)
        ctx.order('a', g, ('download_unpack_file', DU), ('AncillaryVerifier::verify', [VER]),
                  _inst=('%s: download_unpack_file (success) precedes AncillaryVerifier::verify' % rn,
                         'order:%s:download_unpack_file<AncillaryVerifier::verify' % rn))
    # the temporary directory: created, and once created removed on every exit of the body that created it
    CRT = ['tokio::fs::create_dir', 'tokio::fs::create_dir::create_dir', 'tokio::fs::create_dir_all*']
    RM = ['tokio::fs::remove_dir_all', 'tokio::fs::remove_dir_all::remove_dir_all']
    inst = 'temp dir created < ancillary step < removed on every exit'
    holders = []
    for g in lib:
        crt = [c for c in ctx.call_sites(g.body, CRT) if has(deep_origins(ws, g, c.args[0], 'adapters', depth=2), TMP)]
        if crt:
            holders.append((g, crt))
    if not holders:
        R.missing('a', 'no create_dir of the temporary ancillary directory in mithril-client')
    for g, crt in holders:
        body = g.body
        rm = [c for c in ctx.call_sites(body, RM) if has(deep_origins(ws, g, c.args[0], 'adapters', depth=2), TMP)]
        problems = []
        if not rm:
            problems.append('create_dir sites %d, remove_dir_all sites of the same directory %d' % (len(crt), len(rm)))
        else:
            _, edges = ctx.success_edges_of(g, CRT, +1)
            starts = {e[1] for e in edges} or {c.target for c in crt if c.target is not None}
            removed = {(c.bb, c.target) for c in rm}
            rets = {bi for bi, b in enumerate(body.blocks) if b.term[0] == 'ret' and not b.cleanup}
            if rets & body.reach(sorted(starts), removed=removed):
                problems.append('a return is reachable after the directory was created without removing it')
            # the ancillary steps happen between: a verification / unpack site is under this body
            under = {id(x) for x in g.root().family()}
            if not any(id(vg) in under or any(id(h) in under for h in [vg.root()]) for vg, _ in ver_sites) and \
                    not any(ctx.closure_sites(g.root(), [VER], depth=3) for _ in [0]):
                problems.append('the verification does not happen under the body that owns the temporary directory')
        rn = fn_short(g.root().name)
        if problems:
            R.violation('a', 'R2', '%s: %s' % (rn, inst), 'ancillary:tempdir', '; '.join(problems), g.loc())
        else:
            R.ok('a', 'R2', '%s: %s' % (rn, inst), '', g.loc())

    # ---- (b)
    ctx.only_constructors('b', VAM, [(VER + '*', 'the verification'), ('<' + VAM + ' as std::clone::Clone>::clone', 'derive(Clone) of an existing value')],
                          'ValidatedAncillaryManifest is built only by AncillaryVerifier::verify')
    try:
        adt = ws.adt(VAM)
        pubf = [fd['n'] for fd in adt['variants'][0]['fields'] if fd['pub']]
        if pubf:
            R.violation('b', 'R3', 'ValidatedAncillaryManifest has only private fields', 'vam:public-fields', str(pubf), None)
        else:
            R.ok('b', 'R3', 'ValidatedAncillaryManifest has only private fields', '')
    except Exception as e:  # noqa
        R.missing('b', e)
    MAN = 'mithril_cardano_node_internal_database::entities::ancillary_files_manifest::AncillaryFilesManifest::'
    ctx.r1('b', VER, Sink('AncillaryFilesManifest::verify_data', MAN + 'verify_data', 'ok'))
    EDV = 'mithril_common::crypto_helper::ed25519::Ed25519Verifier::verify'
    ctx.r1('b', VER, Sink('Ed25519Verifier::verify (manifest signature)', [EDV], 'ok'))
    v = ctx.try_fn('b', VER)
    if v is not None:
        lv = v.logic()
        body = lv.body
        sig = [c for c in body.calls() if any(glob_match('std::option::Option::ok_or', n) or glob_match('std::option::Option::ok_or_else', n) for n in c.names())
               and has(fn_origins(lv, c.args[0], True), 'call:' + MAN + 'signature')]
        # ... or the Option returned by manifest.signature() is matched directly (let-else / match / if-let)
        sig += [c for c in body.calls() if (MAN + 'signature') in c.names()]
        rem = set()
        for c in sig:
            rem |= track_result(body, c.dest[0], +1).success_edges
        if sig and rem and not success_reachable(body, rem, 'ok'):
            R.ok('b', 'R1', 'verify: a missing signature is a failure', '', v.loc())
        else:
            R.violation('b', 'R1', 'verify: a missing signature is a failure', 'verify:signature-present', '', v.loc())
        mv = [c for c in body.calls() if any(glob_match(EDV, n) for n in c.names())]
        okk = False
        for c in mv:
            o_self = fn_origins(lv, c.args[0], True)
            o_msg = fn_origins(lv, c.args[1], True)
            o_sig = fn_origins(lv, c.args[2], True)
            if has(o_self, 'pty:AncillaryVerifier.verifier') and has(o_msg, 'call:' + MAN + 'compute_hash') and has(o_sig, 'call:' + MAN + 'signature'):
                okk = True
        if okk:
            R.ok('b', 'R5', 'verify: configured key verifies (manifest.compute_hash(), manifest.signature())', '', v.loc())
        else:
            R.violation('b', 'R5', 'verify: configured key verifies (manifest.compute_hash(), manifest.signature())', 'verify:signature-args', '', v.loc())
        for c in ctx.call_sites(body, [MAN + 'verify_data']):
            if has(fn_origins(lv, c.args[1], 'adapters'), 'p#2'):
                R.ok('b', 'R5', 'verify: data hashes are checked in the unpack directory', '', v.loc())
            else:
                R.violation('b', 'R5', 'verify: data hashes are checked in the unpack directory', 'verify:data-dir', '', v.loc())
        # the validated manifest records the checked directory and the manifest's file list
        for b in body.blocks:
            for (_, pl, rv) in b.stmts:
                if rv[0] == 'agg' and rv[2] == VAM:
                    o0 = fn_origins(lv, rv[5][0], True)
                    o1 = fn_origins(lv, rv[5][1], True)
                    if has(o0, 'p#2') and has(o1, 'call:' + MAN + 'files'):
                        R.ok('c', 'R5', 'ValidatedAncillaryManifest { base_directory <- checked dir, ancillary_files <- manifest.files() }', '', v.loc())
                    else:
                        R.violation('c', 'R5', 'ValidatedAncillaryManifest { base_directory <- checked dir, ancillary_files <- manifest.files() }', 'vam:fields', '', v.loc())
    # ---- (c)
    m = ctx.try_fn('c', MOVE)
    if m is not None:
        lm = m.logic()
        body = lm.body
        ren = ctx.call_sites(body, ['tokio::fs::rename', 'tokio::fs::rename::rename', 'tokio::fs::copy*', 'std::fs::rename', 'std::fs::copy'])
        problems = []
        if not ren:
            problems.append('no rename call')
        for c in ren:
            src = fn_origins(lm, c.args[0], True)
            dst = fn_origins(lm, c.args[1], True)
            if not (has(src, 'pty:ValidatedAncillaryManifest.base_directory') and has(src, 'pty:ValidatedAncillaryManifest.ancillary_files')):
                problems.append('source is not base_directory.join(listed file)')
            if not (has(dst, 'p#2') and has(dst, 'pty:ValidatedAncillaryManifest.ancillary_files')):
                problems.append('destination is not final_location.join(listed file)')
            from engine import loop_body_entry
            if loop_body_entry(body, c.bb) is None:
                problems.append('rename is not inside the loop over the listed files')
        # nothing else is moved: no directory-level rename / read_dir walk
        walks = ctx.call_sites(body, ['std::fs::read_dir', 'tokio::fs::read_dir*', 'walkdir::*'])
        if walks:
            problems.append('the directory is walked (files not listed in the manifest could be moved)')
        if problems:
            R.violation('c', 'R5', 'move_to_final_location moves exactly the manifest-listed files', 'move:listed-only', '; '.join(sorted(set(problems))), m.loc())
        else:
            R.ok('c', 'R5', 'move_to_final_location moves exactly the manifest-listed files', '%d rename site(s)' % len(ren), m.loc())

    # ---- (d)  every unpack site that is not the ancillary one (its directory is not the temporary directory)
    other_sites = [(g, c) for g in lib for c in g.body.calls() if any(n in c.names() for n in DU)
                   and not any(has(deep_origins(ws, g, a_, True, depth=2), TMP) for a_ in c.args)]
    if not other_sites:
        R.violation('d', 'R5', 'immutable archives: the unpack site exists', 'immutable:unpack-site',
                    'no download_unpack_file call outside the ancillary flow in mithril-client', None)
    for g, c in other_sites:
        tgt = deep_origins(ws, g, c.args[1], 'adapters', depth=2)
        direct = has(tgt, 'pty:DownloadTask.target_dir')
        # the post-download clean-up: which directories does it scan?
        rf = ws.find_all(UDF + 'ExpectedFilesAfterDownload::remove_unexpected_files')
        scans_whole = False
        scan_desc = []
        for r in rf:
            for h, cc in ctx.closure_sites(r, ['std::fs::read_dir'], depth=3):
                og = fn_origins(h, cc.args[0], True)
                joined = has(og, 'call:std::path::Path::join') or has(og, 'call:std::path::PathBuf::join')
                scan_desc.append('read_dir(%s)' % ('target.join(IMMUTABLE_DIR)' if joined else 'target'))
                if not joined:
                    scans_whole = True
        inst = 'immutable archives: unpack target is a temp dir, or the clean-up scans the whole target directory'
        if direct and not scans_whole:
            R.violation('d', 'R5', inst, 'immutable:unpack-into-target',
                        'DownloadKind::Immutable archives are unpacked directly into self.target_dir (the database directory) and '
                        'ExpectedFilesAfterDownload::remove_unexpected_files only scans %s: archive entries outside immutable/ (ledger, volatile, '
                        'bootstrap markers) survive in the restored database' % sorted(set(scan_desc)), g.loc())
        else:
            R.ok('d', 'R5', inst, '', g.loc())


# ---------------------------------------------------------------- added after seed C19-2
BOOT = 'mithril_client::utils::bootstrap_files::create_bootstrap_node_files'
IAD = 'mithril_client::cardano_database_client::download_unpack::internal_downloader::InternalArtifactDownloader::'
FS_PROBES = ['std::path::Path::exists', 'std::path::Path::try_exists', 'std::path::Path::is_file', 'std::path::Path::is_dir', 'std::path::Path::metadata',
             'std::path::Path::symlink_metadata', 'std::fs::metadata', 'std::fs::symlink_metadata', 'std::fs::exists', 'std::fs::OpenOptions::create_new',
             'std::fs::read*', 'std::fs::File::open', 'std::fs::File::create_new', 'tokio::fs::*metadata*', 'tokio::fs::try_exists*']


def _bootstrap_rules(ctx):
    R = ctx.report
    ws = ctx.ws
    R.clause('e', 'the client\'s bootstrap markers are rewritten after all archives were unpacked (an archive entry cannot shadow them)')
    f = ctx.try_fn('e', BOOT)
    if f is not None:
        creates, probes, writes = [], [], []
        for g in f.family():
            for c in g.body.calls():
                if any(glob_match('std::fs::File::create', n) for n in c.names()):
                    creates.append(c)
                if any(glob_match(p, n) for n in c.names() for p in FS_PROBES):
                    probes.append('%s:%s' % (fn_short(c.best()), c.line))
                if any(glob_match('*::Write::write_all', n) or glob_match('*::write_all', n) for n in c.names()):
                    writes.append((g, c))
        inst = 'create_bootstrap_node_files truncates and rewrites the markers whatever the directory already holds'
        magic = any(has(fn_origins(g, c.args[1], True), 'call:*CardanoNetwork::magic_id') for g, c in writes)
        if len(creates) >= 2 and not probes and magic:
            R.ok('e', 'R5', inst, '%d File::create sites, content <- CardanoNetwork::magic_id' % len(creates), f.loc())
        else:
            R.violation('e', 'R5', inst, 'bootstrap:unconditional', 'File::create sites %d, file-system probes gating them: %s, content from magic_id: %s - a marker that an '
                        'archive placed in the database directory would survive the restoration' % (len(creates), probes[:3], magic), f.loc())
    d = ctx.try_fn('e', IAD + 'download_unpack')
    if d is not None:
        ctx.order('e', d, ('batch_download_unpack', [IAD + 'batch_download_unpack']), ('create_bootstrap_node_files', [BOOT]),
                  desc='download_unpack: all archives unpacked (successfully) before the bootstrap markers are written')
        ctx.arg_origin('e', d, BOOT, 1, require=['p#*'], desc='(db dir) <- the target directory of the download')


def _round2_rules(ctx):
    """Rules added after the second round of seeds."""
    R = ctx.report
    ws = ctx.ws
    from engine import find_guards
    # (f) what a failed or hostile download leaves behind
    R.clause('f', 'unexpected files are removed on every exit of the download; archive entries cannot leave the unpack directory; every manifest entry is hashed')
    d = ctx.try_fn('f', IAD + 'download_unpack')
    RMU = [UDF + 'ExpectedFilesAfterDownload::remove_unexpected_files']
    DLB = [IAD + 'batch_download_unpack']
    if d is not None:
        def steps(view, pats):
            out = []
            root0 = getattr(view, '_orig', view).root()
            for c in view.body.calls():
                if any(glob_match(q, n) for q in pats for n in c.names()):
                    out.append(c)
                    continue
                for n in c.names():
                    hit = False
                    for h in ws.by_name.get(n, []):
                        if h.unit.crate == root0.unit.crate and h.root() is not root0 and h.kind in ('fn', 'assoc_fn') and ctx.closure_sites(h, pats, depth=2):
                            out.append(c)
                            hit = True
                            break
                    if hit:
                        break
            return out
        # the body in which the download step and the clean-up meet (descending while one helper holds both)
        view = d.logic()
        for _ in range(3):
            dl, rm = steps(view, DLB), steps(view, RMU)
            both = None
            if dl and rm and all(not any(glob_match(q, n) for q in DLB + RMU for n in c.names()) for c in dl + rm):
                for c in dl:
                    if any(c is c2 for c2 in rm):
                        for n in c.names():
                            for h in ws.by_name.get(n, []):
                                if h.kind in ('fn', 'assoc_fn') and ctx.closure_sites(h, DLB, depth=2) and ctx.closure_sites(h, RMU, depth=2):
                                    both = h
            if both is None:
                break
            view = ctx.view(both).logic()
        body = view.body
        inst = 'download_unpack: once the downloads were started, every exit (success or failure) has run remove_unexpected_files'
        if not dl or not rm:
            R.violation('f', 'R2', inst, 'download:cleanup-on-every-exit', 'download steps %d, clean-up steps %d in %s' % (len(dl), len(rm), fn_short(view.name)), d.loc())
        else:
            removed = {(c.bb, c.target) for c in rm}
            rets = {bi for bi, b_ in enumerate(body.blocks) if b_.term[0] == 'ret' and not b_.cleanup}
            leak = [c.line for c in dl if c.target is not None and (rets & body.reach([c.target], removed=removed))]
            if leak:
                R.violation('f', 'R2', inst, 'download:cleanup-on-every-exit', 'a return is reachable after the download step (line %s) without the clean-up: a failed download leaves '
                            'the unexpected entries an archive brought into immutable/' % leak, view.loc())
            else:
                R.ok('f', 'R2', inst, '', view.loc())
    # archives are unpacked with the confining API only: tar::Entry::unpack writes wherever the entry path says (`..`, absolute paths)
    unconfined, confined = [], 0
    for f0 in ws.fns:
        # the restoring side (the aggregator unpacks entries of archives it has just built itself, to a fixed scratch path)
        if f0.unit.tag != 'lib' or not f0.unit.crate.startswith('mithril_client'):
            continue
        for (cal, res, ln) in f0.calls:
            for n in (cal, res):
                if not n:
                    continue
                if n.startswith('tar::') and n.endswith('::unpack') and 'Entry' in n:
                    unconfined.append('%s line %s' % (fn_short(f0.name), ln))
                if n.startswith('tar::') and (n.endswith('Archive::unpack') or n.endswith('::unpack_in') or 'Archive<R>::unpack' in n):
                    confined += 1
    inst = 'archives are unpacked through tar::Archive::unpack / Entry::unpack_in only (entry paths confined to the unpack directory)'
    if unconfined:
        R.violation('f', 'R3', inst, 'unpack:confined', 'tar::Entry::unpack (no path confinement) is called at: %s' % sorted(set(unconfined))[:4], None)
    elif confined:
        R.ok('f', 'R3', inst, '%d confining unpack site(s), 0 unconfined' % confined)
    else:
        R.missing('f', 'no tar unpack call found in the workspace')
    # every entry of the manifest is hashed and compared (no entry is skipped)
    MANV = 'mithril_cardano_node_internal_database::entities::ancillary_files_manifest::AncillaryFilesManifest::verify_data'
    mv = ctx.try_fn('f', MANV)
    if mv is not None:
        from engine import loop_body_entry, CMP_REL, ALL3
        pred = (lambda g: g.op in ('Eq', 'Ne') and (has(g.a_orig | g.b_orig, 'call:*compute_file_hash') or has(g.a_orig | g.b_orig, 'call:*::finalize') or
                                                      has(g.a_orig | g.b_orig, 'call:*hex::encode*')))
        lv = mv.logic()
        body = lv.body
        removed, anchors = set(), []
        for g in find_guards(body):
            if pred(g):
                rel_t = CMP_REL[g.op]
                removed |= g.true_edges if rel_t <= {'eq'} else g.false_edges
                anchors.append(g.bb)
        # ... or the comparison sits in a helper awaited for each entry, whose own success requires it
        for c in body.calls():
            for n in c.names():
                for h in ws.by_name.get(n, []):
                    if h.unit.crate == getattr(mv, '_orig', mv).unit.crate and h.kind in ('fn', 'assoc_fn') and h.root() is not getattr(mv, '_orig', mv).root():
                        try:
                            est = ctx.quiet_gate(ctx.view(h), pred, {'eq'})[0]
                        except Exception:  # noqa
                            est = False
                        if est:
                            removed |= track_result(body, c.dest[0], +1).success_edges
                            anchors.append(c.bb)
        starts = {loop_body_entry(body, bb) for bb in anchors} - {None}
        inst = 'AncillaryFilesManifest::verify_data: every manifest entry: computed hash == listed hash'
        if anchors and starts and removed and not success_reachable(body, removed, 'ok', starts=sorted(starts)):
            R.ok('f', 'R6', inst, '%d comparison / helper site(s) in the loop over the manifest' % len(anchors), mv.loc())
        else:
            R.violation('f', 'R6', inst, 'manifest:every-entry-hashed', 'comparison sites %d (in a loop: %d): an entry can be passed over without its hash being compared' % (
                len(anchors), len(starts)), mv.loc())


_run_c19 = run


def run(ctx):  # noqa: F811
    _run_c19(ctx)
    _bootstrap_rules(ctx)
    _round2_rules(ctx)
