"""C18 - pooled cache generations (DESIGN.md section 4, C18): lock-region analysis."""
from core import glob_match
from engine import (find_guards, fn_origins, lock_regions, track_result, success_reachable, closure_args,
                    CMP_REL, ALL3)
from props.common import Ctx, fn_short  # noqa: F401

EXPLANATION = (
    'Lock-region analysis of mithril-resource-pool and its users (the one property where schedules are decided '
    'statically: the racy windows are visible as code outside / between lock regions): (a) R5 - every give-back '
    'passes the generation the item was checked out under (never the pool\'s current one), the refresher passes the '
    'generation it just set; (b) R9 check-then-act - the fullness test and the staleness test (and the reads they '
    'compare) lie in the same `resources` lock region as the push; (c) the generation recorded in a checked-out item '
    'derives from what was stored with the resource under the `resources` lock, and the stored tag is the tested one; '
    '(d) lock order acyclic, notify_one follows every push; (e) Drop returns the resource; (f) R2 - refresh order in '
    'both provers: set_discriminant before clear before refill.')

ASSUMPTIONS = ['std::sync::Mutex/Condvar semantics; liveness of waiters beyond "notify follows push" is not decided']

POOL = 'mithril_resource_pool::resource_pool::ResourcePool'
ITEM = 'mithril_resource_pool::resource_pool::ResourcePoolItem'
GIVE = POOL + '::give_back_resource'


def has(og, pat):
    # a field path under the named origin also counts (getters spliced by the inliner make origins more precise)
    return any(glob_match(pat, o) or (pat[-1] != '*' and glob_match(pat + '.*', o)) for o in og)


def run(ctx):
    R = ctx.report
    R.clause('a', 'a resource is re-admitted only under the generation it was checked out under')
    R.clause('b', 'count <= size and the staleness test are enforced atomically with the push')
    R.clause('c', 'the generation of a checked-out item is the one stored with the resource; the stored tag is the tested one')
    R.clause('d', 'lock order is acyclic; notify_one follows every push_back')
    R.clause('e', 'every checked-out item is returned (explicitly or by Drop)')
    R.clause('f', 'refresh order in the pool users: new generation, then clear, then refill')

    ws = ctx.ws
    # ---------------- (a)
    sites = ws.callers_of(GIVE)
    if not sites:
        R.violation('a', 'R5', 'give_back_resource call sites exist', 'give_back:vacuous', 'no call site', None)
    seen = set()
    for f, line in sites:
        if (f.name, line) in seen:
            continue
        seen.add((f.name, line))
        root = f.root()
        for c in f.body.calls():
            if not any(glob_match(GIVE, n) for n in c.names()) or c.line != line:
                continue
            og = fn_origins(f, c.args[2], True)
            inst = '%s: generation argument of give_back_resource' % fn_short(root.name)
            key = 'give_back:gen:%s' % fn_short(root.name)
            in_pool = root.name.startswith('mithril_resource_pool::') or root.name.startswith('<mithril_resource_pool::')
            if in_pool:
                own = has(og, 'pty:ResourcePoolItem.discriminant') or has(og, 'call:' + ITEM + '::discriminant')
                cur = has(og, 'call:' + POOL + '::discriminant') or has(og, 'pty:ResourcePool.discriminant')
                if own and not cur:
                    R.ok('a', 'R5', inst, 'derives from the item\'s own generation', '%s:%d' % (f.file, line))
                else:
                    R.violation('a', 'R5', inst, key, 'generation argument origins: own=%s pool-current=%s (%s)' % (
                        own, cur, sorted(o for o in og if o.startswith(('call:mithril', 'pty:')))[:6]), '%s:%d' % (f.file, line))
            else:
                # a refresher: must pass exactly the generation it set with set_discriminant
                setters = []
                for g in root.family():
                    for cc in g.body.calls():
                        if any(glob_match(POOL + '::set_discriminant', n) for n in cc.names()):
                            setters.append((g, cc))
                same = False
                for g, cc in setters:
                    og_set = fn_origins(g, cc.args[1], True)
                    core_a = {o for o in og if o.startswith(('call:mithril', 'const:'))}
                    core_b = {o for o in og_set if o.startswith(('call:mithril', 'const:'))}
                    if core_a == core_b and core_a:
                        same = True
                if same:
                    R.ok('a', 'R5', inst, 'passes the generation it set with set_discriminant', '%s:%d' % (f.file, line))
                else:
                    R.violation('a', 'R5', inst, key, 'a pool user gives back under a generation that is not the one it just set '
                                '(set_discriminant sites: %d)' % len(setters), '%s:%d' % (f.file, line))

    # ---------------- (b) check-then-act in give_back_resource
    gb = ctx.try_fn('b', GIVE)
    if gb is not None:
        body = gb.body
        regs = [r for r in lock_regions(gb) if r.field and r.field.endswith('.resources') and r.guard is not None]
        pushes = [c for c in body.calls() if any(glob_match('std::collections::vec_deque::VecDeque::push_back', n) or
                                                 glob_match('std::collections::vec_deque::VecDeque::push_front', n) for n in c.names())]
        if not regs or not pushes:
            R.violation('b', 'R9', 'give_back_resource: push inside a `resources` lock region', 'give_back:push-region',
                        'resources regions: %d, pushes: %d' % (len(regs), len(pushes)), gb.loc())
        else:
            reg = [r for r in regs if all(p.bb in r.blocks for p in pushes)]
            if not reg:
                R.violation('b', 'R9', 'give_back_resource: push inside a `resources` lock region', 'give_back:push-region',
                            'the push is not inside a region of the resources lock', gb.loc())
            else:
                reg = reg[0]
                R.ok('b', 'R9', 'give_back_resource: push inside a `resources` lock region', 'region blocks %d' % len(reg.blocks), gb.loc())
                gs = find_guards(body)
                full = [g for g in gs if has(g.a_orig | g.b_orig, 'pty:ResourcePool.size')]
                stale = [g for g in gs if g.op in ('Ne', 'Eq') and has(g.a_orig | g.b_orig, 'p#3') and
                         (has(g.a_orig | g.b_orig, 'call:' + POOL + '::discriminant') or has(g.a_orig | g.b_orig, 'pty:ResourcePool.discriminant'))]
                for what, guards, reads in (('fullness', full, ['std::collections::vec_deque::VecDeque::len', POOL + '::count']),
                                            ('staleness', stale, [POOL + '::discriminant', 'std::sync::poison::mutex::Mutex::lock'])):
                    inst = 'give_back_resource: %s test and the value it reads are in the push\'s lock region' % what
                    key = 'give_back:%s-region' % what
                    if not guards:
                        R.violation('b', 'R9', inst, key, 'no %s guard found' % what, gb.loc())
                        continue
                    # at least one such guard must (i) lie in the push's lock region, (ii) compare a value read
                    # inside that region, (iii) gate the push.  Additional early-outs elsewhere are harmless.
                    good, why = [], []
                    for g in guards:
                        if g.bb not in reg.blocks:
                            why.append('guard at line %d is outside the region' % g.line)
                            continue
                        rd = [c for c in body.calls() if any(glob_match(p, n) for p in reads for n in c.names())
                              and c is not reg.call and c.bb not in reg.blocks
                              and has(g.a_orig | g.b_orig, 'call:' + c.best())]
                        if rd:
                            why.append('guard at line %d compares pool state read outside the region (line %s)' % (g.line, [c.line for c in rd]))
                            continue
                        if what == 'fullness':
                            # whichever way round the comparison is written: the rejecting arm is the one on which len < size cannot hold
                            a_len_ = has(g.a_orig, 'call:std::collections::vec_deque::VecDeque::len') or has(g.a_orig, 'call:' + POOL + '::count')
                            rel_t = set(CMP_REL[g.op]) if a_len_ else {{'lt': 'gt', 'gt': 'lt', 'eq': 'eq'}[x] for x in CMP_REL[g.op]}
                            rej = g.true_edges if 'lt' not in rel_t else g.false_edges
                        else:
                            rej = g.true_edges if g.op == 'Ne' else g.false_edges
                        r2 = body.reach([b for _, b in rej])
                        if any(p.bb in r2 for p in pushes):
                            why.append('push reachable from the rejecting arm of the guard at line %d' % g.line)
                            continue
                        good.append(g)
                    if not good:
                        R.violation('b', 'R9', inst, key, '; '.join(why), '%s:%d' % (gb.file, guards[0].line))
                    else:
                        R.ok('b', 'R9', inst, 'guards at lines %s' % [g.line for g in good], '%s:%d' % (gb.file, good[0].line))
                full = [g for g in full if g.bb in reg.blocks]
                # fullness relation: success of the push implies len < size
                for g in full:
                    rel = CMP_REL[g.op]
                    a_len = has(g.a_orig, 'call:std::collections::vec_deque::VecDeque::len') or has(g.a_orig, 'call:' + POOL + '::count')
                    # normalise to (len vs size)
                    t_rel = rel if a_len else {'lt': 'gt', 'gt': 'lt', 'eq': 'eq'}.__class__({})  # placeholder
                    acc = set()
                    pb = {p.bb for p in pushes}
                    if any(x in body.reach([b for _, b in g.true_edges]) for x in pb):
                        acc |= CMP_REL[g.op]
                    if any(x in body.reach([b for _, b in g.false_edges]) for x in pb):
                        acc |= (ALL3 - CMP_REL[g.op])
                    if not a_len:
                        acc = {{'lt': 'gt', 'gt': 'lt', 'eq': 'eq'}[x] for x in acc}
                    inst = 'give_back_resource: push only while len < size'
                    if acc <= {'lt'}:
                        R.ok('b', 'R6', inst, 'guard %s at line %d' % (g.op, g.line), '%s:%d' % (gb.file, g.line))
                    else:
                        R.violation('b', 'R6', inst, 'give_back:len<size', 'the push is reachable with (len vs size) in %s' % sorted(acc),
                                    '%s:%d' % (gb.file, g.line))
                # stored tag = tested tag
                for p in pushes:
                    og = fn_origins(gb, p.args[1], True)
                    inst = 'give_back_resource: the generation stored with the resource is the tested one'
                    if has(og, 'p#3') and not has(og, 'call:' + POOL + '::discriminant'):
                        R.ok('c', 'R5', inst, '', '%s:%d' % (gb.file, p.line))
                    else:
                        R.violation('c', 'R5', inst, 'give_back:stored-tag', 'stored element origins: %s' % sorted(
                            o for o in og if o.startswith(('p#', 'call:mithril')))[:6], '%s:%d' % (gb.file, p.line))

    # ---------------- (c) tag of a checked-out item
    cons = ws.constructors_of(ITEM)
    if not cons:
        R.violation('c', 'R5', 'ResourcePoolItem construction sites exist', 'item:vacuous', 'none found', None)
    try:
        adt = ws.adt(ITEM)
        didx = [i for i, fd in enumerate(adt['variants'][0]['fields']) if fd['n'] == 'discriminant']
    except Exception as e:  # noqa
        R.missing('c', e)
        didx = []
    for f in cons:
        if not didx:
            break
        for b in f.body.blocks:
            if b.cleanup:
                continue
            for (line, pl, rv) in b.stmts:
                if rv[0] == 'agg' and rv[1] == 'adt' and rv[2] == ITEM:
                    og = fn_origins(f, rv[5][didx[0]], True)
                    stored = has(og, 'call:std::collections::vec_deque::VecDeque::pop_front') or has(og, 'call:std::collections::vec_deque::VecDeque::pop_back')
                    current = has(og, 'pty:ResourcePool.discriminant') or has(og, 'call:' + POOL + '::discriminant')
                    inst = '%s: item generation <- the tag stored with the popped resource' % fn_short(f.root().name)
                    if stored and not current:
                        # and the pop happens in a resources region
                        regs = [r for r in lock_regions(f) if r.field and r.field.endswith('.resources')]
                        pops = [c for c in f.body.calls() if any(glob_match('std::collections::vec_deque::VecDeque::pop_*', n) for n in c.names())]
                        if regs and all(any(p.bb in r.blocks for r in regs) for p in pops):
                            R.ok('c', 'R5+R9', inst, 'pop under the resources lock', '%s:%d' % (f.file, line))
                        else:
                            R.violation('c', 'R9', inst, 'item:pop-region:%s' % fn_short(f.root().name), 'pop outside a resources region', '%s:%d' % (f.file, line))
                    else:
                        # a constructor that reads the pool's current generation is tolerated only if nobody calls it
                        callers = ws.callers_of(f.root().name)
                        if not callers:
                            R.ok('c', 'R3', '%s: reads the current generation but has no caller in the workspace' % fn_short(f.root().name),
                                 '', '%s:%d' % (f.file, line), nontrivial=False)
                        else:
                            R.violation('c', 'R5', inst, 'item:tag:%s' % fn_short(f.root().name),
                                        'the item is tagged with the pool\'s current generation (read outside the region that stores '
                                        'the resource): an acquire during a refresh tags an old resource with the new generation; callers: %s'
                                        % sorted({fn_short(x.root().name) for x, _ in callers})[:4], '%s:%d' % (f.file, line))

    # ---------------- (d)
    order = set()
    pool_fns = [f for f in ws.fns if f.unit.crate == 'mithril_resource_pool' and f.unit.tag == 'lib' and f.kind != 'closure']
    acquires = {}
    for f in pool_fns:
        regs = lock_regions(f)
        acquires[f.name] = {r.field.rsplit('.', 1)[-1] for r in regs if r.field}
    for f in pool_fns:
        regs = [r for r in lock_regions(f) if r.field and r.guard is not None]
        for r in regs:
            held = r.field.rsplit('.', 1)[-1]
            for c in f.body.calls():
                if c.bb not in r.blocks or c is r.call:
                    continue
                if any(glob_match(p, n) for p in __import__('engine').LOCK_CALLS for n in c.names()):
                    og = fn_origins(f, c.args[0], False)
                    for o in og:
                        if o.startswith('pty:') and '.' in o:
                            order.add((held, o.rsplit('.', 1)[-1]))
                for n in c.names():
                    for inner in acquires.get(n, ()):  # one level of pool methods
                        order.add((held, inner))
    cyc = [(a, b) for (a, b) in order if (b, a) in order or a == b]
    if cyc:
        R.violation('d', 'R9', 'pool lock order is acyclic', 'lock-order', 'acquired-while-holding relation %s has a cycle %s' % (sorted(order), cyc), None)
    else:
        R.ok('d', 'R9', 'pool lock order is acyclic', 'acquired-while-holding: %s' % sorted(order))
    if gb is not None:
        body = gb.body
        pushes = [c for c in body.calls() if any(glob_match('std::collections::vec_deque::VecDeque::push_*', n) for n in c.names())]
        notifies = [c for c in body.calls() if any(glob_match('std::sync::poison::condvar::Condvar::notify_*', n) for n in c.names())]
        removed = {(c.bb, c.target) for c in notifies}
        rets = {bi for bi, b in enumerate(body.blocks) if b.term[0] == 'ret' and not b.cleanup}
        bad = [p for p in pushes if rets & body.reach([p.target], removed=removed)]
        if bad or not notifies:
            R.violation('d', 'R2', 'give_back_resource: notify follows every push', 'give_back:notify', 'return reachable after the push '
                        'without notify (push lines %s)' % [p.line for p in bad], gb.loc())
        else:
            R.ok('d', 'R2', 'give_back_resource: notify follows every push', '', gb.loc())

    # ---------------- (e)
    dr = ws.find_all('<' + ITEM + ' as std::ops::drop::Drop>::drop')
    if not dr:
        R.violation('e', 'R2', 'ResourcePoolItem implements Drop', 'item:drop', 'no Drop impl found', None)
    else:
        # wherever under drop() the give-back is done (directly, in a closure, or in a private helper shared with the explicit path)
        calls = ctx.closure_sites(dr[0], [GIVE], depth=3)
        if calls:
            R.ok('e', 'R2', 'Drop for ResourcePoolItem gives the resource back', '', dr[0].loc())
        else:
            R.violation('e', 'R2', 'Drop for ResourcePoolItem gives the resource back', 'item:drop-gives-back', 'no give_back_resource call', dr[0].loc())
    gi = ctx.try_fn('e', POOL + '::give_back_resource_pool_item')
    if gi is not None:
        calls = [1 for g in gi.family() for c in g.body.calls() if any(glob_match(GIVE, n) for n in c.names())]
        if calls:
            R.ok('e', 'R2', 'give_back_resource_pool_item hands the taken resource to give_back_resource', '', gi.loc())
        else:
            R.violation('e', 'R2', 'give_back_resource_pool_item hands the taken resource to give_back_resource', 'item:explicit-give-back', 'no call', gi.loc())

    # ---------------- (f) refresh order in the users
    refreshers = {}
    for f, line in ws.callers_of(POOL + '::set_discriminant'):
        if f.unit.crate == 'mithril_resource_pool':
            continue
        refreshers[f.root().name] = f.root()
    if len(refreshers) < 2:
        R.violation('f', 'R2', 'both provers refresh the pool', 'refresh:users', 'refreshing fns found: %s' % sorted(refreshers), None)
    for name, root in sorted(refreshers.items()):
        lf = root.logic()
        body = lf.body
        sets = [c for c in body.calls() if any(glob_match(POOL + '::set_discriminant', n) for n in c.names())]
        clears = [c for c in body.calls() if any(glob_match(POOL + '::clear', n) for n in c.names())]
        # refill: give_back_resource directly or inside a closure handed to an iterator adapter
        refills = []
        for c in body.calls():
            if any(glob_match(GIVE, n) for n in c.names()):
                refills.append(c)
            for cn in closure_args(body, c):
                for cl in ws.by_name.get(cn, []):
                    if any(glob_match(GIVE, n) for cc in cl.body.calls() for n in cc.names()):
                        refills.append(c)
        inst = '%s: set_discriminant < clear < refill' % fn_short(name)
        key = 'refresh:order:%s' % fn_short(name)
        if not sets or not clears or not refills:
            R.violation('f', 'R2', inst, key, 'set_discriminant: %d, clear: %d, refill: %d' % (len(sets), len(clears), len(refills)), root.loc())
            continue
        # set must succeed before clear; clear before refill
        set_edges = set()
        for c in sets:
            tr = track_result(body, c.dest[0], +1)
            set_edges |= tr.success_edges or {(c.bb, c.target)}
        r1 = body.reach([0], removed=set_edges)
        bad1 = [c for c in clears if c.bb in r1]
        r2 = body.reach([0], removed={(c.bb, c.target) for c in clears})
        bad2 = [c for c in refills if c.bb in r2]
        if bad1 or bad2:
            R.violation('f', 'R2', inst, key, 'clear reachable before a successful set_discriminant: lines %s; refill reachable before clear: lines %s'
                        % ([c.line for c in bad1], [c.line for c in bad2]), root.loc())
        else:
            R.ok('f', 'R2', inst, '', root.loc())
        # the generation is read and installed without a suspension point in between: an await there lets two overlapping refreshes read
        # the same current generation and install the same "new" one (seed C18-4), so resources of the first stay admissible after the second
        reads = [c for c in body.calls() if any(glob_match(POOL + '::discriminant', n) for n in c.names())]
        yields = {bi for bi, b_ in enumerate(body.blocks) if not b_.cleanup and b_.term[0] == 'yield'}
        inst_y = '%s: no await between reading the current generation and set_discriminant' % fn_short(name)
        awaited = []
        for rd in reads:
            if rd.target is None:
                continue
            fwd = body.reach([rd.target], stop={c.bb for c in sets})
            for y in sorted(yields & fwd):
                if any(c.bb in body.reach([y]) for c in sets):
                    # a later re-read of the generation on the way would make the earlier one irrelevant: only the LAST read before the set counts
                    later = [r2 for r2 in reads if r2 is not rd and r2.bb in body.reach([y], stop={c.bb for c in sets})]
                    if not later:
                        awaited.append((rd.line, body.blocks[y].stmts[0][0] if body.blocks[y].stmts else rd.line))
        if reads and sets and not awaited:
            R.ok('f', 'R2', inst_y, '%d read(s), %d suspension point(s) in the function' % (len(reads), len(yields)), root.loc())
        elif reads and sets:
            R.violation('f', 'R2', inst_y, 'refresh:read-set-atomic:%s' % fn_short(name), 'the generation read at line %s is still the one used after an await (near line %s): an overlapping '
                        'refresh reads the same value' % (awaited[0][0], awaited[0][1]), root.loc())
        for c in sets:
            og = fn_origins(lf, c.args[1], True)
            if has(og, 'call:' + POOL + '::discriminant'):
                R.ok('f', 'R5', '%s: the new generation derives from the pool\'s current one' % fn_short(name), '', '%s:%d' % (root.file, c.line))
            else:
                R.violation('f', 'R5', '%s: the new generation derives from the pool\'s current one' % fn_short(name),
                            'refresh:gen-origin:%s' % fn_short(name), 'origins %s' % sorted(og)[:6], '%s:%d' % (root.file, c.line))
