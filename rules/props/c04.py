"""C04 - tamper evidence and wire stability of certificates (DESIGN.md section 4, C04)."""
from core import glob_match
from engine import find_guards, fn_origins
from props.common import Ctx, fn_short  # noqa: F401

EXPLANATION = (
    'Static rules: (a) R4 field coverage - every field of Certificate / CertificateMetadata / StakeDistributionParty / '
    'ProtocolParameters (fields are taken from the ADT of the current tree, so a new field is a new obligation) is read '
    'and flows into the hasher in the respective hash function; (b) the protocol message digest feeds key and value of '
    'every part; (c) SignedEntityType::feed_hash feeds every payload field of every variant and a variant tag on every '
    'path; (d) phi_f reaches equality and hashing only through the fixed-point projection; (e) the message <-> entity '
    'conversions move every field; (f) exactly one of multi-/genesis signature is rebuilt, chosen by emptiness of '
    'genesis_signature. Does not decide collision freedom of pre-images nor JSON/chrono round trips.')

ASSUMPTIONS = ['SHA-256 collision resistance; serde_json / chrono round trips (value properties, not decided)']

E = 'mithril_common::entities::'
DIGEST = ['*digest::*::update', '*Digest*::update', '*::Update>::update', '*::chain_update', 'sha2::*::update',
          '<* as digest::digest::Digest>::update', 'digest::digest::Digest::update',
          # one-shot hashing of a pre-image built first (`Sha256::digest(bytes)`)
          'digest::digest::Digest::digest', '<* as digest::digest::Digest>::digest', '*Digest>::digest', '*::new_with_prefix', '*::chain_update']


def has(og, pat):
    # a field path under the named origin also counts (getters spliced by the inliner make origins more precise)
    return any(glob_match(pat, o) or (pat[-1] != '*' and glob_match(pat + '.*', o)) for o in og)


def _const_str(body, op, depth=0):
    """The text of a string literal operand (directly, or through a local that is only ever assigned that one literal)."""
    if op[0] == 'const':
        if op[2] == '&str' and len(op[1]) >= 2 and op[1][0] == '"' and op[1][-1] == '"':
            return op[1][1:-1]
        return None
    if op[0] in ('copy', 'move') and not op[1][1] and depth < 4:
        defs = []
        for b in body.blocks:
            for (_, pl, rv) in b.stmts:
                if pl[0] == op[1][0] and not pl[1]:
                    defs.append(rv)
            t = b.term
            if t[0] == 'call' and t[1].dest[0] == op[1][0]:
                return None
        if len(defs) == 1 and defs[0][0] == 'use':
            return _const_str(body, defs[0][1], depth + 1)
    return None


def _text_table(ctx, f, key_ty, seen):
    """The texts a key-to-text function can produce, as (text, number of placeholders): the placeholder-free format strings in its
    span, the constant strings it writes (write_str / pad) or returns, and - when the written text comes out of another function of
    this crate applied to the key (`f.write_str(self.as_str())`) - that function's table.  (None, 1) stands for a text that is not a
    literal."""
    raw = getattr(f, '_orig', f)
    if raw.name in seen:
        return []
    seen.add(raw.name)
    texts = []
    for st in raw.unit.fmt:
        if st['file'] == raw.file and raw.l0 <= st['line'] <= raw.l1:
            texts.append((''.join(pc[1] for pc in st['pieces'] if pc[0]), sum(1 for pc in st['pieces'] if not pc[0])))

    def helper_tables(g, op):
        out, found = [], False
        for o in sorted(fn_origins(g, op, True)):
            if not o.startswith('call:'):
                continue
            for h in ctx.ws.by_name.get(o[5:], []):
                hr = getattr(h, '_orig', h)
                if hr.unit is raw.unit and hr.body is not None and hr.argc == 1 and key_ty.split('::')[-1] in (hr.body.lty(1) or ''):
                    found = True
                    out += _text_table(ctx, hr, key_ty, seen)
        return out if found else None
    for g in raw.family():
        gb = g.body
        for c in gb.calls():
            if any(n.endswith(('Formatter::write_str', 'Formatter::pad')) for n in c.names()) and len(c.args) > 1:
                v = _const_str(gb, c.args[1])
                if v is not None:
                    texts.append((v, 0))
                    continue
                sub = helper_tables(g, c.args[1])
                texts += sub if sub is not None else [(None, 1)]
    if 'str' in (raw.ret or ''):
        rb = raw.body
        carriers = rb.ret_carriers()
        for b in rb.blocks:
            if b.cleanup:
                continue
            for (_, pl, rv) in b.stmts:
                if pl[0] in carriers and not pl[1] and rv[0] == 'use':
                    if rv[1][0] in ('copy', 'move') and not rv[1][1][1] and rv[1][1][0] in carriers:
                        continue
                    v = _const_str(rb, rv[1])
                    texts.append((v, 0) if v is not None else (None, 1))
            t = b.term
            if t[0] == 'call' and t[1].dest[0] in carriers and not t[1].dest[1]:
                sub = helper_tables(raw, ('copy', (t[1].dest[0], [])))
                texts += sub if sub is not None else [(None, 1)]
    return texts


def _key_text_fns(ctx, g, og, key_ty):
    """Same-crate one-parameter functions over the part key among the origins of a fed value."""
    out = []
    for o in sorted(og):
        if o.startswith('call:'):
            for h in ctx.ws.by_name.get(o[5:], []):
                hr = getattr(h, '_orig', h)
                if hr.body is not None and hr.argc == 1 and key_ty.split('::')[-1] in (hr.body.lty(1) or '') and 'str' in (hr.ret or '').lower():
                    out.append(hr)
    return out


def run(ctx):
    R = ctx.report
    R.clause('a', 'every field that verification consumes is under the certificate hash')
    R.clause('b', 'the protocol message digest covers every key and value')
    R.clause('c', 'the signed-entity part of the hash covers every payload field and distinguishes entity kinds')
    R.clause('d', 'equality of parameters and hashing use the same fixed-point projection of phi_f')
    R.clause('e', 'message <-> entity conversion is total on fields')
    R.clause('f', 'exactly one of multi-/genesis signature is reconstructed, chosen by emptiness of genesis_signature')

    cons = DIGEST + [E + 'signed_entity_type::SignedEntityType::feed_hash']
    ctx.field_cover('a', E + 'certificate::Certificate', E + 'certificate::Certificate::try_compute_hash', consumers=cons,
                    exempt={'hash': 'the output of the hash'})
    ctx.field_cover('a', E + 'certificate_metadata::CertificateMetadata', E + 'certificate_metadata::CertificateMetadata::compute_hash',
                    consumers=DIGEST)
    ctx.field_cover('a', E + 'certificate_metadata::StakeDistributionParty', E + 'certificate_metadata::StakeDistributionParty::compute_hash',
                    consumers=DIGEST)
    ctx.field_cover('a', E + 'protocol_parameters::ProtocolParameters', E + 'protocol_parameters::ProtocolParameters::compute_hash',
                    consumers=DIGEST)
    # the certificate signature: every variant's payload reaches the hash bytes
    ctx.field_cover('a', E + 'certificate::CertificateSignature', E + 'certificate::CertificateSignature::to_bytes_hex_for_certificate_hash',
                    ret_consumer=True, exempt={'MultiSignature.0': 'the signed entity type is fed separately through feed_hash (checked in a/c)'})

    # (b)
    pm = ctx.try_fn('b', E + 'protocol_message::ProtocolMessage::compute_legacy_digest_bytes')
    if pm is not None:
        body = pm.body
        # in the loop body, or in the closure the parts are folded with (`parts.iter().fold(Sha256::new(), |h, (k, v)| h.chain_update(..))`)
        from engine import loop_body_entry
        ok_k = ok_v = False
        in_loop = []
        key_text_fns = []   # functions of the key other than Display whose text is fed (`key.as_str().as_bytes()`)
        SRC = ['pty:ProtocolMessage.message_parts', 'pty:BTreeMap', 'lty:ProtocolMessage.message_parts']
        for g in pm.family():
            gb = g.body
            for c in gb.calls():
                if not any(glob_match(p, n) for p in DIGEST for n in c.names()) or len(c.args) < 2:
                    continue
                og = fn_origins(g, c.args[1], True)
                src = any(has(og, x) for x in SRC)
                kfs = _key_text_fns(ctx, g, og, E + 'protocol_message::ProtocolMessagePartKey')
                if src and has(og, 'call:*ToString*::to_string'):
                    ok_k = True
                elif src and kfs:
                    ok_k = True
                    key_text_fns.extend(kfs)
                elif src:
                    ok_v = True
                if g is not pm or loop_body_entry(gb, c.bb) is not None:
                    in_loop.append(c)
        if ok_k and ok_v and len(in_loop) >= 2:
            R.ok('b', 'R4', 'compute_legacy_digest_bytes: key and value of every part are fed (loop over message_parts)',
                 '%d update sites in the loop' % len(in_loop), pm.loc())
        else:
            R.violation('b', 'R4', 'compute_legacy_digest_bytes: key and value of every part are fed (loop over message_parts)',
                        'protocol_message:key+value', 'key fed: %s, value fed: %s, update sites in loop: %d' % (ok_k, ok_v, len(in_loop)), pm.loc())
    ctx.field_cover('b', E + 'protocol_message::ProtocolMessage', E + 'protocol_message::ProtocolMessage::compute_hash_bytes',
                    consumers=DIGEST + ['*ProtocolMessage::compute_legacy_digest_bytes'],
                    exempt={'hash_scheme': 'selects the digest layout; only one scheme exists in this build'})

    # the key is fed as its Display text: that text must tell the keys apart (seed C04-4: two variants wrote the same literal, so the
    # same value under either key gave one digest and match_message accepted one for the other)
    PMK = E + 'protocol_message::ProtocolMessagePartKey'
    dk = ctx.try_fn('b', '<' + PMK + ' as std::fmt::Display>::fmt')
    extra = []
    if pm is not None:
        for h in key_text_fns:
            if h.name not in [x.name for x in extra]:
                extra.append(h)
    for dk in ([dk] if dk is not None else []) + extra:
        try:
            nvar = len(ctx.ws.adt(PMK)['variants'])
        except Exception as e:  # noqa
            nvar = None
            R.missing('b', e)
        texts = _text_table(ctx, dk, PMK, set())
        inst = 'Display for ProtocolMessagePartKey (the text fed to the digest) writes a distinct literal for every key'
        if dk in extra:
            inst = '%s (the text of the key fed to the digest) gives a distinct literal for every key' % fn_short(dk.name)
        lits = [t for t, nph in texts if nph == 0]
        dup = sorted({t for t in lits if lits.count(t) > 1})
        if nvar is not None:
            if len(lits) >= nvar and not dup and len(lits) == len(texts):
                R.ok('b', 'R12', inst, '%d variants, %d distinct literals' % (nvar, len(set(lits))), dk.loc())
            elif dup:
                R.violation('b', 'R12', inst, 'part_key:display-injective', 'the literal(s) %s are written for more than one key: the digest no longer tells those keys apart' % dup, dk.loc())
            else:
                R.missing('b', '%s is not a table of %d literals (%d literal sites, %d templated): injectivity not decided' % (
                    fn_short(dk.name), nvar, len(lits), len(texts) - len(lits)))

    # (c)
    ctx.field_cover('c', E + 'signed_entity_type::SignedEntityType', E + 'signed_entity_type::SignedEntityType::feed_hash', consumers=DIGEST)
    ctx.field_cover('c', E + 'cardano_db_beacon::CardanoDbBeacon', E + 'signed_entity_type::SignedEntityType::feed_hash', consumers=DIGEST)
    fh = ctx.try_fn('c', E + 'signed_entity_type::SignedEntityType::feed_hash')
    if fh is not None:
        body = fh.body
        # a variant-distinguishing value (discriminant / index()) must be fed on every path to return
        tag_updates = []
        for c in body.calls():
            if any(glob_match(p, n) for p in DIGEST for n in c.names()) and len(c.args) > 1:
                og = fn_origins(fh, c.args[1], True)
                if has(og, 'call:*SignedEntityType::index') or has(og, 'call:*discriminant*') or has(og, 'call:*::get_discriminant*'):
                    tag_updates.append(c)
        removed = {(c.bb, c.target) for c in tag_updates}
        rets = [bi for bi, b in enumerate(body.blocks) if b.term[0] == 'ret' and not b.cleanup]
        reach = body.reach([0], removed=removed)
        if not tag_updates or any(r in reach for r in rets):
            R.violation('c', 'R4', 'SignedEntityType::feed_hash feeds a variant tag on every path', 'feed_hash:variant-tag',
                        'a return is reachable without feeding a variant-distinguishing value (tag update sites: %s); '
                        'MithrilStakeDistribution(e)/CardanoStakeDistribution(e) and CardanoDatabase{e,n}/CardanoTransactions(e,n) '
                        'then feed identical byte layouts' % [c.line for c in tag_updates], fh.loc())
        else:
            R.ok('c', 'R4', 'SignedEntityType::feed_hash feeds a variant tag on every path', '', fh.loc())

    # (d)
    pp = E + 'protocol_parameters::ProtocolParameters'
    for fn_pat, what in ((pp + '::compute_hash', 'compute_hash'), ('<' + pp + ' as std::cmp::PartialEq>::eq', 'eq')):
        f = ctx.try_fn('d', fn_pat)
        if f is None:
            continue
        body = f.body
        raw = []
        for b in body.blocks:
            if b.cleanup:
                continue
            for (line, pl, rv) in b.stmts:
                for (l, place) in __import__('core').rvalue_reads(rv):
                    for pe in place[1]:
                        if isinstance(pe, tuple) and pe[0] == 'f' and pe[2] == 'phi_f' and pe[3] == pp:
                            raw.append(line)
        via = [c for c in body.calls() if any(glob_match('*ProtocolParameters::phi_f_fixed', n) for n in c.names())]
        if raw or not via:
            R.violation('d', 'R5', 'ProtocolParameters::%s uses phi_f only through phi_f_fixed()' % what, 'phi_f:%s' % what,
                        'raw reads of phi_f at lines %s; phi_f_fixed() calls: %d' % (raw, len(via)), f.loc())
        else:
            R.ok('d', 'R5', 'ProtocolParameters::%s uses phi_f only through phi_f_fixed()' % what, '%d call(s)' % len(via), f.loc())

    # (e)
    M = 'mithril_common::messages::certificate::'
    c2m = '<' + M + 'CertificateMessage as std::convert::TryFrom<' + E + 'certificate::Certificate>>::try_from'
    m2c = '<' + E + 'certificate::Certificate as std::convert::TryFrom<' + M + 'CertificateMessage>>::try_from'
    fm2c = find_impl(ctx, 'e', E + 'certificate::Certificate', 'std::convert::TryFrom', M + 'CertificateMessage')
    fc2m = find_impl(ctx, 'e', M + 'CertificateMessage', 'std::convert::TryFrom', E + 'certificate::Certificate')
    if fm2c is not None:
        ctx.field_cover('e', M + 'CertificateMessage', fm2c, agg_consumers=[E + 'certificate::Certificate', E + 'certificate_metadata::CertificateMetadata'],
                        consumers=['*CertificateMessage::multi_signature_from_message', '*CertificateMessage::genesis_signature_from_message'],
                        exempt={'aggregate_verification_key_snark': 'the entity field exists only under future_snark (not in this build)',
                                'genesis_schnorr_signature': 'the entity field exists only under future_snark (not in this build)'},
                        desc='(message -> entity)')
        ctx.field_cover('e', 'mithril_common::messages::message_parts::certificate_metadata::CertificateMetadataMessagePart', fm2c,
                        agg_consumers=[E + 'certificate_metadata::CertificateMetadata'], desc='(message -> entity)')
    if fc2m is not None:
        ctx.field_cover('e', E + 'certificate::Certificate', fc2m, agg_consumers=[M + 'CertificateMessage',
                        'mithril_common::messages::message_parts::certificate_metadata::CertificateMetadataMessagePart'],
                        desc='(entity -> message)')
        ctx.field_cover('e', E + 'certificate_metadata::CertificateMetadata', fc2m,
                        agg_consumers=['mithril_common::messages::message_parts::certificate_metadata::CertificateMetadataMessagePart'],
                        desc='(entity -> message)')

    # same-named fields map onto each other (no field is rebuilt from another source)
    MP = 'mithril_common::messages::message_parts::certificate_metadata::CertificateMetadataMessagePart'
    if fm2c is not None:
        ctx.field_mapping('e', M + 'CertificateMessage', E + 'certificate::Certificate', fm2c, desc='(message -> entity)')
        ctx.field_mapping('e', MP, E + 'certificate_metadata::CertificateMetadata', fm2c, desc='(message -> entity)', src_prefix='pty:CertificateMessage.metadata')
    if fc2m is not None:
        ctx.field_mapping('e', E + 'certificate::Certificate', M + 'CertificateMessage', fc2m, desc='(entity -> message)')
        ctx.field_mapping('e', E + 'certificate_metadata::CertificateMetadata', MP, fc2m, desc='(entity -> message)', src_prefix='pty:Certificate.metadata')

    # (f)
    if fm2c is not None:
        body = fm2c.body
        from engine import track_result
        emp = [c for c in body.calls() if any(glob_match('std::string::String::is_empty', n) or glob_match('str::is_empty', n) for n in c.names())
               and has(fn_origins(fm2c, c.args[0], True), 'pty:CertificateMessage.genesis_signature')]
        ms = [c for c in body.calls() if any(glob_match('*CertificateMessage::multi_signature_from_message', n) for n in c.names())]
        gs = [c for c in body.calls() if any(glob_match('*CertificateMessage::genesis_signature_from_message', n) for n in c.names())]
        inst = 'TryFrom<CertificateMessage>: multi-signature iff genesis_signature is empty'
        if not emp or not ms or not gs:
            R.violation('f', 'R6', inst, 'try_from:signature-choice', 'is_empty guard: %d, multi builder: %d, genesis builder: %d' % (len(emp), len(ms), len(gs)), fm2c.loc())
        else:
            tr = track_result(body, emp[0].dest[0], +1)
            r_empty = body.reach([b for _, b in tr.success_edges])
            r_nonempty = body.reach([b for _, b in tr.fail_edges])
            ok = all(c.bb in r_empty and c.bb not in r_nonempty for c in ms) and all(c.bb in r_nonempty and c.bb not in r_empty for c in gs)
            if ok:
                R.ok('f', 'R6', inst, '', fm2c.loc())
            else:
                R.violation('f', 'R6', inst, 'try_from:signature-choice', 'the builders are not exclusively on the expected arms', fm2c.loc())


def find_impl(ctx, clause, self_ty, trait, from_ty):
    """The `try_from` of `impl TryFrom<from_ty> for self_ty` (several impls of the trait exist: select by
    the argument type)."""
    cands = ctx.ws.find_all('<%s as %s>::try_from' % (self_ty, trait))
    for f in cands:
        if f.argc == 1 and from_ty in f.body.lty(1) and f.unit.tag == 'lib':
            return ctx.view(f)
    ctx.report.missing(clause, 'impl %s<%s> for %s not found' % (trait, from_ty, self_ty))
    return None
