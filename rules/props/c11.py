"""C11 - certified transaction / block / stake sets (DESIGN.md section 4, C11)."""
from core import glob_match
from engine import Sink, fn_origins, find_guards, track_result, success_reachable, return_assigns
from props.common import Ctx, fn_short  # noqa: F401

EXPLANATION = (
    'Static rules: (a) a Verified* value exists only as the success of verify() - all fields private (ADT facts), constructors '
    'only in the respective verify; (b) legacy: every set proof verified (per item), all roots equal, at least one; (c) v2: set '
    'proof verified, the returned root is the verified proof\'s root; (d) what is reported certified = the items that were '
    'checked; root, block number, offset copied from the same message; (e) leaf identifiers cover every field of the item and are '
    'injective as text (distinct literal tags per variant, a non-empty literal between any two placeholders - from the expanded '
    'format_args! templates); conversions from CardanoBlock / CardanoTransaction move every field; (f) the stake-distribution leaf '
    'encoding is injective as text; (g) message recomputation uses the verified root / values. Does not decide hash-level '
    'injectivity nor the aggregator\'s prover.')

ASSUMPTIONS = ['hash collision resistance; the Merkle verifiers (C09)']

M = 'mithril_common::messages::'
E = 'mithril_common::entities::'
LEG = M + 'cardano_transactions_proof::'
V2T = M + 'proof_v2::cardano_transactions_proof::'
V2B = M + 'proof_v2::cardano_blocks_proof::'
PMV = M + 'proof_v2::verify::ProofMessageVerifier::verify'
NODE = E + 'cardano_block_transaction_mktree_node::CardanoBlockTransactionMkTreeNode'


def has(og, pat):
    # a field path under the named origin also counts (getters spliced by the inliner make origins more precise)
    return any(glob_match(pat, o) or (pat[-1] != '*' and glob_match(pat + '.*', o)) for o in og)


def fmt_sites(ws, fn):
    out = []
    for s in fn.unit.fmt:
        if s['file'] == fn.file and fn.l0 <= s['line'] <= fn.l1:
            out.append(s)
    return out


def template_problems(site):
    """Injectivity-as-text problems of one format template: adjacent placeholders, leading placeholder without tag."""
    pcs = site['pieces']
    probs = []
    for i in range(len(pcs) - 1):
        if not pcs[i][0] and not pcs[i + 1][0]:
            probs.append('placeholders %d and %d are adjacent (no delimiter)' % (i, i + 1))
    return probs


def run(ctx):
    R = ctx.report
    ws = ctx.ws
    R.clause('a', 'a Verified* value exists only as the success of verify()')
    R.clause('b', 'legacy proofs: every set proof verified, all roots equal, at least one')
    R.clause('c', 'v2 proofs: proof verified, items contained, the returned root is the verified proof\'s')
    R.clause('d', 'what is reported certified = what was checked; root / block number / offset from the same message')
    R.clause('e', 'leaf identifiers cover every item field and are injective as text')
    R.clause('f', 'the stake-distribution leaf encoding is injective as text')
    R.clause('g', 'message recomputation uses the verified values')

    specs = [
        (LEG + 'VerifiedCardanoTransactions', LEG + 'CardanoTransactionsProofsMessage::verify'),
        (V2T + 'VerifiedCardanoTransactionsV2', V2T + 'CardanoTransactionsProofsV2Message::verify'),
        (V2B + 'VerifiedCardanoBlocks', V2B + 'CardanoBlocksProofsMessage::verify'),
    ]
    for adt_name, vfn in specs:
        try:
            adt = ws.adt(adt_name)
        except Exception as e:  # noqa
            R.missing('a', e)
            continue
        pubf = [fd['n'] for fd in adt['variants'][0]['fields'] if fd['pub']]
        if pubf:
            R.violation('a', 'R3', '%s has only private fields' % fn_short(adt_name), 'verified:public-field:%s' % fn_short(adt_name), 'public fields %s' % pubf, None)
        else:
            R.ok('a', 'R3', '%s has only private fields' % fn_short(adt_name), '%d fields' % len(adt['variants'][0]['fields']))
        ctx.only_constructors('a', adt_name, [(vfn + '*', 'the verification'), ('<' + adt_name + ' as *', 'derives'),
                                              ('*<impl serde_core::de::Deserialize*', 'serde derive (none expected)')],
                              'built only by verify()')

    # ---- (b)
    lv = ctx.try_fn('b', LEG + 'CardanoTransactionsProofsMessage::verify')
    if lv is not None:
        SPV = E + 'cardano_transactions_set_proof::CardanoTransactionsSetProof::verify'
        ctx.r1('b', lv.name, Sink('CardanoTransactionsSetProof::verify (each)', SPV, 'ok', per_item=True))
        # every iteration either records the first root (accumulator still None) or passes the equality arm
        from engine import loop_info
        body = lv.body
        gs = [g for g in find_guards(body) if g.op in ('Ne', 'Eq') and has(g.a_orig | g.b_orig, 'call:*CardanoTransactionsSetProof::merkle_root')]
        isn = [c for c in body.calls() if any(glob_match('std::option::Option::is_none', n) or glob_match('std::option::Option::is_some', n) for n in c.names())]
        rem = set()
        for g in gs:
            rem |= (g.true_edges if g.op == 'Eq' else g.false_edges)
        for c in isn:
            pol = +1 if c.best().endswith('is_none') else -1
            rem |= track_result(body, c.dest[0], pol).success_edges
        # "first one recorded" may also be a `match &shared_root { None => .. }`: the None arm of the accumulator
        acc = [l for l, (ty, nm) in enumerate(body.locals) if l > body.argc and ty.lstrip('&').replace('mut ', '').startswith('std::option::Option<std::string::String>')
               and has(fn_origins(lv, ('copy', (l, ())), True), 'call:*CardanoTransactionsSetProof::merkle_root')]
        for l in acc:
            rem |= track_result(body, l, -1, 'option').success_edges
        inst = 'legacy verify: every set proof\'s root equals the common root (or is the first one recorded)'
        li = loop_info(body, gs[0].bb) if gs else None
        if not gs or li is None:
            R.violation('b', 'R6', inst, 'legacy:same-root', 'no root comparison inside the loop over the set proofs', lv.loc())
        else:
            hdr, nxt = li
            r = body.reach([hdr], removed=rem, stop={nxt})
            if nxt in r:
                R.violation('b', 'R6', inst, 'legacy:same-root', 'an iteration can complete without the roots having been compared equal', lv.loc())
            else:
                R.ok('b', 'R6', inst, 'comparison at line %s' % [g.line for g in gs], lv.loc())
        body = lv.body
        # at least one: the root Option must be Some for success
        oks = [c for c in body.calls() if any(glob_match('std::option::Option::ok_or', n) or glob_match('std::option::Option::ok_or_else', n) for n in c.names())
               and has(fn_origins(lv, c.args[0], True), 'call:*CardanoTransactionsSetProof::merkle_root')]
        rem = set()
        for c in oks:
            rem |= track_result(body, c.dest[0], +1).success_edges
        # ... or `let Some(root) = shared_root else { return Err(..) }`: the Some arm of the accumulator after the loop
        for l in acc:
            tr_ = track_result(body, l, +1, 'option')
            if tr_.success_edges:
                rem |= tr_.success_edges
                oks = oks or [True]
        if oks and rem and not success_reachable(body, rem, 'ok'):
            R.ok('b', 'R1', 'legacy verify: at least one certified set (the common root must exist)', '', lv.loc())
        else:
            R.violation('b', 'R1', 'legacy verify: at least one certified set (the common root must exist)', 'legacy:at-least-one', '', lv.loc())
        # (d)
        for b in body.blocks:
            for (_, pl, rv) in b.stmts:
                if rv[0] == 'agg' and rv[2] == LEG + 'VerifiedCardanoTransactions':
                    adt = ws.adt(rv[2])
                    names = [fd['n'] for fd in adt['variants'][0]['fields']]
                    og = {n: fn_origins(lv, rv[5][i], True) for i, n in enumerate(names)}
                    ok = has(og['merkle_root'], 'call:*CardanoTransactionsSetProof::merkle_root') and \
                        (has(og['certified_transactions'], 'pty:CardanoTransactionsProofsMessage.certified_transactions') or
                         has(og['certified_transactions'], 'call:*CardanoTransactionsProofsMessage::transactions_hashes')) and \
                        has(fn_origins(lv, rv[5][names.index('latest_block_number')], 'adapters'), 'pty:CardanoTransactionsProofsMessage.latest_block_number') and \
                        has(fn_origins(lv, rv[5][names.index('certificate_hash')], 'adapters'), 'pty:CardanoTransactionsProofsMessage.certificate_hash')
                    inst = 'legacy verify: root <- verified proofs, transactions <- the checked sets, block number / certificate hash <- the same message'
                    if ok:
                        R.ok('d', 'R5', inst, '', lv.loc())
                    else:
                        R.violation('d', 'R5', inst, 'legacy:result-fields', '', lv.loc())

    # ---- (c)
    pv = ctx.try_fn('c', PMV)
    if pv is not None:
        MSP = E + 'mk_set_proof::MkSetProof::verify'
        ctx.r1('c', PMV, Sink('MkSetProof::verify', MSP, 'ok'))
        body = pv.body
        from engine import ok_payload
        okr = False
        same = False
        for sp in return_assigns(body, 'ok')[0]:
            x = ok_payload(body, sp)
            if x is not None:
                og = fn_origins(pv, x, True)
                okr = has(og, 'call:*MkSetProof::merkle_root')
        # the verified value and the value whose root is returned are the same entity
        vs = [c for c in body.calls() if any(glob_match(MSP, n) for n in c.names())]
        ms = [c for c in body.calls() if any(glob_match('*MkSetProof::merkle_root', n) for n in c.names())]
        if vs and ms:
            a = fn_origins(pv, vs[0].args[0], 'adapters') & fn_origins(pv, ms[0].args[0], 'adapters')
            same = has(a, 'call:*TryInto*::try_into') or has(a, 'call:*TryFrom*::try_from') or has(a, 'p#2')
        if okr and same:
            R.ok('c', 'R5', 'ProofMessageVerifier::verify: the returned root is the root of the set proof that was verified', '', pv.loc())
        else:
            R.violation('c', 'R5', 'ProofMessageVerifier::verify: the returned root is the root of the set proof that was verified', 'v2:root-origin',
                        'root from merkle_root(): %s, same entity: %s' % (okr, same), pv.loc())
        ctx.sink_arg('c', PMV, MSP, 0, require=['p#2'], desc='(verified set proof) <- the proof message handed to the verifier', depth=3)
    for adt_name, vfn, itemf in ((V2T + 'VerifiedCardanoTransactionsV2', V2T + 'CardanoTransactionsProofsV2Message::verify', 'certified_transactions'),
                                 (V2B + 'VerifiedCardanoBlocks', V2B + 'CardanoBlocksProofsMessage::verify', 'certified_blocks')):
        f = ctx.try_fn('c', vfn)
        if f is None:
            continue
        ctx.r1('c', vfn, Sink('ProofMessageVerifier::verify', PMV, 'ok'))
        body = f.body
        msgname = fn_short(vfn).split('::')[0]
        for b in body.blocks:
            for (_, pl, rv) in b.stmts:
                if rv[0] == 'agg' and rv[2] == adt_name:
                    adt = ws.adt(rv[2])
                    names = [fd['n'] for fd in adt['variants'][0]['fields']]
                    og = {n: fn_origins(f, rv[5][i], True) for i, n in enumerate(names)}
                    oa = {n: fn_origins(f, rv[5][i], 'adapters') for i, n in enumerate(names)}
                    ok = has(og['merkle_root'], 'call:' + PMV) and has(og[itemf], 'pty:*.%s*' % itemf) and \
                        has(oa['latest_block_number'], 'pty:*.latest_block_number') and has(oa['security_parameter'], 'pty:*.security_parameter') and \
                        has(oa['certificate_hash'], 'pty:*.certificate_hash')
                    inst = '%s: root <- verifier result, items <- the checked message part, block number / offset / certificate hash <- the same message' % fn_short(vfn)
                    if ok:
                        R.ok('d', 'R5', inst, '', f.loc())
                    else:
                        R.violation('d', 'R5', inst, 'v2:result-fields:%s' % fn_short(vfn), '', f.loc())
        # the items reported are the items handed to the verifier
        for c in [c for c in body.calls() if any(glob_match(PMV, n) for n in c.names())]:
            og = fn_origins(f, c.args[1], True)
            if has(og, 'pty:*.%s*' % itemf):
                R.ok('d', 'R5', '%s: the verifier checks the message\'s %s' % (fn_short(vfn), itemf), '', f.loc())
            else:
                R.violation('d', 'R5', '%s: the verifier checks the message\'s %s' % (fn_short(vfn), itemf), 'v2:verified-part:%s' % fn_short(vfn), '', f.loc())

    # the nested map proof behind every set proof (shared with C09-d)
    from props.shared import mkmap_verify_rules
    mkmap_verify_rules(ctx, 'c')

    # ---- (e)
    ctx.field_cover('e', NODE, NODE + '::leaf_identifier', ret_consumer=True, consumers=['std::fmt::Arguments::new*', 'core::fmt::rt::Argument::new_display',
                                                                                          'std::fmt::rt::Argument::new_display', '*fmt::rt::Argument::new_*'],
                    desc='(leaf identifier)')
    lf = ctx.try_fn('e', NODE + '::leaf_identifier')
    if lf is not None:
        sites = fmt_sites(ws, lf)
        try:
            nv = len(ws.adt(NODE)['variants'])
        except Exception:  # noqa
            nv = 0
        probs = []
        tags = []
        for s in sites:
            probs += template_problems(s)
            pcs = s['pieces']
            if not pcs or not pcs[0][0] or not pcs[0][1]:
                probs.append('template at line %d does not start with a literal tag' % s['line'])
            else:
                tags.append(pcs[0][1])
        # tags must be pairwise not prefixes of one another
        for i in range(len(tags)):
            for j in range(len(tags)):
                if i != j and tags[j].startswith(tags[i]):
                    probs.append('tag %r is a prefix of tag %r' % (tags[i], tags[j]))
        if len(sites) < nv:
            probs.append('%d templates for %d variants' % (len(sites), nv))
        if probs:
            R.violation('e', 'R12', 'leaf_identifier templates are injective as text', 'leaf_identifier:templates', '; '.join(probs), lf.loc())
        else:
            R.ok('e', 'R12', 'leaf_identifier templates are injective as text', 'templates: %s' % [''.join(p[1] if p[0] else '{}' for p in s['pieces']) for s in sites], lf.loc())
    for src, variant in ((E + 'cardano_block::CardanoBlock', 'Block'), (E + 'cardano_transaction::CardanoTransaction', 'Transaction')):
        conv = [f for f in ws.find_all('<' + NODE + ' as std::convert::From>::from') if src in f.body.lty(1)]
        if not conv:
            R.missing('e', 'conversion %s -> node' % src)
            continue
        ctx.field_cover('e', src, conv[0], agg_consumers=[NODE], desc='(item -> leaf node)')
    nodeconv = [f for f in ws.find_all('<mithril_merkle_tree::merkle_tree::MKTreeNode as std::convert::From>::from') if NODE in f.body.lty(1)]
    if nodeconv:
        if any(glob_match(NODE + '::leaf_identifier', n) for c in nodeconv[0].body.calls() for n in c.names()):
            R.ok('e', 'R5', 'MKTreeNode::from(leaf node) hashes the leaf identifier', '', nodeconv[0].loc())
        else:
            R.violation('e', 'R5', 'MKTreeNode::from(leaf node) hashes the leaf identifier', 'leaf_node:into-mktree', '', nodeconv[0].loc())

    # ---- (f)
    sd = [f for f in ws.find_all('<mithril_merkle_tree::merkle_tree::MKTreeNode as std::convert::From>::from') if 'StakeDistributionEntry' in f.body.lty(1)]
    if not sd:
        R.missing('f', 'From<StakeDistributionEntry> for MKTreeNode')
    else:
        sites = fmt_sites(ws, sd[0])
        probs = []
        for s in sites:
            probs += template_problems(s)
        if not sites:
            probs.append('no format template found')
        if probs:
            R.violation('f', 'R12', 'stake-distribution leaf template is injective as text', 'stake_leaf:template',
                        '%s: pool id and stake are concatenated without a delimiter ("...x9" + 5 == "...x" + 95); templates %s' % (
                            '; '.join(probs), [''.join(p[1] if p[0] else '{}' for p in s['pieces']) for s in sites]), sd[0].loc())
        else:
            R.ok('f', 'R12', 'stake-distribution leaf template is injective as text', '', sd[0].loc())

    # every entry of the distribution becomes a leaf: no element-dropping adapter between the map and the leaves handed to MKTree::new
    # (seed C11-5: entries with a zero stake were filtered out, so the certified root no longer committed to them)
    CMT = 'mithril_common::signable_builder::cardano_stake_distribution::CardanoStakeDistributionSignableBuilder::compute_merkle_tree_from_stake_distribution'
    cm = ctx.try_fn('f', CMT)
    if cm is not None:
        DROPPING = ('call:*Iterator>::filter', 'call:*Iterator::filter', 'call:*::filter_map', 'call:*::flatten', 'call:*::flat_map', 'call:*::retain', 'call:*::take_while',
                    'call:*::skip_while', 'call:*::take', 'call:*::skip', 'call:*::dedup*', 'call:*::truncate', 'call:*::drain', 'call:*::step_by')
        news = [c for c in cm.body.calls() if any(glob_match('*::MKTree*::new', n) or glob_match('*::MKTree*::new_from_iter', n) for n in c.names())]
        inst = 'compute_merkle_tree_from_stake_distribution: every (pool, stake) entry becomes a leaf'
        bad = []
        for c in news:
            og = fn_origins(cm, c.args[0], True)
            if not has(og, 'p#1'):
                bad.append('the leaves do not derive from the distribution')
            dr = sorted(o for o in og if any(glob_match(q, o) for q in DROPPING))
            if dr:
                bad.append('the leaves pass %s' % [o[5:].rsplit('::', 1)[-1] for o in dr])
        if news and not bad:
            R.ok('f', 'R5', inst, '', cm.loc())
        else:
            R.violation('f', 'R5', inst, 'stake_tree:all-entries', '; '.join(bad) or 'no MKTree::new call', cm.loc())

    # ---- (g)
    MB = 'mithril_client::message::MessageBuilder::'
    table = [
        (MB + 'compute_cardano_transactions_proofs_v2_message', {'CardanoBlocksTransactionsMerkleRoot': 'call:*certified_merkle_root', 'LatestBlockNumber': 'call:*latest_certified_block_number',
                                                                  'CardanoBlocksTransactionsBlockNumberOffset': 'call:*security_parameter'}),
        (MB + 'compute_cardano_blocks_proofs_message', {'CardanoBlocksTransactionsMerkleRoot': 'call:*certified_merkle_root', 'LatestBlockNumber': 'call:*latest_certified_block_number',
                                                        'CardanoBlocksTransactionsBlockNumberOffset': 'call:*security_parameter'}),
        (LEG + 'VerifiedCardanoTransactions::fill_protocol_message', {'CardanoTransactionsMerkleRoot': 'pty:VerifiedCardanoTransactions.merkle_root',
                                                                      'LatestBlockNumber': 'pty:VerifiedCardanoTransactions.latest_block_number'}),
        (MB + 'compute_cardano_stake_distribution_message', {'CardanoStakeDistributionEpoch': 'pty:CardanoStakeDistribution*.epoch',
                                                             'CardanoStakeDistributionMerkleRoot': 'call:*compute_merkle_tree_from_stake_distribution'}),
        (MB + 'compute_mithril_stake_distribution_message', {'NextAggregateVerificationKey': 'call:*SignerBuilder::compute_aggregate_verification_key'}),
        (MB + 'compute_cardano_database_message', {'CardanoDatabaseMerkleRoot': 'call:*MKProof::root'}),
    ]
    for fn, parts in table:
        f = ctx.try_fn('g', fn)
        if f is None:
            continue
        lf2 = f.logic()
        body = lf2.body
        sets = [c for c in body.calls() if any(glob_match('*ProtocolMessage::set_message_part', n) for n in c.names())]
        found = {}
        for c in sets:
            k = fn_origins(lf2, c.args[1], True)
            v = fn_origins(lf2, c.args[2], True)
            for part, want in parts.items():
                if has(k, 'adt:*ProtocolMessagePartKey::' + part):
                    found[part] = has(v, want)
        # base message = the certificate's protocol message
        base = any(has(fn_origins(lf2, c.args[0], True), 'pty:*Certificate*.protocol_message') or has(fn_origins(lf2, c.args[0], True), 'p#2') for c in sets) or not sets
        if fn.endswith('compute_cardano_transactions_proofs_message'):
            base = True
        miss = [p for p in parts if not found.get(p)]
        inst = '%s: parts %s come from the verified / recomputed values' % (fn_short(fn), sorted(parts))
        if miss or not base:
            R.violation('g', 'R5', inst, 'message:%s' % fn_short(fn), 'parts without the expected origin: %s; base is the certificate message: %s' % (miss, base), f.loc())
        else:
            R.ok('g', 'R5', inst, '', f.loc())
    f = ctx.try_fn('g', MB + 'compute_cardano_transactions_proofs_message')
    if f is not None:
        cs = [c for c in f.body.calls() if any(glob_match(LEG + 'VerifiedCardanoTransactions::fill_protocol_message', n) for n in c.names())]
        if cs and has(fn_origins(f, cs[0].args[0], True), 'p#3'):
            R.ok('g', 'R5', 'compute_cardano_transactions_proofs_message fills the message from the verified transactions', '', f.loc())
        else:
            R.violation('g', 'R5', 'compute_cardano_transactions_proofs_message fills the message from the verified transactions', 'message:legacy-fill', '', f.loc())
    # the client's stake distribution message: signers and parameters from the downloaded distribution
    f = ctx.try_fn('g', MB + 'compute_mithril_stake_distribution_message')
    if f is not None:
        ctx.arg_origin('g', f, 'mithril_common::protocol::signer_builder::SignerBuilder::new', 0, require=['pty:MithrilStakeDistribution*.signers_with_stake'],
                       desc='(signers) <- distribution.signers_with_stake')
        ctx.arg_origin('g', f, 'mithril_common::protocol::signer_builder::SignerBuilder::new', 1, require=['pty:MithrilStakeDistribution*.protocol_parameters'],
                       desc='(parameters) <- distribution.protocol_parameters')
    f = ctx.try_fn('g', MB + 'compute_cardano_stake_distribution_message')
    if f is not None:
        ctx.arg_origin('g', f, '*compute_merkle_tree_from_stake_distribution', 0, require=['pty:CardanoStakeDistribution*.stake_distribution'],
                       desc='(distribution) <- the downloaded stake distribution')
