"""C16 - signature attribution (DESIGN.md section 4, C16)."""
from core import glob_match, rvalue_reads
from engine import Sink, fn_origins, track_result, success_reachable, flows_forward
from props.common import Ctx, fn_short  # noqa: F401
from props import c14

EXPLANATION = (
    'Static rules: (a) a signature is stored only after verification against the open message (order + provenance of the '
    'message), on an open message that is neither certified nor expired; the stored signature is the verified one; (b) the '
    'party label of a submitted signature must influence a check that gates the store (R5 "influences control"): on the pinned '
    'tree it flows only into log / error text and into the storage key - recorded as a known finding; (c) the certificate '
    'signer list is the registered signers filtered by the stored signatures\' party ids; (d) the HTTP route registers only '
    'authenticated signatures, the DMQ path marks them authenticated but still goes through (a); the key of a verified '
    'signature is looked up by the signer slot in the registration of the epoch. Does not decide storage-key semantics in SQL.')

ASSUMPTIONS = ['SQL upsert semantics of the single-signature repository are opaque']

AG = 'mithril_aggregator::'
CS = c14.CS
RSS = CS + 'register_single_signature'
VSS_AGG = ['*::MultiSigner::verify_single_signature', AG + 'multi_signer::MultiSigner::verify_single_signature']
CSS = [AG + 'database::repository::single_signature_repository::SingleSignatureRepository::create_single_signature']
COMMON_VSS = 'mithril_common::protocol::multi_signer::MultiSigner::verify_single_signature'


def has(og, pat):
    # a field path under the named origin also counts (getters spliced by the inliner make origins more precise)
    return any(glob_match(pat, o) or (pat[-1] != '*' and glob_match(pat + '.*', o)) for o in og)


def run(ctx):
    R = ctx.report
    ws = ctx.ws
    R.clause('a', 'a signature is stored only after verification against the (open, non-expired) open message')
    R.clause('b', 'the party label is bound to the key slot that verified the signature')
    R.clause('c', 'certificate signers = registered signers filtered by the stored signatures\' party ids')
    R.clause('d', 'every ingestion path goes through verification; the key is looked up by signer slot in the epoch\'s registration')

    f = ctx.try_fn('a', RSS)
    if f is not None:
        lf = f.logic()
        body = lf.body
        ctx.order('a', f, ('verify_single_signature', VSS_AGG), ('create_single_signature', CSS))
        ctx.r1('a', RSS, Sink('verify_single_signature', VSS_AGG, 'ok'))
        ctx.flag_gate('a', f, 'pty:OpenMessage*.is_certified')
        ctx.flag_gate('a', f, 'pty:OpenMessage*.is_expired')
        for c in ctx.call_sites(body, VSS_AGG):
            om = fn_origins(lf, c.args[1], True)
            sg = fn_origins(lf, c.args[2], True)
            om_ad = fn_origins(lf, c.args[1], 'adapters')
            if has(om, 'call:*get_open_message_record*') and has(sg, 'p#3') and not has(om_ad, 'p#3*'):
                R.ok('a', 'R5', 'register_single_signature: verified against the open message\'s protocol message; the signature is the submitted one', '', f.loc())
            else:
                R.violation('a', 'R5', 'register_single_signature: verified against the open message\'s protocol message; the signature is the submitted one',
                            'register:verify-args', 'message %s signature %s' % (sorted(o for o in om if o.startswith(('call:mithril', 'p#')))[:4], sorted(o for o in sg if o.startswith(('call:mithril', 'p#')))[:4]), f.loc())
        for c in ctx.call_sites(body, CSS):
            sg = fn_origins(lf, c.args[1], 'adapters')
            om = fn_origins(lf, c.args[2], True)
            if has(sg, 'p#3') and has(om, 'call:*get_open_message_record*'):
                R.ok('a', 'R5', 'register_single_signature: the stored signature is the verified one, stored under the loaded open message', '', f.loc())
            else:
                R.violation('a', 'R5', 'register_single_signature: the stored signature is the verified one, stored under the loaded open message',
                            'register:store-args', '', f.loc())
        ctx.arg_origin('a', RSS, '*MithrilCertifierService::get_open_message_record', 1, require=['p#2'], desc='(entity) <- signed_entity_type', min_sites=1)

    # ---- (b) party label must influence control in the verification closure
    cv = ctx.try_fn('b', COMMON_VSS)
    if cv is not None:
        influences = False
        detail = []
        for g in [cv] + [x for x in cv.family() if x is not cv]:
            body = g.body
            # locals derived from single_signature.party_id
            starts = set()
            for b in body.blocks:
                if b.cleanup:
                    continue
                for (_, pl, rv) in b.stmts:
                    for (l, place) in rvalue_reads(rv):
                        for pe in place[1]:
                            if isinstance(pe, tuple) and pe[0] == 'f' and pe[2] == 'party_id' and pe[3] and pe[3].endswith('::SingleSignature'):
                                starts.add(pl[0])
            if not starts:
                continue
            derived = flows_forward(body, starts, True)
            # does any derived bool / comparison reach a switch, or is it an argument of a lookup?
            for bi, b in enumerate(body.blocks):
                if b.cleanup:
                    continue
                t = b.term
                if t[0] == 'sw' and t[1][0] in ('copy', 'move') and t[1][1][0] in derived:
                    # exclude switches inside formatting / error-context closures
                    if g is cv:
                        influences = True
                        detail.append('switch at bb%d' % bi)
                if t[0] == 'call' and g is cv:
                    c = t[1]
                    nm = c.best()
                    if any(a[0] in ('copy', 'move') and a[1][0] in derived for a in c.args):
                        if glob_match('*PartialEq*::eq', nm) or glob_match('*::get', nm) or glob_match('*::contains*', nm) or 'registered_party' in nm:
                            influences = True
                            detail.append(nm)
        # ... and it must be bound to the KEY the signature is verified with: either the key is looked up by the
        # party id, or the key found at the slot is compared with the key registered by that party
        bound = False
        body = cv.body
        pstarts = set()
        for bb in body.blocks:
            if bb.cleanup:
                continue
            for (_, pl, rv) in bb.stmts:
                for (l, place) in rvalue_reads(rv):
                    for pe in place[1]:
                        if isinstance(pe, tuple) and pe[0] == 'f' and pe[2] == 'party_id' and pe[3] and pe[3].endswith('::SingleSignature'):
                            pstarts.add(pl[0])
        pder = flows_forward(body, pstarts, True, err_context_receiver_only=True, mut_refs_only=True) if pstarts else set()
        kstarts = {c.dest[0] for c in ctx.call_sites(body, ['*::get_concatenation_registered_party_for_index', '*Clerk*::get_*registered_party*'])}
        # ... or with the slot itself (an equivalent repair: party -> slot, compared with the signature's signer_index)
        for bb in body.blocks:
            if bb.cleanup:
                continue
            for (_, pl, rv) in bb.stmts:
                for (l, place) in rvalue_reads(rv):
                    if any(isinstance(pe, tuple) and pe[0] == 'f' and pe[2] == 'signer_index' for pe in place[1]):
                        kstarts.add(pl[0])
        kder = flows_forward(body, kstarts, True, err_context_receiver_only=True, mut_refs_only=True) if kstarts else set()
        for c in ctx.call_sites(body, ['mithril_stm::*::SingleSignature::verify']):
            if len(c.args) > 2 and c.args[2][0] in ('copy', 'move') and c.args[2][1][0] in pder:
                bound = True
                detail.append('verification key looked up by party id')
        for bi, bb in enumerate(body.blocks):
            if bb.cleanup:
                continue
            cmp_dest = None
            cmp_is_ne = False
            if bb.term[0] == 'call':
                c = bb.term[1]
                if any(glob_match('*PartialEq*::eq', n) or glob_match('*PartialEq*::ne', n) for n in c.names()) and len(c.args) == 2:
                    ls = [a[1][0] for a in c.args if a[0] in ('copy', 'move')]
                    if len(ls) == 2 and ((ls[0] in pder and ls[1] in kder and ls[1] not in pder) or (ls[1] in pder and ls[0] in kder and ls[0] not in pder)):
                        cmp_dest = c.dest[0]
                        cmp_is_ne = any(n.endswith('::ne') for n in c.names())
            for (_, pl, rv) in bb.stmts:
                if rv[0] == 'bin' and rv[1] in ('Eq', 'Ne'):
                    ls = [o[1][0] for o in (rv[2], rv[3]) if o[0] in ('copy', 'move')]
                    if len(ls) == 2 and ((ls[0] in pder and ls[1] in kder) or (ls[1] in pder and ls[0] in kder)):
                        cmp_dest = pl[0]
                        cmp_is_ne = rv[1] == 'Ne'
            if cmp_dest is not None:
                # the comparison must GATE success: Ok is unreachable unless it came out "equal" (seed C16-3: the comparison was skipped for
                # signatures already flagged Authenticated - which is what the message-queue path flags every signature as)
                from engine import track_result as _trk
                t_ = _trk(body, cmp_dest, +1, 'bool')
                eq_edges = t_.fail_edges if cmp_is_ne else t_.success_edges
                if eq_edges and not success_reachable(body, eq_edges, 'ok'):
                    bound = True
                    detail.append('slot key compared with the key registered by the party (bb%d), equal outcome required for Ok' % bi)
                else:
                    detail.append('a comparison of the slot key with the party\'s key exists (bb%d) but Ok is reachable without its equal outcome' % bi)
        inst = 'MultiSigner::verify_single_signature: the key the signature is verified with is the key registered by signature.party_id'
        if influences and bound:
            R.ok('b', 'R5', inst, str(detail[-2:]), cv.loc())
        else:
            R.violation('b', 'R5', inst, 'verify_single_signature:party-binding',
                        'single_signature.party_id is not bound to the verification key (influences control: %s; key bound to the party: %s): the key is '
                        'looked up by signer_index alone, so a signature produced by registered party A verifies when submitted under the name of '
                        'registered party B and is stored under B' % (influences, bound), cv.loc())
        # key looked up by the slot embedded in the signature, in the clerk's (epoch) registration
        for c in ctx.call_sites(cv.body, ['*::get_concatenation_registered_party_for_index', '*Clerk*::get_*registered_party*']):
            og = fn_origins(cv, c.args[1], True)
            o0 = fn_origins(cv, c.args[0], True)
            if has(og, 'p#3') and has(o0, 'pty:MultiSigner.protocol_clerk'):
                R.ok('d', 'R5', 'MultiSigner::verify_single_signature: (vk, stake) <- clerk registration at the signature\'s signer_index', '', cv.loc())
            else:
                R.violation('d', 'R5', 'MultiSigner::verify_single_signature: (vk, stake) <- clerk registration at the signature\'s signer_index',
                            'verify_single_signature:key-lookup', '', cv.loc())
        ctx.r1('d', COMMON_VSS, Sink('SingleSignature::verify (STM)', ['mithril_stm::*::SingleSignature::verify'], 'ok'))
        for c in ctx.call_sites(cv.body, ['mithril_stm::*::SingleSignature::verify']):
            o_vk = fn_origins(cv, c.args[2], True)
            o_st = fn_origins(cv, c.args[3], True)
            o_msg = fn_origins(cv, c.args[5], True)
            o_par = fn_origins(cv, c.args[1], True)
            ok = has(o_vk, 'call:*registered_party*') and has(o_st, 'call:*registered_party*') and has(o_msg, 'p#2') and has(o_par, 'pty:MultiSigner.protocol_parameters')
            if ok:
                R.ok('d', 'R5', 'MultiSigner::verify_single_signature: verified with the registered (vk, stake), the epoch parameters and the given message', '', cv.loc())
            else:
                R.violation('d', 'R5', 'MultiSigner::verify_single_signature: verified with the registered (vk, stake), the epoch parameters and the given message',
                            'verify_single_signature:args', '', cv.loc())

    # ---- (c) covered through C14-b; restated on the filter closure
    cc = ctx.try_fn('c', c14.CC)
    if cc is not None:
        lc = cc.logic()
        ok = False
        for g in lc.family():
            for c in g.body.calls():
                if any(glob_match('*::contains', n) for n in c.names()):
                    o0 = fn_origins(g, c.args[0], True)
                    o1 = fn_origins(g, c.args[1], True)
                    if has(o0, 'call:*OpenMessage::get_signers_id') and (has(o1, 'clarg#2.party_id*') or has(o1, '*party_id*')):
                        ok = True
                # the membership test written out: `ids.iter().any(|id| id == &signer.party_id)`
                if any(glob_match('*PartialEq*::eq', n) or glob_match('*PartialEq*::ne', n) for n in c.names()) and len(c.args) == 2:
                    oa = fn_origins(g, c.args[0], True)
                    ob = fn_origins(g, c.args[1], True)
                    for x, y in ((oa, ob), (ob, oa)):
                        if has(x, 'call:*OpenMessage::get_signers_id') and has(y, '*party_id*') and not has(y, 'call:*OpenMessage::get_signers_id'):
                            ok = True
        if ok:
            R.ok('c', 'R5', 'create_certificate: signers filtered by open_message.get_signers_id().contains(signer.party_id)', '', cc.loc())
        else:
            R.violation('c', 'R5', 'create_certificate: signers filtered by open_message.get_signers_id().contains(signer.party_id)', 'create_certificate:signer-filter', '', cc.loc())
    gs = ctx.try_fn('c', 'mithril_aggregator::entities::open_message::OpenMessage::get_signers_id') or None
    if gs is not None:
        reads = set()
        for g in gs.family():
            for b in g.body.blocks:
                for (_, pl, rv) in b.stmts:
                    for (l, place) in rvalue_reads(rv):
                        for pe in place[1]:
                            if isinstance(pe, tuple) and pe[0] == 'f':
                                reads.add(pe[2])
        if 'single_signatures' in reads and 'party_id' in reads:
            R.ok('c', 'R5', 'OpenMessage::get_signers_id: party ids of the stored single signatures', '', gs.loc())
        else:
            R.violation('c', 'R5', 'OpenMessage::get_signers_id: party ids of the stored single signatures', 'open_message:signers-id', str(sorted(reads)), gs.loc())

    # ---- (d) ingestion paths
    ctx.only_callers('d', CSS, [(RSS + '*', 'after verification')], 'single signatures are stored only by register_single_signature')
    callers = ws.callers_of(['*::CertifierService::register_single_signature', RSS])
    roots = sorted({x.root().name for x, _ in callers if x.unit.tag == 'lib'})
    allow = ['mithril_aggregator::http_server::routes::signatures_routes::*', '<mithril_aggregator::services::signature_processor::*',
             'mithril_aggregator::services::signature_processor::*', '<mithril_aggregator::services::certifier::buffered_certifier::*',
             'mithril_aggregator::services::certifier::buffered_certifier::*', '<mithril_aggregator::services::certifier::*']
    off = [r for r in roots if not any(glob_match(a, r) for a in allow)]
    if off or not roots:
        R.violation('d', 'R3', 'register_single_signature is called only by the HTTP route, the DMQ processor and the buffering decorator',
                    'register:callers', 'unexpected callers %s' % off, None)
    else:
        R.ok('d', 'R3', 'register_single_signature is called only by the HTTP route, the DMQ processor and the buffering decorator', '%d caller fns' % len(roots))
    # HTTP route: authenticated before registering
    routes = [x.root() for x, _ in callers if 'signatures_routes' in x.root().name]
    for rt in {r.name: r for r in routes}.values():
        for g in rt.family():
            body = g.body
            regs = ctx.call_sites(body, ['*::CertifierService::register_single_signature'])
            if not regs:
                continue
            auth = ctx.call_sites(body, [AG + 'tools::single_signature_authenticator::SingleSignatureAuthenticator::authenticate'])
            isa = ctx.call_sites(body, ['mithril_common::entities::single_signature::SingleSignature::is_authenticated'])
            rem = set()
            for c in isa:
                rem |= track_result(body, c.dest[0], +1).success_edges
            reach = body.reach([0], removed=rem)
            if auth and isa and rem and not [c for c in regs if c.bb in reach]:
                R.ok('d', 'R2', 'HTTP route: register_single_signature only for an authenticated signature', '', rt.loc())
            else:
                R.violation('d', 'R2', 'HTTP route: register_single_signature only for an authenticated signature', 'route:authenticated', '', rt.loc())

    # DMQ consumer: each signature stays paired with the sender it was received from
    dq = ctx.try_fn('d', '<mithril_aggregator::services::signature_consumer::dmq::SignatureConsumerDmq as mithril_aggregator::services::signature_consumer::interface::SignatureConsumer>::get_signatures')
    if dq is not None:
        news = []
        rep = []
        for g in dq.family():
            for c in g.body.calls():
                if any(glob_match('mithril_common::entities::single_signature::SingleSignature::new', n) for n in c.names()):
                    news.append((g, c))
                if any(glob_match('*::Iterator::zip', n) or glob_match('*::Iterator::unzip', n) or glob_match('*itertools*::zip*', n) or glob_match('*::Iterator::nth', n)
                       for n in c.names()):
                    rep.append('%s:%d' % (fn_short(c.best()), c.line))
        inst = 'DMQ consumer: SingleSignature::new(sender, signature) pairs values of the same received element (no positional re-pairing)'
        problems = []
        if not news:
            problems.append('no SingleSignature::new site')
        for g, c in news:
            o_p = fn_origins(g, c.args[0], 'adapters')
            o_s = fn_origins(g, c.args[1], 'adapters')
            # both come from the closure's own element
            if not (has(o_p, 'clarg#2*') and has(o_s, 'clarg#2*')) and not (has(o_p, 'call:*::next') and has(o_s, 'call:*::next')):
                problems.append('sender / signature do not come from the same iteration element')
        if rep:
            problems.append('the batch is split and re-paired by position (%s): dropping one element shifts every later sender' % rep[:3])
        if problems:
            R.violation('d', 'R5', inst, 'dmq:sender-pairing', '; '.join(problems), dq.loc())
        else:
            R.ok('d', 'R5', inst, '', dq.loc())
