"""C20 - the signer signs once, with the epoch key (narrow; DESIGN.md section 4, C20)."""
from core import glob_match
from engine import Sink, fn_origins, track_result, success_reachable
from props.common import Ctx, fn_short  # noqa: F401

EXPLANATION = (
    'Static rules (narrow): (a) beacons offered for signing passed the already-signed filter (and the lock filter) - the payload '
    'of get_beacon_to_sign derives from filter_out_already_signed_entities; (b) every successful sign/publish is followed by '
    'mark_beacon_as_signed (order publish < mark; a publish error does not mark), the marked beacon is the signed one; (c) signing '
    'is reachable only in ReadyToSign - the publish entry point is called only by the ReadyToSign->ReadyToSign transition, '
    'ReadyToSign is constructed only after registration succeeded and can_sign_current_epoch() was true (or by staying in it), '
    'and any epoch change leaves it; (d) R13 offset algebra shared by signer and aggregator; (e) signer and aggregator apply the '
    'same offsets at the key-rotation sites (recording epoch for the saved initializer / the opened round, retrieval epoch for the '
    'initializer used to sign / the current signers, next retrieval epoch for the next signers); (f) epoch ROLES: every field of the '
    'signer\'s EpochData comes from its own source (registration parameters from configuration_for_registration, signing configuration '
    'from configuration_for_aggregation, current / next signers and the epoch from the matching fields of the fetched registrations - '
    'traced through the runner and the state machine), the stake distribution is refreshed for the NODE\'s epoch and the epoch settings '
    'recorded for the AGGREGATOR\'s. Does not decide exactly-once under faults nor acceptance by the aggregator.')

ASSUMPTIONS = ['exactly-once under publish failures / restarts is a history property (not decided)']

SG = 'mithril_signer::'
CERT = '<' + SG + 'services::certifier::SignerCertifierService as ' + SG + 'services::certifier::CertifierService>::'
GBS = CERT + 'get_beacon_to_sign'
CPS = CERT + 'compute_publish_single_signature'
SM = SG + 'runtime::state_machine::StateMachine::'
EP = 'mithril_common::entities::epoch::Epoch::'


def has(og, pat):
    # a field path under the named origin also counts (getters spliced by the inliner make origins more precise)
    return any(glob_match(pat, o) or (pat[-1] != '*' and glob_match(pat + '.*', o)) for o in og)


def run(ctx):
    R = ctx.report
    ws = ctx.ws
    R.clause('a', 'beacons offered for signing have passed the already-signed filter')
    R.clause('b', 'every successful sign/publish is followed by mark_beacon_as_signed')
    R.clause('c', 'signing is reachable only in ReadyToSign, entered only after registration and can_sign_current_epoch()')
    R.clause('d', 'offset algebra shared by signer and aggregator')
    R.clause('e', 'signer and aggregator apply the same offsets at the key-rotation sites')

    # ---- (a)
    g = ctx.try_fn('a', GBS)
    if g is not None:
        # every BeaconToSign built under get_beacon_to_sign takes its entity from list_available_signed_entity_types (wherever the
        # construction sits: the body, a closure given to Option::map, a helper)
        LA = 'call:*SignerCertifierService::list_available_signed_entity_types'
        BTS = SG + 'entities::beacon_to_sign::BeaconToSign'
        sites = [(h, list(c.args), c.line) for h, c in ctx.closure_sites(g, ['*::BeaconToSign::new'], depth=3)]
        sites += [(h, list(rv[5]), ln) for h, rv, ln in ctx.closure_aggs(g, BTS, depth=3) if 'BeaconToSign::new' not in h.name]
        bad = [ln for h, args, ln in sites if not any(has(ctx.deep(g, h, a_, True, up=3, depth=3), LA) for a_ in args)]
        inst = 'get_beacon_to_sign: the offered entity derives from list_available_signed_entity_types'
        if sites and not bad:
            R.ok('a', 'R5', inst, '%d construction site(s)' % len(sites), g.loc())
        else:
            R.violation('a', 'R5', inst, 'beacon:from-filter', 'BeaconToSign construction sites %d; not fed by the filtered list: lines %s' % (len(sites), bad), g.loc())
    la = ctx.try_fn('a', SG + 'services::certifier::SignerCertifierService::list_available_signed_entity_types')
    if la is not None:
        ll = la.logic()
        body = ll.body
        F = ['*::SignedBeaconStore::filter_out_already_signed_entities']
        ctx.r1('a', la.name, Sink('filter_out_already_signed_entities', F, 'ok'))
        from engine import return_assigns, ok_payload
        ok = False
        for sp in return_assigns(body, 'ok')[0]:
            x = ok_payload(body, sp)
            if x is not None and has(fn_origins(ll, x, 'adapters'), 'call:' + F[0]):
                ok = True
        if ok:
            R.ok('a', 'R5', 'list_available_signed_entity_types returns the result of the already-signed filter', '', la.loc())
        else:
            R.violation('a', 'R5', 'list_available_signed_entity_types returns the result of the already-signed filter', 'available:filter-result', '', la.loc())
        for c in ctx.call_sites(body, F):
            og = fn_origins(ll, c.args[1], True)
            if has(og, 'call:*SignedEntityTypeLock::filter_unlocked_entries') and has(og, 'call:*SignedEntityConfig::list_allowed_signed_entity_types'):
                R.ok('a', 'R5', 'the filter input is the allowed, unlocked entity list', '', la.loc())
            else:
                R.violation('a', 'R5', 'the filter input is the allowed, unlocked entity list', 'available:filter-input', '', la.loc())

    # ---- (b)
    p = ctx.try_fn('b', CPS)
    if p is not None:
        PUB = ['*::SignaturePublisher::publish']
        MARK = ['*::SignedBeaconStore::mark_beacon_as_signed']
        SIGN = ['*::SingleSigner::compute_single_signature']
        ctx.r1('b', CPS, Sink('mark_beacon_as_signed', MARK, 'ok'))
        ctx.r1('b', CPS, Sink('compute_single_signature', SIGN, 'ok'))
        pubs = ctx.closure_sites(p, PUB, depth=3)
        marks = ctx.closure_sites(p, MARK, depth=3)
        signs = ctx.closure_sites(p, SIGN, depth=3)
        problems = []
        if not pubs or not marks or not signs:
            problems.append('sign sites %d, publish sites %d, mark sites %d' % (len(signs), len(pubs), len(marks)))

        def steps(view, pats):
            """calls in the body of `view` that are the step, or call a helper under which the step happens"""
            out = []
            root0 = getattr(view, '_orig', view).root()
            for c in view.body.calls():
                if any(glob_match(q, n) for q in pats for n in c.names()):
                    out.append((c, None))
                    continue
                for n in c.names():
                    for h in ws.by_name.get(n, []):
                        if h.unit.crate == root0.unit.crate and h.root() is not root0 and h.kind in ('fn', 'assoc_fn') and \
                                ctx.closure_sites(h, pats, depth=2):
                            out.append((c, h))
                            break
            return out

        # the body in which the publish step and the mark step meet (descending while one helper holds both)
        view = p.logic()
        for _ in range(3):
            ps, ms = steps(view, PUB), steps(view, MARK)
            both = [h for (c, h) in ps if h is not None and any(h2 is h for (_c2, h2) in ms)]
            if both and not any(h is None for _c, h in ps + ms):
                view = ctx.view(both[0]).logic()
                continue
            break
        body = view.body
        if not ps or not ms:
            problems.append('publish and mark steps do not meet in one body (publish steps %d, mark steps %d in %s)' % (len(ps), len(ms), fn_short(view.name)))
        for c, h in ps:
            tr = track_result(body, c.dest[0], +1)
            if not tr.discharged():
                problems.append('the publish result is not propagated')
            # a failed publish must not reach mark
            if any(m.bb in body.reach([b_ for _, b_ in tr.fail_edges]) for m, _h in ms):
                problems.append('mark_beacon_as_signed reachable after a failed publish')
        for h, c in pubs:
            tr = track_result(h.body, c.dest[0], +1)
            if not tr.discharged():
                problems.append('the publish result is not propagated')
            # published signature = computed signature; entity of the beacon; message
            if not has(ctx.deep(p, h, c.args[2], True, up=3, depth=3), 'call:' + SIGN[0]):
                problems.append('published signature does not derive from compute_single_signature')
            if not has(ctx.deep(p, h, c.args[1], 'adapters', up=3, depth=3), 'pty:BeaconToSign.signed_entity_type*'):
                problems.append('published entity type is not the beacon\'s')
            if not has(ctx.deep(p, h, c.args[3], 'adapters', up=3, depth=3), 'pty:ProtocolMessage'):
                problems.append('published message is not the signed message')
        for h, m in marks:
            og = ctx.deep(p, h, m.args[1], 'adapters', up=3, depth=3)
            if not any(glob_match('pty:BeaconToSign', o) for o in og):
                problems.append('the marked beacon is not the one that was signed')
        for h, c in signs:
            if not has(ctx.deep(p, h, c.args[1], 'adapters', up=3, depth=3), 'pty:ProtocolMessage'):
                problems.append('the signed message is not the given protocol message')
        if problems:
            R.violation('b', 'R2', 'compute_publish_single_signature: sign < publish (errors propagate) < mark the same beacon', 'publish:mark', '; '.join(sorted(set(problems))), p.loc())
        else:
            R.ok('b', 'R2', 'compute_publish_single_signature: sign < publish (errors propagate) < mark the same beacon', '', p.loc())

    # ---- (c)
    ctx.only_callers('c', ['*::Runner::compute_publish_single_signature', SG + 'runtime::runner::Runner::compute_publish_single_signature'],
                     [(SM + 'transition_from_ready_to_sign_to_ready_to_sign*', 'ReadyToSign -> ReadyToSign')],
                     'the runner\'s publish entry point is called only by the ReadyToSign transition')
    ctx.only_callers('c', [SM + 'transition_from_ready_to_sign_to_ready_to_sign'], [(SM + 'cycle_ready_to_sign*', 'the ReadyToSign cycle')],
                     'the signing transition is entered only from cycle_ready_to_sign')
    ctx.only_callers('c', [SM + 'cycle_ready_to_sign'], [(SM + 'cycle*', 'the state dispatch')], 'cycle_ready_to_sign is dispatched only by cycle()')
    ST = SG + 'runtime::state_machine::SignerState'
    try:
        adt = ws.adt(ST)
        vi = [i for i, v in enumerate(adt['variants']) if v['n'] == 'ReadyToSign'][0]
        ctx.only_constructors('c', ST, [(SM + 'transition_from_unregistered_to_one_of_registered_states*', 'after registration + can_sign_current_epoch'),
                                        (SM + 'transition_from_ready_to_sign_to_ready_to_sign*', 'staying in ReadyToSign'),
                                        ('<' + ST + ' as *', 'derives')],
                              'SignerState::ReadyToSign is constructed only by the two transitions', variant=vi, key='constructs:SignerState::ReadyToSign')
    except Exception as e:  # noqa
        R.missing('c', e)
    tr_ = ctx.try_fn('c', SM + 'transition_from_unregistered_to_one_of_registered_states')
    if tr_ is not None:
        lt = tr_.logic()
        body = lt.body
        CAN = ['*::Runner::can_sign_current_epoch']
        REG = ['*::Runner::register_signer_to_aggregator']
        ready = [bi for bi, b in enumerate(body.blocks) if not b.cleanup and any(rv[0] == 'agg' and rv[2] == ST and rv[4] == 'ReadyToSign' for (_, pl, rv) in b.stmts)]
        cans, cedges = ctx.success_edges_of(lt, CAN)
        # the bool payload: true arm
        true_edges = set()
        for l, (ty, nm) in enumerate(body.locals):
            if ty == 'bool':
                og = fn_origins(lt, l, 'adapters')
                if has(og, 'call:' + CAN[0]):
                    tr = track_result(body, l, +1, 'bool')
                    true_edges |= tr.success_edges
        problems = []
        if not ready:
            problems.append('no ReadyToSign construction')
        if not true_edges:
            problems.append('can_sign_current_epoch() is not branched on')
        elif any(b in body.reach([0], removed=true_edges) for b in ready):
            problems.append('ReadyToSign reachable without can_sign_current_epoch() == true')
        regs = ctx.call_sites(body, REG)
        hr = ctx.call_sites(body, [SM + 'handle_registration_result'])
        if not regs or not hr:
            problems.append('registration call / outcome handling missing')
        else:
            _, hedges = ctx.success_edges_of(lt, [SM + 'handle_registration_result'])
            if any(b in body.reach([0], removed=hedges) for b in ready):
                problems.append('ReadyToSign reachable without a handled registration outcome')
            if not all(any(has(fn_origins(lt, a_, True), 'call:' + REG[0]) for a_ in c.args) for c in hr):
                problems.append('the handled outcome is not the registration result')
            # the RegistrationRoundNotYetOpened outcome returns Unregistered: ReadyToSign unreachable from that arm (checked by construction sites)
        if problems:
            R.violation('c', 'R10', 'Unregistered -> ReadyToSign only after registration succeeded and can_sign_current_epoch() was true', 'unregistered:ready-guard',
                        '; '.join(problems), tr_.loc())
        else:
            R.ok('c', 'R10', 'Unregistered -> ReadyToSign only after registration succeeded and can_sign_current_epoch() was true', '', tr_.loc())
    cr = ctx.try_fn('c', SM + 'cycle_ready_to_sign')
    if cr is not None:
        lc = cr.logic()
        body = lc.body
        hec = ctx.call_sites(body, [SM + 'has_epoch_changed'])
        sign = ctx.call_sites(body, [SM + 'transition_from_ready_to_sign_to_ready_to_sign'])
        unreg = ctx.call_sites(body, [SM + 'transition_from_ready_to_sign_to_unregistered'])
        ok = bool(hec and sign and unreg)
        if ok:
            # the signing transition and the unregister transition are on different arms of the epoch status
            r_sign = set()
            for c in sign:
                r_sign |= {c.bb}
            ok = not any(c.bb in body.reach([s.bb]) or s.bb in body.reach([c.bb]) for c in unreg for s in sign)
            # both are after has_epoch_changed succeeded
            _, he = ctx.success_edges_of(lc, [SM + 'has_epoch_changed'])
            ok = ok and not any(c.bb in body.reach([0], removed=he) for c in sign + unreg)
        if ok:
            R.ok('c', 'R10', 'cycle_ready_to_sign: epoch change => Unregistered, otherwise (same epoch) sign', '', cr.loc())
        else:
            R.violation('c', 'R10', 'cycle_ready_to_sign: epoch change => Unregistered, otherwise (same epoch) sign', 'ready:epoch-change', '', cr.loc())
    he = ctx.try_fn('c', SM + 'has_epoch_changed')
    if he is not None:
        ctx.guard_gate('c', he, 'NewEpoch iff current epoch > state epoch',
                       lambda g: g.op in ('Gt', 'Ge', 'Lt', 'Le', 'Ne', 'Eq') and has(g.b_orig, 'p#2') and has(g.a_orig, 'call:*get_current_time_point*'),
                       {'lt', 'eq', 'gt'}, success='any', key='epoch-changed:guard') if False else None
        lh = he.logic()
        from engine import find_guards
        gs = [g for g in find_guards(lh.body) if g.op in ('Gt', 'Lt', 'Ne', 'Ge', 'Le') and has(g.a_orig | g.b_orig, 'p#2')]
        from engine import operand_shifted
        shifted = [operand_shifted(lh.body, g.a) or operand_shifted(lh.body, g.b) for g in gs]
        if gs and all(g.op in ('Gt', 'Lt', 'Ne') for g in gs) and not any(shifted):
            R.ok('c', 'R6', 'has_epoch_changed compares the chain epoch with the state epoch (strict)', '', he.loc())
        else:
            R.violation('c', 'R6', 'has_epoch_changed compares the chain epoch with the state epoch (strict)', 'epoch-changed:guard', 'ops %s shifted %s' % ([g.op for g in gs], shifted), he.loc())

    # ---- (d)
    try:
        rec = int(ws.const(EP + 'SIGNER_RECORDING_OFFSET')['bits'])
        ret = int(ws.const(EP + 'SIGNER_RETRIEVAL_OFFSET')['bits'])
        if ret >= 2 ** 63:
            ret -= 2 ** 64
        nxt = int(ws.const(EP + 'NEXT_SIGNER_RETRIEVAL_OFFSET')['bits'])
        sig = int(ws.const(EP + 'SIGNER_SIGNING_OFFSET')['bits'])
        if rec - ret == sig and nxt - ret == 1:
            R.ok('d', 'R13', 'RECORDING - RETRIEVAL = SIGNING offset and NEXT_RETRIEVAL - RETRIEVAL = 1', 'recording=%d retrieval=%d next=%d signing=%d' % (rec, ret, nxt, sig))
        else:
            R.violation('d', 'R13', 'RECORDING - RETRIEVAL = SIGNING offset and NEXT_RETRIEVAL - RETRIEVAL = 1', 'offsets:algebra',
                        'recording=%d retrieval=%d next=%d signing=%d' % (rec, ret, nxt, sig), None)
    except Exception as e:  # noqa
        R.missing('d', e)
    for fn, const in ((EP + 'offset_to_signer_retrieval_epoch', 'SIGNER_RETRIEVAL_OFFSET'), (EP + 'offset_to_next_signer_retrieval_epoch', 'NEXT_SIGNER_RETRIEVAL_OFFSET'),
                      (EP + 'offset_to_recording_epoch', 'SIGNER_RECORDING_OFFSET')):
        f = ctx.try_fn('d', fn)
        if f is None:
            continue
        used = set()
        for b in f.body.blocks:
            for (_, pl, rv) in b.stmts:
                for o in (rv[1:] if rv[0] in ('use', 'bin', 'cast') else []):
                    if isinstance(o, tuple) and o and o[0] == 'const' and 'OFFSET' in str(o[1]):
                        used.add(str(o[1]))
            if b.term[0] == 'call':
                for a in b.term[1].args:
                    if a[0] == 'const' and 'OFFSET' in str(a[1]):
                        used.add(str(a[1]))
        if any(const in u for u in used) and len(used) == 1:
            R.ok('d', 'R13', '%s applies %s' % (fn_short(fn), const), '', f.loc())
        else:
            R.violation('d', 'R13', '%s applies %s' % (fn_short(fn), const), 'offsets:%s' % fn_short(fn), 'constants used: %s' % sorted(used), f.loc())

    # ---- (e)
    sites = [
        ('<' + SG + 'runtime::runner::SignerRunner as ' + SG + 'runtime::runner::Runner>::register_signer_to_aggregator',
         ['*::ProtocolInitializerStorer::save_protocol_initializer'], 1, EP + 'offset_to_recording_epoch', 'signer saves the new initializer under the recording epoch'),
        ('<' + SG + 'services::epoch_service::MithrilEpochService as ' + SG + 'services::epoch_service::EpochService>::inform_epoch_settings',
         ['*::ProtocolInitializerStorer::get_protocol_initializer'], 1, EP + 'offset_to_signer_retrieval_epoch', 'signer signs with the initializer of the retrieval epoch'),
        ('<mithril_aggregator::runtime::runner::AggregatorRunner as mithril_aggregator::runtime::runner::AggregatorRunnerTrait>::open_signer_registration_round',
         ['*::SignerRegistrationRoundOpener::open_registration_round'], 1, EP + 'offset_to_recording_epoch', 'aggregator opens the round for the recording epoch'),
    ]
    # the message parts about the NEXT epoch are computed from the key material stored for the next retrieval epoch (seed C20-3: the next
    # protocol parameters were read at the current retrieval epoch, so every signature of an epoch in which parameters change was refused)
    SSB = '<' + SG + 'services::signable_builder::signable_seed_builder::SignerSignableSeedBuilder as mithril_common::signable_builder::interface::SignableSeedBuilder>::'
    for meth in ('compute_next_aggregate_verification_key_for_concatenation', 'compute_next_protocol_parameters'):
        sites.append((SSB + meth, ['*::ProtocolInitializerStorer::get_protocol_initializer'], 1, EP + 'offset_to_next_signer_retrieval_epoch',
                      'signer %s: initializer of the next retrieval epoch' % meth))
    for fn, callee, argi, off, what in sites:
        f = ctx.try_fn('e', fn)
        if f is None:
            continue
        lf = f.logic()
        # wherever under the entry the store / opener is called (the look-up may sit in an awaited helper), the epoch argument traced up to the entry
        cs = ctx.closure_sites(f, callee, depth=2)
        ogs = [ctx.deep(f, g_, c_.args[argi], True, up=2, depth=2) for g_, c_ in cs]
        others = [o for og_ in ogs for o in og_ if o.startswith('call:' + EP + 'offset_to_') and o != 'call:' + off]
        okk = bool(cs) and all(has(og_, 'call:' + off) for og_ in ogs) and not others
        if okk:
            R.ok('e', 'R5', what, '', f.loc())
        else:
            R.violation('e', 'R5', what, 'offset-site:%s' % fn_short(fn), 'call sites %d; epoch argument does not derive from %s' % (len(cs), fn_short(off)), f.loc())
    ae = [f for f in ws.find_all('<mithril_aggregator::services::epoch_service::MithrilEpochService as mithril_aggregator::services::epoch_service::EpochService>::inform_epoch')]
    if ae:
        f = ae[0]
        lf = f.logic()
        gsw = ctx.call_sites(lf.body, ['*::VerificationKeyStorer::get_signers', '*get_signers_with_stake_at_epoch*', '*::get_signers_with_stake*'])
        offs = {fn_short(c.best()) for g in lf.family() for c in g.body.calls() if 'offset_to_' in c.best()}
        need = {'Epoch::offset_to_signer_retrieval_epoch', 'Epoch::offset_to_next_signer_retrieval_epoch'}
        if need <= offs:
            R.ok('e', 'R5', 'aggregator inform_epoch: current signers <- retrieval epoch, next signers <- next retrieval epoch', str(sorted(offs)), f.loc())
        else:
            R.violation('e', 'R5', 'aggregator inform_epoch: current signers <- retrieval epoch, next signers <- next retrieval epoch', 'offset-site:aggregator-inform-epoch', str(sorted(offs)), f.loc())


def _round2_rules(ctx):
    R = ctx.report
    REGF = '<' + SG + 'runtime::runner::SignerRunner as ' + SG + 'runtime::runner::Runner>::register_signer_to_aggregator'
    # the key material is stored only once the aggregator has accepted the registration (seed C20-4: stored first, a refused / failed
    # registration left keys the aggregator never received, and every retry skipped the registration)
    rf = ctx.try_fn('c', REGF)
    if rf is not None:
        ctx.order('c', rf, ('register_signer', ['*::SignerRegistrationPublisher::register_signer']),
                  ('save_protocol_initializer', ['*::ProtocolInitializerStorer::save_protocol_initializer']))
    # the beacon is computed for the time point on which the state machine decided that the epoch has not changed (seed C20-5: the runner
    # re-read the ticker, so a beacon of the next epoch could be signed with the keys of the current one and be marked as signed)
    GB = '<' + SG + 'runtime::runner::SignerRunner as ' + SG + 'runtime::runner::Runner>::get_beacon_to_sign'
    gf = ctx.try_fn('c', GB)
    if gf is not None:
        ctx.sink_arg('c', gf.name, ['*::CertifierService::get_beacon_to_sign'], 1, require=['p#2'],
                     forbid=['call:*::TickerService::get_current_time_point', 'call:*::Runner::get_current_time_point', 'call:*get_current_time_point*'],
                     desc='(time point) <- the time point handed in by the state machine, not a fresh read of the chain', depth=2, key='beacon:time-point')
    cyc = ctx.try_fn('c', SM + 'cycle_ready_to_sign')
    if cyc is not None:
        # ... and that is the time point has_epoch_changed was evaluated on
        lc = cyc.logic()
        gb_sites = ctx.closure_sites(cyc, ['*::Runner::get_beacon_to_sign'], depth=2)
        tps = ctx.closure_sites(cyc, ['*::Runner::get_current_time_point'], depth=2)
        inst = 'cycle_ready_to_sign: the beacon is asked for the time point the epoch-change test looked at (one read of the chain per cycle)'
        if gb_sites and len(tps) == 1:
            R.ok('c', 'R5', inst, '', cyc.loc())
        elif gb_sites and tps:
            R.violation('c', 'R5', inst, 'cycle:one-time-point', 'the chain is read %d times in the cycle' % len(tps), cyc.loc())
        else:
            R.info('c', 'cycle_ready_to_sign: beacon / time point sites not found in this layout')


# ---------------------------------------------------------------- added after seeds C20-1 / C20-2: epoch ROLES
SM = 'mithril_signer::runtime::state_machine::StateMachine::'
SES = '<mithril_signer::services::epoch_service::MithrilEpochService as mithril_signer::services::epoch_service::EpochService>::inform_epoch_settings'
ED = 'mithril_signer::services::epoch_service::EpochData'


def _role_rules(ctx):
    from props.common import deep_origins
    R = ctx.report
    ws = ctx.ws
    R.clause('f', 'each epoch-dependent input is taken in its own role (node epoch vs aggregator epoch; registration vs aggregation configuration)')
    # f1: the signer's EpochData, field by field
    f = ctx.try_fn('f', SES)
    if f is not None:
        lf = f.logic()
        try:
            adt = ws.adt(ED)
            fields = [fd['n'] for fd in adt['variants'][0]['fields']]
        except Exception as e:  # noqa
            R.missing('f', e)
            fields = None
        NC = 'pty:MithrilNetworkConfiguration.'
        roles = {
            'epoch': (['lty:RegisteredSigners.epoch'], ['call:*get_current_time_point*']),
            'registration_protocol_parameters': ([NC + 'configuration_for_registration.protocol_parameters*'],
                                                 [NC + 'configuration_for_aggregation*', NC + 'configuration_for_next_aggregation*']),
            'allowed_discriminants': ([NC + 'configuration_for_aggregation.enabled_signed_entity_types*'],
                                      [NC + 'configuration_for_registration*', NC + 'configuration_for_next_aggregation*']),
            'cardano_transactions_signing_config': ([NC + 'configuration_for_aggregation.signed_entity_types_config*'],
                                                    [NC + 'configuration_for_registration*', NC + 'configuration_for_next_aggregation*']),
            'cardano_blocks_transactions_signing_config': ([NC + 'configuration_for_aggregation.signed_entity_types_config*'],
                                                           [NC + 'configuration_for_registration*', NC + 'configuration_for_next_aggregation*']),
            'current_signers': (['lty:RegisteredSigners.current_signers'], ['lty:RegisteredSigners.next_signers']),
            'next_signers': (['lty:RegisteredSigners.next_signers'], ['lty:RegisteredSigners.current_signers']),
        }
        aggs = []
        for g in lf.family():
            for b in g.body.blocks:
                if b.cleanup:
                    continue
                for (ln, pl, rv) in b.stmts:
                    if rv[0] == 'agg' and rv[2] == ED:
                        aggs.append((g, rv, ln))
        if fields is not None:
            if not aggs:
                R.violation('f', 'R5', 'signer inform_epoch_settings: EpochData built from the settings', 'epoch_data:built', 'no EpochData construction', f.loc())
            else:
                R.ok('f', 'R5', 'signer inform_epoch_settings: EpochData built from the settings', '%d construction site(s)' % len(aggs), f.loc())
            for g, rv, ln in aggs:
                for name, (req, forb) in roles.items():
                    if name not in fields:
                        R.missing('f', 'EpochData has no field %s' % name)
                        continue
                    # traced through the runner and the state machine up to where the values were fetched (rename / parameter-order proof)
                    og = deep_origins(ws, g, rv[5][fields.index(name)], True, depth=4)
                    miss = [r for r in req if not has(og, r)]
                    bad = sorted(o for o in og if any(glob_match(x, o) for x in forb))
                    inst = 'signer EpochData.%s <- %s' % (name, req[0].replace('pty:MithrilNetworkConfiguration.', '').replace('lty:', 'fetched ').rstrip('*'))
                    if miss or bad:
                        R.violation('f', 'R5', inst, 'epoch_data:%s' % name, 'missing %s, taken from another role %s' % (miss, bad[:3]), f.loc())
                    else:
                        R.ok('f', 'R5', inst, '', f.loc())
    # f2: node epoch vs aggregator epoch wherever the runner is told to refresh the stake distribution / the epoch settings
    lib = [x for x in ws.fns if x.unit.crate == 'mithril_signer' and x.unit.tag == 'lib' and x.root().name.startswith(SM)]
    for pat, argi, req, forb, what in (
            ('*::Runner::update_stake_distribution', 1, ['call:*get_current_time_point*'], ['lty:RegisteredSigners.*'],
             'update_stake_distribution(epoch): the node\'s current time point, never the aggregator\'s registration epoch'),
            ('*::Runner::inform_epoch_settings', 1, ['lty:RegisteredSigners.epoch'], ['call:*get_current_time_point*'],
             'inform_epoch_settings(epoch): the aggregator\'s registration epoch'),
            ('*::Runner::inform_epoch_settings', 2, ['call:*get_mithril_network_configuration*'], [],
             'inform_epoch_settings(configuration): the fetched network configuration')):
        sites = [(g, c) for g in lib for c in g.body.calls() if any(glob_match(pat, n) for n in c.names())]
        inst = 'signer state machine: ' + what
        if not sites:
            R.violation('f', 'R5', inst, 'role:%s#%d' % (pat.rsplit('::', 1)[-1], argi), 'no call site in the state machine', None)
            continue
        bad = []
        for g, c in sites:
            og = deep_origins(ws, g, c.args[argi], True, depth=3)
            miss = [r for r in req if not has(og, r)]
            hit = sorted(o for o in og if any(glob_match(x, o) for x in forb))
            if miss or hit:
                bad.append('line %s: missing %s, other role %s' % (c.line, miss, hit[:2]))
        if bad:
            R.violation('f', 'R5', inst, 'role:%s#%d' % (pat.rsplit('::', 1)[-1], argi), '; '.join(bad[:3]), sites[0][0].loc())
        else:
            R.ok('f', 'R5', inst, '%d site(s)' % len(sites), sites[0][0].loc())


_run_c20 = run


def run(ctx):  # noqa: F811
    _run_c20(ctx)
    _role_rules(ctx)
    _round2_rules(ctx)
