"""C12 - the database digest is a function of the covered files (DESIGN.md section 4, C12)."""
from core import glob_match, rvalue_reads
from engine import Sink, fn_origins, find_guards, track_result, success_reachable, CMP_REL, ALL3
from props.common import Ctx, fn_short, between  # noqa: F401

EXPLANATION = (
    'Static rules over mithril-cardano-node-internal-database: (a) leaf order is canonical - the digests form a '
    'BTreeMap<ImmutableFile,_> whose into_values() feed MKTree::new, Ord for ImmutableFile reads number then path, the '
    'listing sorts; (b) only immutable files numbered <= beacon are covered and the beacon file must exist (filter '
    'direction and the last.number < beacon => error guard); (c) a digest is either the cache entry of that very file '
    'or computed from the file\'s bytes - keyed by the same entry; (d) cache failures never change the result (get Err => '
    'all-None map; store Err => log only); (e) the value flowing into the tree has no clock / RNG / hash-iteration '
    'dependence. Does not decide byte sensitivity (hash) nor real directory layouts.')

ASSUMPTIONS = ['SHA-256; walkdir lists the directory; cache entries are correct for unchanged files (outside the property)']

D = 'mithril_cardano_node_internal_database::'
DIG = '<' + D + 'digesters::cardano_immutable_digester::CardanoImmutableDigester as ' + D + 'digesters::immutable_digester::ImmutableDigester>::'
CMT = DIG + 'compute_merkle_tree'
LIST = D + 'digesters::cardano_immutable_digester::list_immutable_files_to_process'
CID = D + 'digesters::immutable_digester::ComputedImmutablesDigests::compute_immutables_digests'
IMF = D + 'entities::immutable_file::ImmutableFile'
FETCH = D + 'digesters::cardano_immutable_digester::CardanoImmutableDigester::fetch_immutables_cached'
UPD = D + 'digesters::cardano_immutable_digester::CardanoImmutableDigester::update_cache'


POSITIONAL = ['*::Iterator::zip', '*::Iterator::unzip', '*::Iterator::nth', '*itertools*::zip*', '*itertools*::multiunzip', '*itertools*::izip*']


def _base_fields(body, operand, depth=5):
    """(local, field) pairs an operand is a (reference chain to a) field of."""
    out = set()
    if operand[0] not in ('copy', 'move') or depth == 0:
        return out
    l, proj = operand[1]
    for pe in proj:
        if isinstance(pe, tuple) and pe[0] == 'f':
            out.add((l, pe[2]))
    for (bi, si, pl, rv) in body.defs(l):
        if si == 't' or pl[1]:
            continue
        if rv[0] in ('ref', 'cfd', 'ptr'):
            for pe in rv[1][1]:
                if isinstance(pe, tuple) and pe[0] == 'f':
                    out.add((rv[1][0], pe[2]))
            out |= _base_fields(body, ('copy', (rv[1][0], ())), depth - 1)
        elif rv[0] == 'use':
            out |= _base_fields(body, rv[1], depth - 1)
    return out


def _reads_field(body, operand, field, depth=6):
    """operand is (a clone / copy / reference of) a `.field` of something"""
    if depth == 0 or operand[0] not in ('copy', 'move'):
        return False
    if any(f == field for (_, f) in _base_fields(body, operand)):
        return True
    for (bi, si, pl, rv) in body.defs(operand[1][0]):
        if si == 't' and not isinstance(rv, tuple):
            if any(n.endswith('::clone') or n.endswith('::to_owned') or n.endswith('::to_string') or n.endswith('::deref') for n in rv.names()) and rv.args:
                if _reads_field(body, rv.args[0], field, depth - 1):
                    return True
        elif si != 't' and rv[0] == 'use':
            if _reads_field(body, rv[1], field, depth - 1):
                return True
    return False


def has(og, pat):
    # a field path under the named origin also counts (getters spliced by the inliner make origins more precise)
    return any(glob_match(pat, o) or (pat[-1] != '*' and glob_match(pat + '.*', o)) for o in og)


def run(ctx):
    R = ctx.report
    ws = ctx.ws
    R.clause('a', 'leaf order is canonical')
    R.clause('b', 'only immutable files up to the beacon are covered, and the beacon file must exist')
    R.clause('c', 'a digest is the cache entry of that file or computed from that file\'s bytes')
    R.clause('d', 'cache failures never change the result')
    R.clause('e', 'no clock / RNG / hash-iteration dependence of the value')

    # ---- (a)
    try:
        adt = ws.adt(D + 'digesters::immutable_digester::ComputedImmutablesDigests')
        ty = [fd['ty'] for fd in adt['variants'][0]['fields'] if fd['n'] == 'entries'][0]
        if ty.startswith('std::collections::btree::map::BTreeMap<' + IMF):
            R.ok('a', 'R5', 'ComputedImmutablesDigests.entries is a BTreeMap keyed by ImmutableFile', ty[:90])
        else:
            R.violation('a', 'R5', 'ComputedImmutablesDigests.entries is a BTreeMap keyed by ImmutableFile', 'digests:entries-type', ty, None)
    except Exception as e:  # noqa
        R.missing('a', e)
    f = ctx.try_fn('a', CMT)
    if f is not None:
        # layout independent: wherever the tree is built under compute_merkle_tree, its leaves are the values of the ordered digest
        # map in key order, the digests were computed for the files the beacon-bounded listing returned
        TREE = ['mithril_merkle_tree::merkle_tree::MKTree::new', 'mithril_merkle_tree::merkle_tree::MKTree::new_from_iter']
        ctx.sink_arg('a', CMT, TREE, 0, require=['call:std::collections::btree::map::BTreeMap::into_values'], require_via=[CID],
                     desc='(leaves) <- computed digests in key order')
        under_list = {id(x) for x in ctx.closure_fns(LIST)}
        bad = []
        for raw in ctx.closure_fns(CMT):
            if id(raw) in under_list or raw.unit.crate != f.unit.crate:
                continue
            for h in raw.family():
                bad += [n for (cal, res, _l) in h.calls for n in (cal, res) if n and (glob_match('*::sort*', n) or glob_match('*::reverse', n) or
                                                                                      glob_match('*::shuffle*', n) or glob_match('*::dedup*', n))]
        if bad:
            R.violation('a', 'R5', 'compute_merkle_tree does not reorder the digests', 'merkle_tree:reorder', str(sorted(set(bad))[:4]), f.loc())
        else:
            R.ok('a', 'R5', 'compute_merkle_tree does not reorder the digests', '', f.loc())
        ctx.r1('a', CMT, Sink('list_immutable_files_to_process', LIST, 'ok'))
        ctx.sink_arg('a', CMT, LIST, 1, require=['pty:CardanoDbBeacon.immutable_file_number'], desc='(up to) <- beacon.immutable_file_number', depth=3)
        ctx.sink_arg('a', CMT, LIST, 0, require=['p#2'], desc='(dir) <- dirpath', depth=3)
        ctx.sink_arg('a', CMT, CID, 0, require_via=[LIST], desc='(files to digest) <- the listed files', depth=4)
    cmpf = ctx.try_fn('a', '<' + IMF + ' as std::cmp::Ord>::cmp')
    if cmpf is not None:
        rd = set()
        for b in cmpf.body.blocks:
            for (_, pl, rv) in b.stmts:
                for (l, place) in rvalue_reads(rv):
                    for pe in place[1]:
                        if isinstance(pe, tuple) and pe[0] == 'f' and pe[3] == IMF:
                            rd.add(pe[2])
        # number compared first
        calls = [c for c in cmpf.body.calls() if c.best().endswith('::cmp')]
        first_is_number = bool(calls) and has(fn_origins(cmpf, calls[0].args[0], True), 'pty:ImmutableFile.number')
        if rd == {'number', 'path'} and first_is_number:
            R.ok('a', 'R4', 'Ord for ImmutableFile: number first, then path', '', cmpf.loc())
        else:
            R.violation('a', 'R4', 'Ord for ImmutableFile: number first, then path', 'immutable_file:ord', 'fields %s, number first: %s' % (sorted(rd), first_is_number), cmpf.loc())
    la = ctx.try_fn('a', IMF + '::list_all_in_dir')
    if la is not None:
        if any(glob_match('*::sort', n) or glob_match('*::sort_unstable', n) for c in la.body.calls() for n in c.names()):
            R.ok('a', 'R5', 'list_all_in_dir sorts the files (independent of directory order)', '', la.loc())
        else:
            R.violation('a', 'R5', 'list_all_in_dir sorts the files (independent of directory order)', 'list_all:sort', '', la.loc())

    # ---- (b)
    lf_ = ctx.try_fn('b', LIST)
    if lf_ is not None:
        # filter closure: f.number <= up_to
        ok = False
        for g in lf_.family():
            if g is lf_:
                continue
            for gg in find_guards(g.body):
                pass
            for b in g.body.blocks:
                for (_, pl, rv) in b.stmts:
                    if rv[0] == 'bin' and rv[1] in ('Le', 'Ge', 'Lt', 'Gt'):
                        oa = fn_origins(g, rv[2], True)
                        ob = fn_origins(g, rv[3], True)
                        if rv[1] == 'Le' and has(oa, '*number*') and has(ob, 'p#2'):
                            ok = True
                        if rv[1] == 'Ge' and has(ob, '*number*') and has(oa, 'p#2'):
                            ok = True
        if ok:
            R.ok('b', 'R6', 'list_immutable_files_to_process keeps files with number <= beacon', '', lf_.loc())
        else:
            R.violation('b', 'R6', 'list_immutable_files_to_process keeps files with number <= beacon', 'list:filter', 'no `number <= up_to` filter', lf_.loc())
        ctx.guard_gate('b', lf_, 'last listed number >= beacon (the beacon file exists)',
                       between(['call:*::last'], ['p#2']),
                       {'eq', 'gt'}, key='list:beacon-exists')
        ctx.arg_origin('b', lf_, IMF + '::list_all_in_dir', 0, require=['p#1'], desc='(dir) <- dirpath')
        # files beyond the beacon decide nothing: the beacon-exists test and the returned list both look at the FILTERED listing
        # (added after seed C12-4: the test was made on the raw listing, so a missing beacon trio went unnoticed whenever later files existed)
        from engine import loop_info
        FILT = ('*Iterator>::filter', '*Iterator::filter', '*::retain', '*::take_while', '*::filter_map', '*::partition', '*::split_off', '*::truncate',
                '*::range', '*::drain', '*::extract_if', '*::skip_while', '*::partition_point', '*::binary_search*')
        PASS = ('*Try>::branch', '*::into_iter', '*::iter', '*::deref', '*::as_slice', '*::as_ref', '*::borrow', '*::clone', '*::map_err', '*::with_context',
                '*::context', '*::to_vec', '*::to_owned', '*Iterator>::next', '*::rev', '*::by_ref', '*::peekable', '*::copied', '*::cloned', '*::unwrap*',
                '*::expect', '*::sort*', '*::collect', '*Iterator>::map', '*::enumerate', '*::inspect', '*::into', '*::from',
                '*::deref_mut', '*::as_mut_slice', '*::iter_mut', '*::as_mut')
        body = lf_.body
        srcs = [c for c in body.calls() if any(glob_match('*::list_all_in_dir', n) for n in c.names())]
        tainted = {c.dest[0] for c in srcs}
        # filters applied IN PLACE (`v.retain(..)`, `v.truncate(..)`): the local is the unfiltered listing only on the way to that call
        INPLACE = ('*::retain', '*::retain_mut', '*::truncate', '*::drain', '*::dedup*', '*::split_off')
        pre_blocks = {}
        for c in body.calls():
            if any(glob_match(q, n) for q in INPLACE for n in c.names()) and c.args and c.args[0][0] in ('copy', 'move') and c.target is not None:
                base = set()
                for (bi_, si_, pl_, rv_) in body.defs(c.args[0][1][0]):
                    if si_ != 't' and rv_[0] == 'ref' and rv_[2]:
                        base.add(rv_[1][0])
                before = body.reach([0], removed={(c.bb, c.target)})
                for l_ in base:
                    pre_blocks[l_] = (pre_blocks[l_] & before) if l_ in pre_blocks else set(before)

        def live(l_, bi_):
            return l_ in tainted and (l_ not in pre_blocks or bi_ in pre_blocks[l_])
        raw = []          # (what, line)
        filters = 0
        changed = True
        seen_calls = set()
        while changed:
            changed = False
            for bi, b in enumerate(body.blocks):
                if b.cleanup:
                    continue
                for (ln, pl, rv) in b.stmts:
                    reads = [l for l, _ in rvalue_reads(rv)]
                    if not any(live(l, bi) for l in reads):
                        continue
                    if rv[0] == 'bin' and rv[1] in ('Lt', 'Le', 'Gt', 'Ge', 'Eq', 'Ne'):
                        other = [o for o in (rv[2], rv[3]) if not (o[0] in ('copy', 'move') and o[1][0] in tainted)]
                        in_loop = bool(loop_info(body, bi))
                        if in_loop and any(has(fn_origins(lf_, o, True), 'p#2') for o in other):
                            continue        # the loop form of the filter itself
                        if ('cmp', ln) not in seen_calls:
                            seen_calls.add(('cmp', ln))
                            raw.append(('a comparison', ln))
                        continue
                    if pl[0] == 0:
                        if ('ret', ln) not in seen_calls:
                            seen_calls.add(('ret', ln))
                            raw.append(('the returned value', ln))
                        continue
                    if pl[0] not in tainted:
                        tainted.add(pl[0])
                        changed = True
                t = b.term
                if t[0] != 'call':
                    continue
                c = t[1]
                if not any(a_[0] in ('copy', 'move') and live(a_[1][0], bi) for a_ in c.args):
                    continue
                names = c.names()
                if any(glob_match(q, n) for q in FILT for n in names):
                    if id(c) not in seen_calls:
                        seen_calls.add(id(c))
                        filters += 1
                    continue
                in_loop_push = any(glob_match(q, n) for q in ('*::push', '*::insert', '*::extend', '*::push_back') for n in names) and loop_info(body, c.bb) and \
                    any(has(g_.a_orig | g_.b_orig, 'p#2') for g_ in find_guards(body) if loop_info(body, g_.bb))
                if in_loop_push:
                    if id(c) not in seen_calls:
                        seen_calls.add(id(c))
                        filters += 1
                    continue
                if any(glob_match('*FromResidual*::from_residual', n) for n in names):
                    continue        # the error arm of `?` carries the error, not the listing
                if any(glob_match(q, n) for q in PASS for n in names):
                    if c.dest[0] not in tainted:
                        tainted.add(c.dest[0])
                        changed = True
                    continue
                if id(c) not in seen_calls:
                    seen_calls.add(id(c))
                    raw.append((fn_short(c.best()), c.line))
        inst = 'list_immutable_files_to_process: the listing is consumed only through the beacon filter (files beyond the beacon decide nothing)'
        if srcs and filters and not raw:
            R.ok('b', 'R7', inst, '%d listing call(s), %d filter site(s)' % (len(srcs), filters), lf_.loc())
        else:
            R.violation('b', 'R7', inst, 'list:beyond-beacon', 'listing calls %d, beacon filters reached %d, uses of the UNFILTERED listing: %s - the outcome then depends on files '
                        'beyond the beacon' % (len(srcs), filters, ['%s (line %s)' % r_ for r_ in raw][:4]), lf_.loc())


    # the listing looks at the direct children of the immutable directory only
    la2 = ctx.try_fn('b', IMF + '::list_all_in_dir')
    if la2 is not None:
        inst = 'list_all_in_dir: only direct children of the immutable directory become immutable files (walker depth bounded to 1)'
        news = [c for c in la2.body.calls() if any(glob_match(IMF + '::new', n) for n in c.names())]
        feeders = set()
        for c in news:
            for o in fn_origins(la2, c.args[0], 'adapters'):
                if o.startswith('call:'):
                    feeders.add(o[5:])
        # ... or in a closure applied to the walker's entries (`walker.map(|e| ImmutableFile::new(e.into_path()))`)
        for g in la2.family():
            if g is la2:
                continue
            for c in g.body.calls():
                if any(glob_match(IMF + '::new', n) for n in c.names()):
                    news.append(c)
                    for o in fn_origins(g, c.args[0], True):
                        if o.startswith('call:'):
                            feeders.add(o[5:])
        # `entries.map(ImmutableFile::new)`: the constructor handed over as a function item, applied to the receiver's elements
        for g in la2.family():
            for c in g.body.calls():
                if any(a[0] == 'fn' and glob_match(IMF + '::new', a[1]) for a in c.args[1:]) and c.args:
                    news.append(c)
                    for o in fn_origins(g, c.args[0], True):
                        if o.startswith('call:'):
                            feeders.add(o[5:])
        work = [la2] + [f for n in feeders for f in ws.find_all(n) if f.unit.crate == la2.unit.crate]
        walkers, bounded, readdir = [], [], []
        for f in work:
            for g in f.family():
                body = g.body
                for c in body.calls():
                    if any(glob_match('walkdir::WalkDir::new', n) for n in c.names()):
                        if f is la2 and not any(has(fn_origins(la2, n2.args[0], 'adapters'), 'call:walkdir::WalkDir::new') for n2 in news):
                            continue
                        walkers.append((g, c))
                    if any(glob_match('walkdir::WalkDir::max_depth', n) for n in c.names()) and body.const_of(c.args[1]) == 1:
                        bounded.append((g, c))
                    if any(glob_match('std::fs::read_dir', n) or glob_match('tokio::fs::read_dir', n) for n in c.names()):
                        readdir.append((g, c))
        # a walker whose result only becomes the ROOT of another walker is the directory finder, not the lister
        root_feeders = set()
        for g, c in walkers:
            og = fn_origins(g, c.args[0], 'adapters')
            root_feeders |= {o[5:] for o in og if o.startswith('call:')}
            params = sorted({int(o[2:].split('.')[0]) for o in og if o.startswith('p#') and o[2:].split('.')[0].isdigit()})
            rf = g.root()
            for site in la2.body.calls():
                if rf.name in site.names():
                    for k in params:
                        if 0 < k <= len(site.args):
                            root_feeders |= {o[5:] for o in fn_origins(la2, site.args[k - 1], 'adapters') if o.startswith('call:')}
        walkers = [(g, c) for g, c in walkers if g.root().name not in root_feeders] or walkers
        # (helper-spliced form: both walkers sit in one body - the lister is the one whose root comes out of the other)
        inner = [(g, c) for g, c in walkers if has(fn_origins(g, c.args[0], True), 'call:walkdir::WalkDir::new')]
        if inner and len(inner) < len(walkers):
            walkers = inner
        unb = [c for g, c in walkers if not any(g2 is g and has(fn_origins(g2, c2.args[0], True), 'call:walkdir::WalkDir::new') for g2, c2 in bounded)]
        if not news or (not walkers and not readdir):
            R.missing('b', 'list_all_in_dir: no directory walker (walkdir / read_dir) found feeding ImmutableFile::new')
        elif unb:
            R.violation('b', 'R13', inst, 'list_all:depth', 'WalkDir::new at line %s is not bounded by max_depth(1): files in sub-directories of immutable/ named like '
                        'immutable files would be digested' % [c.line for c in unb], la2.loc())
        else:
            R.ok('b', 'R13', inst, '%d walker(s), %d read_dir' % (len(walkers), len(readdir)), la2.loc())
    # ---- (c)
    cf = ctx.try_fn('c', CID)
    if cf is not None:
        body = cf.body
        ins = [c for c in body.calls() if any(glob_match('std::collections::btree::map::BTreeMap::insert', n) for n in c.names())]
        hs = [c for c in body.calls() if any(glob_match(IMF + '::compute_raw_hash', n) for n in c.names())]
        ok = bool(ins) and bool(hs)
        for c in ins:
            k = fn_origins(cf, c.args[1], 'adapters')
            v = fn_origins(cf, c.args[2], True)
            # key and hashed file are the same loop entry; value from the cache option of that entry or from its hash
            if not (has(v, 'call:' + IMF + '::compute_raw_hash') and has(v, 'p#1')):
                ok = False
        for c in hs:
            if not has(fn_origins(cf, c.args[0], True), 'p#1'):
                ok = False
        # same entry: the local hashed == the local inserted as key
        same = False
        for c in ins:
            for h in hs:
                ka = c.args[1]
                ha = h.args[0]
                from props.c10 import _root_locals
                if _root_locals(body, ka) & _root_locals(body, ha):
                    same = True
        if ok and same:
            R.ok('c', 'R5', 'compute_immutables_digests: digests[entry] = cache[entry] or hash(entry file)', '', cf.loc())
        else:
            R.violation('c', 'R5', 'compute_immutables_digests: digests[entry] = cache[entry] or hash(entry file)', 'digests:per-entry',
                        'value origin ok: %s; hashed entry is the inserted key: %s' % (ok, same), cf.loc())
        # every entry gets a digest: the insert is passed on every iteration
        ctx.r1('c', CID, Sink('compute_raw_hash (io error propagates)', IMF + '::compute_raw_hash', 'ok', per_item=True)) if False else None

    # cache write-back: every (file name, digest) pair stored is built from ONE entry of `entries`
    uf0 = ctx.try_fn('c', UPD)
    if uf0 is not None:
        inst = 'update_cache: each stored (file name, digest) pair comes from one entry of entries (no positional re-pairing)'
        pairs = []
        rep = []
        stores = []
        closure_form = False
        for g in uf0.logic().family():
            for c in g.body.calls():
                if any(glob_match(pt, n) for n in c.names() for pt in POSITIONAL):
                    rep.append('%s:%d' % (fn_short(c.best()), c.line))
                if any(glob_match('*::ImmutableFileDigestCacheProvider::store', n) for n in c.names()):
                    stores.append((g, c))
            for b in g.body.blocks:
                if b.cleanup:
                    continue
                for (_, pl, rv) in b.stmts:
                    if rv[0] == 'agg' and rv[1] == 'tuple' and len(rv[5]) == 2 and g.body.lty(pl[0]).startswith('(std::string::String, std::string::String)'):
                        o1 = fn_origins(g, rv[5][0], 'adapters')
                        o2 = fn_origins(g, rv[5][1], 'adapters')
                        e1 = {o.split('.')[0] for o in o1 if o.startswith('clarg#') or o.startswith('call:') and o.endswith('::next')}
                        e2 = {o.split('.')[0] for o in o2 if o.startswith('clarg#') or o.startswith('call:') and o.endswith('::next')}
                        from_entries = has(o1, 'pty:ComputedImmutablesDigests.entries') and has(o2, 'pty:ComputedImmutablesDigests.entries')
                        in_closure = any(o.startswith('clarg#') for o in e1 & e2)
                        pairs.append(bool(e1 & e2) and (from_entries or in_closure) and _reads_field(g.body, rv[5][0], 'filename'))
                        closure_form = closure_form or (in_closure and not from_entries)
        # closure form: the iterator the pair-building closure is mapped over derives from `entries`
        src_ok = bool(pairs) and all(pairs) and (not closure_form or any(
            has(fn_origins(g, c.args[1], True), 'pty:ComputedImmutablesDigests.entries') for g, c in stores))
        if stores and pairs and all(pairs) and not rep and src_ok:
            R.ok('c', 'R5', inst, '%d pair builder(s)' % len(pairs), uf0.loc())
        else:
            R.violation('c', 'R5', inst, 'update_cache:pairing',
                        'store sites %d, per-entry pair builders %s, pairs built from entries: %s, positional adapters %s: a name stored with '
                        'another file\'s digest poisons every later computation over the same files' % (len(stores), pairs, src_ok, rep[:4]), uf0.loc())
    # cache read: the value returned for a file is looked up under that file's own name
    gets_impl = [f for f in ws.find_all('<* as ' + D + 'digesters::cache::provider::ImmutableFileDigestCacheProvider>::get') if f.unit.tag == 'lib']
    if not gets_impl:
        R.missing('c', 'no implementation of ImmutableFileDigestCacheProvider::get found')
    for gi in gets_impl:
        lg = gi.logic()
        body = lg.body
        from props.c10 import _root_locals
        ins = [c for c in body.calls() if any(glob_match('std::collections::btree::map::BTreeMap::insert', n) for n in c.names())]
        okp = bool(ins)
        for c in ins:
            kroots = _root_locals(body, c.args[1])
            vo = fn_origins(lg, c.args[2], True)
            good = False
            for lk in body.calls():
                if lk is c or not any(('call:' + n) in vo for n in lk.names()):
                    continue
                for a in lk.args:
                    if any(l in kroots and fld == 'filename' for (l, fld) in _base_fields(body, a)):
                        good = True
            if not good:
                okp = False
        inst = '%s: the digest returned for a file is the cache entry stored under that file\'s own name' % fn_short(gi.name)
        if okp:
            R.ok('c', 'R5', inst, '', gi.loc())
        else:
            R.violation('c', 'R5', inst, 'cache_get:%s' % fn_short(gi.name).split(' ')[0], 'inserted key and looked-up file name are not the same loop item', gi.loc())
    rh = ctx.try_fn('c', IMF + '::compute_raw_hash')
    if rh is not None:
        op = [c for c in rh.body.calls() if any(glob_match('std::fs::File::open', n) or glob_match('std::fs::*::open', n) for n in c.names())]
        if op and all(has(fn_origins(rh, c.args[0], True), 'pty:ImmutableFile.path') for c in op):
            R.ok('c', 'R5', 'compute_raw_hash reads the file at self.path', '', rh.loc())
        else:
            R.violation('c', 'R5', 'compute_raw_hash reads the file at self.path', 'raw_hash:path', '', rh.loc())

    # ---- (d)
    ff = ctx.try_fn('d', FETCH)
    if ff is not None:
        lf2 = ff.logic()
        body = lf2.body
        gets = [c for c in body.calls() if any(glob_match('*::ImmutableFileDigestCacheProvider::get', n) for n in c.names())]
        # no failure return in a fn that returns a plain map: check the Err arm builds the all-None map from the same files
        fallback = 0
        for g in lf2.family():
            for b in g.body.blocks:
                for (_, pl, rv) in b.stmts:
                    if rv[0] == 'agg' and rv[1] == 'tuple' and len(rv[5]) == 2:
                        # (file, None)
                        o1 = rv[5][1]
                        if o1[0] in ('copy', 'move'):
                            for (bi, si, pl2, rv2) in g.body.defs(o1[1][0]):
                                if si != 't' and rv2[0] == 'agg' and rv2[2] == 'std::option::Option' and rv2[4] == 'None':
                                    fallback += 1
        ret_is_map = lf2.ret.startswith('std::collections::btree::map::BTreeMap<')
        # every map the function can return is keyed by the requested files: it derives from the `immutables` argument (directly, or
        # as the provider's answer to it) - an empty / unrelated map on some path would silently drop files from the digest
        carriers = body.ret_carriers()
        unrelated = []
        for l in carriers:
            for (bi, si, pl2, rv2) in body.defs(l):
                if pl2[1] or bi not in body.live():
                    continue
                if si == 't':
                    if isinstance(rv2, tuple):
                        continue
                    og_ = set()
                    for a_ in rv2.args:
                        og_ |= fn_origins(lf2, a_, True)
                    og_.add('call:' + rv2.best())
                elif rv2[0] == 'use' and rv2[1][0] in ('copy', 'move') and rv2[1][1][0] in carriers:
                    continue
                else:
                    og_ = set()
                    for (l_, place_) in rvalue_reads(rv2):
                        og_ |= fn_origins(lf2, ('copy', place_), True)
                if not (has(og_, 'p#2') or has(og_, 'call:*ImmutableFileDigestCacheProvider::get')):
                    unrelated.append('bb%d' % bi)
        if unrelated:
            fallback = 0
        if gets and fallback >= 1 and ret_is_map:
            R.ok('d', 'R1', 'fetch_immutables_cached: infallible; a cache read error falls back to the all-None map', '%d fallback builders' % fallback, ff.loc())
        else:
            R.violation('d', 'R1', 'fetch_immutables_cached: infallible; a cache read error falls back to the all-None map', 'fetch:fallback',
                        'cache get sites %d, (file, None) builders %d, returns a map: %s, returned maps not derived from the requested files: %s' % (len(gets), fallback, ret_is_map, unrelated), ff.loc())
    uf = ctx.try_fn('d', UPD)
    if uf is not None:
        lu = uf.logic()
        if lu.ret in ('()',):
            R.ok('d', 'R1', 'update_cache returns (): a cache write error cannot change the result', '', uf.loc())
        else:
            R.violation('d', 'R1', 'update_cache returns (): a cache write error cannot change the result', 'update_cache:unit', lu.ret, uf.loc())

    # ---- (e)
    seen = {}
    work = [x for x in (ctx.try_fn('e', CMT), cf) if x is not None]
    ext = set()
    while work:
        g = work.pop()
        if g.name in seen:
            continue
        seen[g.name] = g
        for h in g.family():
            for callee, resolved, line in h.calls:
                n = resolved or callee
                if n in ws.by_name:
                    for k in ws.by_name[n]:
                        if k.unit.crate == 'mithril_cardano_node_internal_database' and k.name not in seen and 'cache' not in k.name:
                            work.append(k)
                else:
                    ext.add(n)
    bad = sorted(n for n in ext if any(glob_match(p, n) for p in ('std::time::*', 'chrono::*now*', 'rand*::*', 'getrandom::*', 'std::collections::hash::map::HashMap*::iter*',
                                                                  'std::collections::hash::map::HashMap*::values*', 'std::collections::hash::map::HashMap*::into_iter*',
                                                                  'std::collections::hash::set::HashSet*::iter*', 'std::env::*')))
    if bad:
        R.violation('e', 'R11', 'digest computation closure: no clock / RNG / hash-order dependence', 'digest:purity', str(bad[:5]), None)
    else:
        R.ok('e', 'R11', 'digest computation closure: no clock / RNG / hash-order dependence', '%d workspace fns, %d external callees' % (len(seen), len(ext)))
