"""C02 - aggregation completeness / monotonicity (narrow; DESIGN.md section 4, C02)."""
from core import glob_match
from engine import (Sink, find_guards, fn_origins, success_reachable, track_result, return_assigns,
                    loop_body_entry, switch_edges, ok_payload, CMP_REL, ALL3, flows_forward, LOSSY_COLLECTIONS)
from props.common import Ctx, ret_ok_some, ret_ok_none, fn_short  # noqa: F401

EXPLANATION = (
    'Static rules: (a) in the quorum selection routine the failure arm of the per-signature verification leads '
    'back to the loop (skip) and to no failure return; (b) the aggregator maps only the NotEnoughSignatures '
    'aggregation error to Ok(None), every other error stays an error, and Ok(Some) carries the aggregation result; '
    '(c) R5 - what is aggregated (signatures and Merkle batch path indices) derives from the selection result; '
    '(e) every update of the per-signature removal bookkeeping in the index-conflict branch is reachable only '
    'through the not-equal arm of an identity comparison between the incumbent and the challenger (a signature '
    'never competes with a copy of itself). Narrow: does not decide that >= k covered indices imply success, nor '
    'order insensitivity.')

ASSUMPTIONS = ['completeness of the greedy selection and order insensitivity are value/history properties (not decided)']

SELECT = 'mithril_stm::*::ConcatenationClerk::select_valid_signatures_for_k_indices'
SVERIFY = 'mithril_stm::*::SingleSignatureForConcatenation::verify'
AGG = 'mithril_stm::*::ConcatenationProof::aggregate_signatures'
CMS = '<mithril_aggregator::multi_signer::MultiSignerImpl as mithril_aggregator::multi_signer::MultiSigner>::create_multi_signature'


def has(og, pat):
    # a field path under the named origin also counts (getters spliced by the inliner make origins more precise)
    return any(glob_match(pat, o) or (pat[-1] != '*' and glob_match(pat + '.*', o)) for o in og)


def _same_site(body, operand, call, depth=8):
    """the operand derives (through adapters / Try::branch) from THIS call's destination"""
    seen = set()
    work = [operand]
    while work and depth:
        depth -= 1
        o = work.pop()
        if o[0] not in ('copy', 'move'):
            continue
        l = o[1][0]
        if l in seen:
            continue
        seen.add(l)
        if l == call.dest[0]:
            return True
        for (bi, si, pl, rv) in body.defs(l):
            if si == 't':
                if not isinstance(rv, tuple) and rv.args:
                    work.append(rv.args[0])
            elif rv[0] in ('use',):
                work.append(rv[1])
            elif rv[0] in ('ref', 'cfd', 'discr'):
                work.append(('copy', rv[1]))
    return False


VIEW_CALLS = ('::deref', '::deref_mut', '::iter', '::iter_mut', '::into_iter', '::as_slice', '::as_mut_slice', '::as_ref', '::as_mut', '::borrow', '::borrow_mut',
              '::values', '::values_mut', '::keys', '::index', '::index_mut', '::get', '::get_mut', '::first', '::last', '::by_ref', '::rev', '::enumerate', '::peekable')


def _base_locals(body, op, depth=10):
    """The locals a value is a VIEW of: followed back through copies, references and view-preserving calls (deref, iter, index ...)."""
    out, seen = set(), set()
    work = [(op[1][0], depth)] if op[0] in ('copy', 'move') else []
    while work:
        l, d = work.pop()
        if l in seen:
            continue
        seen.add(l)
        nxt = []
        for (bi, si, pl, rv) in body.defs(l):
            if pl[1]:
                continue
            if si == 't':
                c = rv
                if any(n.endswith(VIEW_CALLS) for n in c.names()) and c.args and c.args[0][0] in ('copy', 'move'):
                    nxt.append(c.args[0][1][0])
            elif rv[0] == 'ref':
                nxt.append(rv[1][0])
            elif rv[0] == 'use' and rv[1][0] in ('copy', 'move'):
                nxt.append(rv[1][1][0])
            elif rv[0] == 'agg' and rv[1] not in ('closure', 'coroutine'):
                # a value moved through a tuple / struct (`let (a, b) = helper(..)` after splicing): what was packed
                nxt.extend(o[1][0] for o in rv[5] if o[0] in ('copy', 'move'))
        if not nxt or d == 0:
            out.add(l)
        for n in nxt:
            work.append((n, d - 1))
    return out


def _enclosing_loops(body, bb):
    """[(next() call, block entered for Some(item))] of every Iterator::next-driven loop around bb."""
    from engine import switch_edges
    out = []
    for c in body.calls():
        if not any(glob_match('<* as std::iter::traits::iterator::Iterator>::next', n) or n == 'std::iter::traits::iterator::Iterator::next' for n in c.names()):
            continue
        for (bi, si, how, payload) in body.uses(c.dest[0]):
            if how == 'stmt' and payload[1][0] == 'discr':
                for (b2, s2, how2, pay2) in body.uses(payload[0][0]):
                    if how2 == 'sw':
                        su, fa = switch_edges(b2, pay2[0], 'option', +1)
                        for _, st in su:
                            if bb in body.reach([st], stop={c.bb}) and c.bb in body.reach([bb]):
                                out.append((c, st))
    return out


COLL_WRITES = ('::push', '::push_back', '::insert', '::entry', '::extend', '::or_insert_with', '::or_insert', '::or_default', '::append')


def run(ctx):
    R = ctx.report
    R.clause('a', 'an invalid single signature is skipped, never fatal')
    R.clause('b', 'only NotEnoughSignatures maps to "no certificate yet"; every other aggregation error propagates')
    R.clause('c', 'what is aggregated was selected by the quorum routine')
    R.clause('e', 'a competitor for an index is booked for removal only if it differs from the incumbent')

    f = ctx.try_fn('a', SELECT)
    if f is not None:
        body = f.body
        inst = 'select_valid_signatures_for_k_indices: failure of the per-signature verify => continue'
        # (a1) layout independent: wherever the per-signature verification is called under the selection routine, its error is
        # never propagated (`?`, tail return of the Result) - a bad signature costs that signature, not the aggregation
        all_sites = ctx.closure_sites(SELECT, [SVERIFY])
        if not all_sites:
            R.violation('a', 'R1', inst, 'select:skip-invalid:vacuous', 'no per-signature verification call found', f.loc())
        else:
            prop = []
            for g, c in all_sites:
                gb = g.body
                # `?` on the result (possibly through adapters): a from_residual whose argument derives from this call
                for c2 in gb.calls():
                    if any(n.endswith('::from_residual') for n in c2.names()) and c2.args:
                        if ('call:' + c.best()) in fn_origins(g, c2.args[0], 'adapters') and _same_site(gb, c2.args[0], c):
                            prop.append('%s line %d: `?` on the verification result' % (fn_short(g.name), c.line))
                # returned as the function's own Result
                from engine import ty_class
                tr = track_result(gb, c.dest[0], +1)
                if tr.returned and ty_class(g.ret) == 'result':
                    prop.append('%s line %d: the verification result is returned as the function\'s result' % (fn_short(g.name), c.line))
                # control: from the failing arm of the verification, no failure return before the next item is taken
                if tr.fail_edges and ty_class(g.ret) == 'result':
                    hdr_blocks = {cc.bb for cc in gb.calls() if any(glob_match('*Iterator*::next', n) for n in cc.names())}
                    in_loop = loop_body_entry(gb, c.bb) is not None
                    reach = gb.reach([b_ for _, b_ in tr.fail_edges], stop=hdr_blocks if in_loop else frozenset())
                    _, failret = return_assigns(gb, 'ok')
                    bad_ret = sorted(b_ for b_ in reach if b_ in failret)
                    if bad_ret:
                        prop.append('%s line %d: a failure return (bb%s) is reachable from the failing arm of the verification%s' % (
                            fn_short(g.name), c.line, bad_ret[:3], ' before the next signature is taken' if in_loop else ''))
            if prop:
                R.violation('a', 'R1', inst, 'select:skip-invalid', '; '.join(prop[:3]), f.loc())
            else:
                R.ok('a', 'R1', inst, '%d verification site(s); the error is consumed where it arises' % len(all_sites), f.loc())
        sites = [c for c in body.calls() if any(glob_match(SVERIFY, n) for n in c.names())]
        inst2 = 'select_valid_signatures_for_k_indices: only verified signatures enter the index map'
        if not sites and all_sites:
            # the verification sits in a closure / helper (e.g. `.filter(|s| verify(s).is_ok())`): the bookkeeping must consume
            # the filtered sequence
            filt = []
            for h in f.family():
                for c in h.body.calls():
                    if any(n.endswith(('::filter', '::filter_map', '::take_while')) for n in c.names()):
                        from engine import closure_args
                        for cn in closure_args(h.body, c):
                            for cl in f.family():
                                if getattr(cl, '_orig', cl).name != cn:
                                    continue
                                clo = getattr(cl, '_orig', cl)
                                verifying = ctx.mpt.enforces(clo, Sink('verify', [SVERIFY], 'ok'), 'true').holds
                                if not verifying:
                                    # `|s| Self::is_valid(s)`: the closure returns the verdict of a helper that itself requires the verification
                                    for cc in clo.body.calls():
                                        for n in cc.names():
                                            for hh in ctx.ws.by_name.get(n, []):
                                                if hh.kind in ('fn', 'assoc_fn') and hh.unit.crate == clo.unit.crate and 'bool' == hh.ret.strip() and \
                                                        track_result(clo.body, cc.dest[0], +1, 'bool').returned and \
                                                        ctx.mpt.enforces(hh, Sink('verify', [SVERIFY], 'ok'), 'true').holds:
                                                    verifying = True
                                if verifying:
                                    filt.append(c)
            if not filt:
                R.info('a', 'the shape of the selection (verification outside the loop body, no verifying filter recognised) is not decided by this rule')
        else:
            filt = []
        # Selection state may only ever see verified signatures.  Equivalent layouts: the bookkeeping sits behind the successful
        # verification of the signature being processed (in the loop body, or because the loop consumes a verifying filter), or it
        # iterates over a collection that is only filled behind it.
        succ = set()
        for c in sites:
            succ |= track_result(body, c.dest[0], +1).success_edges
        vloops = {}
        unverified = None
        if sites:
            unverified = body.reach([0], removed=succ)          # blocks reachable without a successful verification
            vloops = {id(lc): lc for c in sites for (lc, st) in _enclosing_loops(body, c.bb)}
        elif filt and filt[0] in list(body.calls()):
            # loops driven by the verifying filter: everything in their bodies handles a verified item
            fdest = set()
            for c in filt:
                fdest |= flows_forward(body, {c.dest[0]})
            inside = set()
            for lc in body.calls():
                if any(glob_match('<* as std::iter::traits::iterator::Iterator>::next', n) or n == 'std::iter::traits::iterator::Iterator::next' for n in lc.names()) \
                        and lc.args and lc.args[0][0] in ('copy', 'move') and lc.args[0][1][0] in fdest and not (_base_locals(body, lc.args[0]) & {3}):
                    vloops[id(lc)] = lc
                    for bi_ in range(len(body.blocks)):
                        if any(l2 is lc for (l2, st2) in _enclosing_loops(body, bi_)):
                            inside.add(bi_)
            if vloops:
                unverified = set(range(len(body.blocks))) - inside
        if unverified is not None:
            sites_or_filter = True
            # collections filled only behind a successful verification, inside the verification loop
            writes = []          # (block, base locals written)
            for c in body.calls():
                # a closure handed to the call that writes into a captured collection (`entry(..).or_insert_with(|| { v.push(..); .. })`)
                for a_ in c.args:
                    if a_[0] in ('copy', 'move') and not a_[1][1]:
                        for (bi_, si_, pl_, rv_) in body.defs(a_[1][0]):
                            if si_ != 't' and rv_[0] == 'agg' and rv_[1] in ('closure', 'coroutine'):
                                wr_ = any(n.endswith(COLL_WRITES) for g_ in f.family() if getattr(g_, '_orig', g_).name == rv_[2]
                                          for cc_ in g_.body.calls() for n in cc_.names())
                                if wr_:
                                    caps = set()
                                    for cap in rv_[5]:
                                        # only what the closure can write: captures by mutable reference
                                        if cap[0] in ('copy', 'move') and any(si2 != 't' and rv2[0] == 'ref' and rv2[2] for (bi2, si2, pl2, rv2) in body.defs(cap[1][0])):
                                            caps |= _base_locals(body, cap)
                                    if caps:
                                        writes.append((c.bb, caps))
                if any(n.endswith(COLL_WRITES) for n in c.names()) and c.args:
                    writes.append((c.bb, _base_locals(body, c.args[0])))
            verified_colls = set()

            def behind_verification_bb(bb):
                if bb not in unverified:
                    return True
                for (lc, st) in _enclosing_loops(body, bb):
                    bl_ = _base_locals(body, lc.args[0]) if lc.args else set()
                    if bl_ and bl_ <= verified_colls:
                        return True
                return False

            def behind_verification(cc):
                return behind_verification_bb(cc.bb)
            # fixpoint: a collection all of whose writes happen behind the verification (directly, or while iterating over an already
            # verified collection) holds verified signatures only
            all_colls = set()
            for bb_, bl_ in writes:
                all_colls |= bl_
            changed = True
            while changed:
                changed = False
                for coll in sorted(all_colls - verified_colls):
                    if all(behind_verification_bb(bb_) for bb_, bl_ in writes if coll in bl_):
                        verified_colls.add(coll)
                        changed = True
            uses = [cc for cc in body.calls() if any(glob_match('std::collections::btree::map::BTreeMap::insert', n) or glob_match('std::collections::btree::map::BTreeMap::entry', n) for n in cc.names())]
            bad = [cc for cc in uses if not behind_verification(cc)]
            if bad or not uses:
                R.violation('a', 'R2', inst2, 'select:verified-before-insert', 'index map update at line %s reachable without a successful verify'
                            % [cc.line for cc in bad], f.loc())
            else:
                R.ok('a', 'R2', inst2, '%d update site(s); collections filled only with verified signatures: %d' % (len(uses), len(verified_colls)), f.loc())
            # ... nor any other selection state: the removal lists are written by the contest, and an unverified challenger that books an
            # index on the incumbent's removal list leaves that index covered by nobody (seed C02-4: verification made lazy, after the contest)
            MAPUPD = ('std::collections::btree::map::BTreeMap::insert', 'std::collections::btree::map::BTreeMap::entry', 'std::collections::btree::map::BTreeMap::remove',
                      'std::collections::btree::map::BTreeMap::get_mut', 'std::collections::hash::map::HashMap::insert', 'std::collections::hash::map::HashMap::entry',
                      'std::collections::hash::map::HashMap::remove', 'std::collections::hash::map::HashMap::get_mut',
                      'std::collections::hash::set::HashSet::insert', 'std::collections::hash::set::HashSet::replace', 'std::collections::hash::set::HashSet::remove',
                      'std::collections::btree::set::BTreeSet::insert', 'std::collections::btree::set::BTreeSet::replace', 'std::collections::btree::set::BTreeSet::remove')
            upd = [cc for cc in body.calls() if any(glob_match(q, n) for q in MAPUPD for n in cc.names())]
            bad2 = [cc for cc in upd if not behind_verification(cc)]
            inst3 = 'select_valid_signatures_for_k_indices: no selection state (index map, removal lists) is written for an unverified signature'
            if bad2 or not upd:
                R.violation('a', 'R2', inst3, 'select:verified-before-bookkeeping', 'map updates at line %s reachable without a successful verify of the signature being processed'
                            % sorted({cc.line for cc in bad2}), f.loc())
            else:
                R.ok('a', 'R2', inst3, '%d update site(s)' % len(upd), f.loc())
        # F15: signatures are EQUAL when their sigma is, whatever indices they list; the selection keys its state on that equality.  Copies of
        # one signature that list different indices must therefore be merged (union of their verified indices) before the contest - else
        # the copy met first hides the indices only the others carry.
        merges = []
        if unverified is not None:
            inst4 = 'select_valid_signatures_for_k_indices: the indices verified for equal copies of a signature are merged into one entry'
            SETI = '*::set_concatenation_signature_indices'
            GETI = '*::get_concatenation_signature_indices'
            item_locals = set()
            for lc in vloops.values():
                item_locals |= flows_forward(body, {lc.dest[0]})
            for c in body.calls():
                if not any(glob_match(SETI, n) for n in c.names()) or c.bb in unverified or len(c.args) < 2:
                    continue
                if not (_base_locals(body, c.args[0]) & verified_colls):
                    continue
                feeders = [g_ for g_ in body.calls() if any(glob_match(GETI, n) for n in g_.names()) and c.args[1][0] in ('copy', 'move')
                           and c.args[1][1][0] in flows_forward(body, {g_.dest[0]})]
                from_item = [g_ for g_ in feeders if g_.args and g_.args[0][0] in ('copy', 'move') and g_.args[0][1][0] in item_locals
                             and not (_base_locals(body, g_.args[0]) & verified_colls)]
                from_entry = [g_ for g_ in feeders if g_.args and (_base_locals(body, g_.args[0]) & verified_colls)]
                if from_item and from_entry:
                    merges.append(c)
            if merges:
                R.ok('a', 'R5', inst4, 'merge site(s) at line %s' % [c.line for c in merges], f.loc())
            else:
                R.violation('a', 'R5', inst4, 'select:copies-merged', 'no site stores, for an entry of a verified collection, the union of its indices and those of the copy being '
                            'processed: a copy restricted to some indices (or repeating one) that is met first hides the indices of the original', f.loc())
        # arguments of the per-signature verification
        ctx.arg_origin('a', SELECT, SVERIFY, 2, require=['p#3', 'call:*get_verification_key_for_concatenation'], desc='(vk) <- sig.reg_party')
        ctx.arg_origin('a', SELECT, SVERIFY, 3, require=['p#3', 'call:*::get_stake'], desc='(stake) <- sig.reg_party')
        ctx.arg_origin('a', SELECT, SVERIFY, 5, require=['p#2'], forbid=['p#3*'], desc='(msg) <- msg')
        ctx.arg_origin('a', SELECT, SVERIFY, 4, require=['p#4'], forbid=['p#3*'], desc='(avk) <- avk')

    # ---- (b) the error that the aggregator maps to "no certificate yet" is raised only where the quorum was actually counted
    # (seed C02-5: mithril-common raised it from the informational won_indexes lists of the messages, before the aggregation)
    AERR = 'mithril_stm::protocol::aggregate_signature::error::AggregationError'
    try:
        adt = ctx.ws.adt(AERR)
        vi = [i for i, v in enumerate(adt['variants']) if v['n'] == 'NotEnoughSignatures'][0]
        ctx.only_constructors('b', AERR, [('mithril_stm::proof_system::concatenation::clerk::ConcatenationClerk::select_valid_signatures_for_k_indices*', 'the quorum routine (count of selected indices < k)'),
                                          ('mithril_stm::proof_system::concatenation::proof::ConcatenationProof::preliminary_verify*', 'verification side: fewer than k indices in the aggregate'),
                                          ('mithril_stm::proof_system::halo2_snark::*', 'SNARK proof system (not in this build)'),
                                          ('<' + AERR + ' as *', 'derives')],
                              'AggregationError::NotEnoughSignatures is raised only where the indices were counted', variant=vi,
                              key='constructs:AggregationError::NotEnoughSignatures')
    except Exception as e:  # noqa
        R.missing('b', e)

    # ---- (e)
    if f is not None:
        body = f.body
        gs = find_guards(body)
        ident = []
        for g in gs:
            if g.op not in ('Eq', 'Ne'):
                continue
            a_inc = has(g.a_orig, 'call:std::collections::btree::map::BTreeMap::get')
            b_inc = has(g.b_orig, 'call:std::collections::btree::map::BTreeMap::get')
            if a_inc != b_inc:
                # operands must be the signatures themselves, not a projection like sigma
                other = g.a_orig if b_inc else g.b_orig
                if not has(other, 'call:*get_concatenation_signature_sigma'):
                    ident.append(g)
        book = []
        for c in body.calls():
            if any(glob_match('std::collections::hash::map::HashMap::insert', n) or glob_match('std::collections::hash::map::HashMap::get_mut', n)
                   or glob_match('std::collections::hash::map::HashMap::entry', n) for n in c.names()):
                a0 = c.args[0]
                if a0[0] in ('copy', 'move'):
                    og = fn_origins(f, a0, False)
                    tys = [body.lty(a0[1][0])]
                    # the removal lists: a map from a signature to the indices it must give up (not a position / count index)
                    if any('SingleSignatureWithRegisteredParty' in t and 'Vec<' in t for t in tys):
                        book.append(c)
        inst = 'select_valid_signatures_for_k_indices: removal bookkeeping only for challenger != incumbent'
        merged_first = bool(f is not None and locals().get('merges')) and all(behind_verification(c) for c in book) and all(c.bb in unverified for c in book)
        if book and merged_first:
            # the contest runs over one merged entry per signature (rule select:copies-merged): a signature cannot meet itself
            R.ok('e', 'R6', inst, 'equal copies are merged before the contest (%d bookkeeping site(s) iterate the merged collection)' % len(book), f.loc())
        elif not book:
            R.violation('e', 'R6', inst, 'select:self-competition:vacuous', 'no removal bookkeeping site found', f.loc())
        elif not ident:
            R.violation('e', 'R6', inst, 'select:self-competition', 'no identity comparison between the incumbent of an index '
                        '(BTreeMap::get) and the challenger gates the removal bookkeeping (lines %s)' % [c.line for c in book], f.loc())
        else:
            removed = set()
            for g in ident:
                removed |= (g.false_edges if g.op == 'Eq' else g.true_edges)
            reach = body.reach([0], removed=removed)
            bad = [c for c in book if c.bb in reach]
            if bad:
                R.violation('e', 'R6', inst, 'select:self-competition', 'bookkeeping at line %s reachable without passing the '
                            'not-equal arm of the identity guard (line %s)' % ([c.line for c in bad], [g.line for g in ident]), f.loc())
            else:
                R.ok('e', 'R6', inst, 'identity guard line %s; %d bookkeeping site(s)' % ([g.line for g in ident], len(book)), f.loc())

    # ---- (b)
    cf = ctx.try_fn('b', CMS)
    if cf is not None:
        lf = cf.logic()
        body = lf.body
        try:
            adt = ctx.ws.adt('mithril_stm::*::AggregationError')
        except Exception as e:  # noqa
            R.missing('b', e)
            adt = None
        if adt is not None:
            vidx = [i for i, v in enumerate(adt['variants']) if v['n'] == 'NotEnoughSignatures']
            if not vidx:
                R.missing('b', 'variant AggregationError::NotEnoughSignatures')
            else:
                vi = vidx[0]
                edges, other = set(), set()
                for bi, b in enumerate(body.blocks):
                    if b.cleanup:
                        continue
                    for (_, pl, rv) in b.stmts:
                        if rv[0] == 'discr' and 'AggregationError' in body.lty(rv[1][0]) and \
                                any(isinstance(e, str) and e == '*' for e in rv[1][1]):
                            for (b2, s2, how2, pay2) in body.uses(pl[0]):
                                if how2 == 'sw':
                                    t = pay2[0]
                                    listed = [v for v, _ in t[2]]
                                    for v, tb in t[2]:
                                        (edges if v == vi else other).add((b2, tb))
                                    (other if vi in listed else edges).add((b2, t[3]))
                inst = 'create_multi_signature: Ok(None) only under AggregationError::NotEnoughSignatures'
                hits = success_reachable(body, edges, 'ok', ret_filter=ret_ok_none)
                pts = [sp for sp in return_assigns(body, 'ok')[0] if ret_ok_none(body, sp)]
                if not edges or hits or not pts:
                    R.violation('b', 'R1', inst, 'create_multi_signature:ok-none', 'Ok(None) returns %s reachable without the '
                                'NotEnoughSignatures arm (arms found: %s)' % (hits, sorted(edges)), cf.loc())
                else:
                    R.ok('b', 'R1', inst, 'arms %s' % sorted(edges), cf.loc())
                # any other error is a failure return
                # failure arms of the aggregation result minus the NotEnoughSignatures arm
                agg_calls = [c for c in body.calls() if any(glob_match('*::MultiSigner::aggregate_single_signatures', n) for n in c.names())]
                inst2 = 'create_multi_signature: every other aggregation error propagates'
                if not agg_calls:
                    R.violation('b', 'R1', inst2, 'create_multi_signature:other-errors:vacuous', 'no aggregate_single_signatures call', cf.loc())
                else:
                    tr = track_result(body, agg_calls[0].dest[0], +1)
                    fail_t = [b for _, b in tr.fail_edges]
                    hits2 = success_reachable(body, edges, 'ok', starts=fail_t) if fail_t else [0]
                    if hits2:
                        R.violation('b', 'R1', inst2, 'create_multi_signature:other-errors', 'from the Err arm a success return (bb%s) '
                                    'is reachable without the NotEnoughSignatures arm' % hits2, cf.loc())
                    else:
                        R.ok('b', 'R1', inst2, '', cf.loc())
                    # Ok(Some(x)): x derives from the aggregation result
                    okp = False
                    for sp in return_assigns(body, 'ok')[0]:
                        if ret_ok_some(body, sp):
                            from engine import option_payload
                            x = option_payload(body, ok_payload(body, sp))
                            if x is not None and has(fn_origins(lf, x, True), 'call:*::MultiSigner::aggregate_single_signatures'):
                                okp = True
                    if okp:
                        R.ok('b', 'R5', 'create_multi_signature: Some(payload) <- aggregate_single_signatures', '', cf.loc())
                    else:
                        R.violation('b', 'R5', 'create_multi_signature: Some(payload) <- aggregate_single_signatures',
                                    'create_multi_signature:some-payload', 'payload does not derive from the aggregation', cf.loc())
        ctx.arg_origin('b', CMS, '*::MultiSigner::aggregate_single_signatures', 1, require=['pty:OpenMessage.single_signatures'],
                       desc='(signatures) <- open_message.single_signatures')
        ctx.arg_origin('b', CMS, '*::MultiSigner::aggregate_single_signatures', 2, require=['pty:OpenMessage.protocol_message'],
                       desc='(message) <- open_message.protocol_message')

    # ---- (c)
    af = ctx.try_fn('c', AGG)
    if af is not None:
        body = af.body
        ctx.r1('c', AGG, Sink('select_valid_signatures_for_k_indices', SELECT, 'ok'))
        # the returned proof's `signatures` and the batch path indices derive from the selection
        ok_sig = ok_path = False
        for b in body.blocks:
            for (_, pl, rv) in b.stmts:
                if rv[0] == 'agg' and rv[1] == 'adt' and rv[2] and rv[2].endswith('::ConcatenationProof'):
                    og0 = fn_origins(af, rv[5][0], True)
                    og1 = fn_origins(af, rv[5][1], True)
                    ok_sig = has(og0, 'call:' + SELECT)
                    ok_path = has(og1, 'call:*compute_merkle_tree_batch_path') and has(og1, 'call:' + SELECT)
        if ok_sig and ok_path:
            R.ok('c', 'R5', 'aggregate_signatures: proof.signatures and batch path indices <- selection result', '', af.loc())
        else:
            R.violation('c', 'R5', 'aggregate_signatures: proof.signatures and batch path indices <- selection result',
                        'aggregate_signatures:from-selection', 'signatures from selection: %s, batch path from selection: %s' % (ok_sig, ok_path), af.loc())
        # every input signature reaches the selection routine: no order/multiplicity normalising collection
        # (e.g. a map keyed by the unauthenticated signer index) between `sigs` and the verified selection
        sel = [c for c in body.calls() if any(glob_match(SELECT, n) for n in c.names())]
        for c in sel:
            a = c.args[2]
            tgt = a[1][0] if a[0] in ('copy', 'move') else None
            seq_ok = tgt is not None and tgt in flows_forward(body, {2}, True, avoid_types=LOSSY_COLLECTIONS)
            # closures that handle the items must not build such collections either
            # (collections OF signatures: other maps/sets in spliced helpers, e.g. the registration set, are not in the way)
            lossy_locals = [l for l, (ty, nm) in enumerate(body.locals) if any(x in ty for x in LOSSY_COLLECTIONS) and 'Signature' in ty
                            and l in flows_forward(body, {2}, True)]
            inst = 'aggregate_signatures: every input signature is handed to the selection (no pre-verification de-duplication)'
            if seq_ok and not lossy_locals:
                R.ok('c', 'R5', inst, '', af.loc())
            else:
                R.violation('c', 'R5', inst, 'aggregate_signatures:all-inputs', 'the signatures reach the selection routine only through a map/set '
                            '(locals %s): an unverified signature can evict a valid one before verification' % [body.lname(l) for l in lossy_locals][:4], af.loc())
        # ... and nothing between `sigs` and the selection drops items by POSITION or ADJACENCY (dedup / take / skip / truncate / ...):
        # such a step decides before any verification which signature of a signer survives (seed C02-6: `dedup_by_key(signer_index)`
        # let whatever stood directly before an honest signature replace it).  Value-dependent filters (filter / retain with a
        # closure) are not judged here: dropping an input that cannot be valid is allowed.
        BLIND = ('*::dedup', '*::dedup_by', '*::dedup_by_key', '*::take', '*::skip', '*::step_by', '*::truncate', '*::split_off', '*::drain',
                 '*::pop', '*::swap_remove', '*::remove', '*::clear', '*::split_first', '*::split_last', '*::first', '*::last', '*::nth',
                 '*::take_while', '*::skip_while', '*::chunks*', '*::windows', '*::resize*', '*::rev')
        BLIND = tuple(x for x in BLIND if x not in ('*::rev',))
        fl = flows_forward(body, {2}, True)
        upstream = set()
        for c in sel:
            upstream |= {o[5:] for o in fn_origins(af, c.args[2], True) if o.startswith('call:')}
        blind = []
        for c in body.calls():
            nm = [n for n in c.names() if any(glob_match(p_, n) for p_ in BLIND)]
            if not nm or not c.args or not sel or c.bb == sel[0].bb:
                continue
            a0 = c.args[0]
            on_input = a0[0] in ('copy', 'move') and (a0[1][0] in fl or any(b_ in fl for b_ in _base_locals(body, a0)))
            # only steps BEFORE the selection (after it the selected signatures may be handled freely)
            before = sel[0].bb in body.reach([c.bb])
            # either the step's result is what the selection receives (adapter), or it mutates a collection of signatures in place
            in_place = a0[0] in ('copy', 'move') and body.lty(a0[1][0]).startswith('&mut') and 'Signature' in body.lty(a0[1][0])
            if on_input and before and (any(n in upstream for n in c.names()) or in_place):
                blind.append('%s (line %s)' % (fn_short(nm[0]), c.line))
        inst = 'aggregate_signatures: no position- or adjacency-based dropping of input signatures before the selection'
        if sel and not blind:
            R.ok('c', 'R5', inst, '', af.loc())
        elif sel:
            R.violation('c', 'R5', inst, 'aggregate_signatures:blind-drop', '%s is applied to the received signatures before any of them is verified: which '
                        'signature of a signer survives is decided by its place in the list' % ', '.join(blind[:3]), af.loc())
        ctx.arg_origin('c', AGG, SELECT, 1, require=['p#3'], forbid=['p#2*'], desc='(msg) <- msg')
        ctx.arg_origin('c', AGG, SELECT, 2, require=['p#2'], desc='(signatures) <- sigs')
