"""C09 - Merkle membership proofs (DESIGN.md section 4, C09)."""
from core import glob_match
from engine import Sink, fn_origins, find_guards
from props.common import Ctx, fn_short  # noqa: F401
from props.shared import batch_path_final_check, MEMBERSHIP

EXPLANATION = (
    'Static rules: (a) STM batch path - Ok only after the length-equality guard, the sortedness guard, and under '
    '"exactly one node left" and "that node == self.root"; (b) R5 - the hashed leaves are the caller\'s values, the '
    'compared root is the commitment\'s; (c) MKProof::verify succeeds only if the MMR verifier returned true for '
    '(inner_root, inner_leaves), the same fields root()/contains()/leaves() expose; (d) MKMapProof::verify: every '
    'sub-proof verified, master verified, master contains key+sub-root of every sub-proof; (e) set proofs: proof '
    'verified and every item contained. Does not decide absence of forged paths for every tree shape, nor the '
    'third-party MMR.')

ASSUMPTIONS = ['ckb-merkle-mountain-range MerkleProof::verify is sound; Blake2b/Blake2s collision resistance']

MK = 'mithril_merkle_tree::merkle_tree::MKProof'
MKM = 'mithril_merkle_tree::merkle_map::MKMapProof'


def has(og, pat):
    # a field path under the named origin also counts (getters spliced by the inliner make origins more precise)
    return any(glob_match(pat, o) or (pat[-1] != '*' and glob_match(pat + '.*', o)) for o in og)


def run(ctx):
    R = ctx.report
    R.clause('a', 'STM batch path: Ok only under all structural guards and final node == root')
    R.clause('b', 'the hashed leaves are the caller\'s values; the root is the commitment\'s')
    R.clause('c', 'MKProof::verify accepts only if the MMR verifier returned true for the exposed root and leaves')
    R.clause('d', 'MKMapProof::verify: sub-proofs, master proof, and linkage of every sub-root into the master')
    R.clause('e', 'set proofs: proof verified and every item contained')

    # ---- (a)
    batch_path_final_check(ctx, 'a')
    ctx.guard_gate('a', MEMBERSHIP, 'number of values == number of path indices',
                   lambda g: g.op in ('Ne', 'Eq') and has(g.a_orig | g.b_orig, 'p#2') and has(g.a_orig | g.b_orig, 'pty:MerkleBatchPath.indices'),
                   {'eq'}, key='batch_path:len-eq')
    f = ctx.try_fn('a', MEMBERSHIP)
    if f is not None:
        # success requires the path indices to be in order: compared with a sorted copy, or tested with `is_sorted()`
        from engine import track_result, success_reachable
        p_sorted = (lambda g: g.op in ('Ne', 'Eq') and has(g.a_orig | g.b_orig, 'pty:MerkleBatchPath.indices') and
                    not has(g.a_orig | g.b_orig, 'p#2') and not has(g.a_orig | g.b_orig, 'call:*::len'))
        sorts = [c for c in f.body.calls() if any(glob_match('*::sort_unstable', n) or glob_match('*::sort', n) for n in c.names())]
        ok_a = bool(sorts) and ctx.quiet_gate(f, p_sorted, {'eq'})[0]
        iss = [c for c in f.body.calls() if any(glob_match('*::is_sorted', n) or glob_match('*::is_sorted_by*', n) for n in c.names())
               and has(fn_origins(f, c.args[0], True), 'pty:MerkleBatchPath.indices')]
        edges = set()
        for c in iss:
            edges |= track_result(f.body, c.dest[0], +1).success_edges
        ok_b = bool(iss) and bool(edges) and not success_reachable(f.body, edges, 'ok')
        inst_s = 'MerkleTreeBatchCommitment::verify_leaves_membership_from_batch_path: path indices are sorted (success requires it)'
        if ok_a or ok_b:
            R.ok('a', 'R6', inst_s, 'compared with a sorted copy' if ok_a else 'is_sorted() gates success', f.loc())
        else:
            R.violation('a', 'R6', inst_s, 'batch_path:sorted', 'sort calls %d with an equality guard on the indices gating success: %s; is_sorted() sites %d gating success: %s'
                        % (len(sorts), ok_a, len(iss), ok_b), f.loc())
        # two GIVEN leaves are hashed together only when the next index is exactly the sibling of the current one (seed C09-3: `<=` let a
        # duplicated left position swallow its neighbour's leaf, so a leaf verified at a position it is not committed at)
        sib = [g for g in find_guards(f.body)
               if (has(g.a_orig, 'call:*::sibling') != has(g.b_orig, 'call:*::sibling'))
               and has(g.b_orig if has(g.a_orig, 'call:*::sibling') else g.a_orig, 'pty:MerkleBatchPath.indices')]
        inst_sib = 'verify_leaves_membership_from_batch_path: the next index is compared with the sibling for EQUALITY'
        if sib:
            loose = [g.line for g in sib if g.op not in ('Eq', 'Ne')]
            if loose:
                R.violation('a', 'R6', inst_sib, 'batch_path:sibling-equality', 'order comparison(s) between an index and a sibling at line %s: a repeated or lower index is taken for the sibling' % loose, f.loc())
            else:
                R.ok('a', 'R6', inst_sib, '%d comparison(s)' % len(sib), f.loc())
        else:
            R.info('a', 'no comparison between a path index and a sibling() value in this layout: the sibling-equality rule does not apply')
        # ---- (b)
        body = f.body
        digs = [c for c in body.calls() if any(glob_match('*digest::*::digest', n) or glob_match('*Digest*::digest', n) for n in c.names())]
        ok = False
        for g in f.family():
            for c in g.body.calls():
                if any(glob_match('*::as_bytes_for_merkle_tree', n) for n in c.names()):
                    og = fn_origins(g, c.args[0], True)
                    if has(og, 'p#2') or has(og, 'clarg#2') or has(og, 'param:val'):
                        ok = True
        if ok:
            R.ok('b', 'R5', 'verify_leaves_membership_from_batch_path: hashed leaves <- batch_val', '', f.loc())
        else:
            R.violation('b', 'R5', 'verify_leaves_membership_from_batch_path: hashed leaves <- batch_val', 'batch_path:leaves-origin',
                        'as_bytes_for_merkle_tree is not applied to the caller\'s values', f.loc())

    # ---- (c)
    mmr = ['ckb_merkle_mountain_range::*::MerkleProof::verify', 'ckb_merkle_mountain_range::*MerkleProof*::verify']
    ctx.r1('c', MK + '::verify', Sink('MMR MerkleProof::verify == Ok(true)', mmr, 'ok'))
    vf = ctx.try_fn('c', MK + '::verify')
    if vf is not None:
        body = vf.body
        # Ok(bool) -> ? -> then_some -> with_context: the bool must gate success
        ts = [c for c in body.calls() if any(glob_match('bool::then_some', n) or glob_match('bool::then', n) for n in c.names())]
        ok = False
        for c in ts:
            og = fn_origins(vf, c.args[0], True)
            if any(glob_match('call:' + m, o) for m in mmr for o in og):
                from engine import track_result
                tr = track_result(body, c.dest[0], +1)
                if tr.discharged():
                    ok = True
        if ok:
            R.ok('c', 'R1', 'MKProof::verify: the boolean verdict of the MMR verifier gates Ok', '', vf.loc())
        else:
            R.violation('c', 'R1', 'MKProof::verify: the boolean verdict of the MMR verifier gates Ok', 'mkproof:verdict',
                        'the bool returned by MerkleProof::verify does not decide the result', vf.loc())
        # F18: the MMR verifier checks only the FIRST leaf given for a position, while contains() / leaves() answer from all of them: success
        # must require that no position is listed twice (each position inserted into a set: a `false` insert cannot reach success - in the
        # body, through a flag, or as the verdict of an `all(..)` closure over the leaves - or the set size is compared with the count)
        from engine import track_result as _tr, success_reachable as _sr, closure_args as _ca
        INS = ('std::collections::hash::set::HashSet::insert', 'std::collections::btree::set::BTreeSet::insert', 'std::collections::btree::map::BTreeMap::insert',
               'std::collections::hash::map::HashMap::insert')
        uniq = False
        for c in body.calls():
            # (i)/(ii) insert in the body: its `false` outcome cannot reach success
            if any(n in INS for n in c.names()) and len(c.args) > 1 and has(fn_origins(vf, c.args[1], True), 'pty:MKProof.inner_leaves'):
                t_ = _tr(body, c.dest[0], +1, 'bool')
                st_ = [b_ for _, b_ in t_.fail_edges]
                if st_ and not _sr(body, set(), 'ok', starts=st_):
                    uniq = True
            # (iii) `leaves.iter().all(|(p, _)| set.insert(*p))`: the closure's verdict is the insert's, and a false verdict fails
            if any(n.endswith(('Iterator>::all', 'Iterator::all')) for n in c.names()) and has(fn_origins(vf, c.args[0], True), 'pty:MKProof.inner_leaves'):
                for cn in _ca(body, c):
                    for cl in vf.family():
                        if getattr(cl, '_orig', cl).name != cn:
                            continue
                        for cc in cl.body.calls():
                            if any(n in INS for n in cc.names()) and _tr(cl.body, cc.dest[0], +1, 'bool').returned:
                                t_ = _tr(body, c.dest[0], +1, 'bool')
                                st_ = [b_ for _, b_ in t_.fail_edges]
                                if st_ and not _sr(body, set(), 'ok', starts=st_):
                                    uniq = True
        if not uniq:
            # (iv) size of a set of the positions compared with the number of leaves
            uniq = ctx.quiet_gate(vf, lambda g: g.op in ('Eq', 'Ne') and (has(g.a_orig | g.b_orig, 'call:*Set::len') or has(g.a_orig | g.b_orig, 'call:*Map::len'))
                                  and has(g.a_orig | g.b_orig, 'pty:MKProof.inner_leaves'), {'eq'})[0]
        inst_u = 'MKProof::verify accepts only proofs that list every leaf position once (the MMR verifier ignores all but the first leaf of a position)'
        if uniq:
            R.ok('c', 'R6', inst_u, '', vf.loc())
        else:
            R.violation('c', 'R6', inst_u, 'mkproof:unique-positions', 'no uniqueness test on the positions of inner_leaves gates success: a position listed twice lets contains() / leaves() '
                        'vouch for a leaf that was never checked against the root', vf.loc())
        ctx.arg_origin('c', MK + '::verify', mmr, 1, require=['pty:MKProof.inner_root'], desc='(root) <- self.inner_root')
        ctx.arg_origin('c', MK + '::verify', mmr, 2, require=['pty:MKProof.inner_leaves'], desc='(leaves) <- self.inner_leaves')
        ctx.arg_origin('c', MK + '::verify', mmr, 0, require=['pty:MKProof.inner_proof_items', 'pty:MKProof.inner_proof_size'],
                       desc='(proof) <- self.inner_proof_*')
    for acc, field in (('root', 'inner_root'), ('contains', 'inner_leaves'), ('leaves', 'inner_leaves')):
        af = ctx.try_fn('c', MK + '::' + acc)
        if af is None:
            continue
        reads = set()
        for g in af.family():
            for b in g.body.blocks:
                for (_, pl, rv) in b.stmts:
                    from core import rvalue_reads
                    for (l, place) in rvalue_reads(rv):
                        for pe in place[1]:
                            if isinstance(pe, tuple) and pe[0] == 'f' and pe[3] == MK:
                                reads.add(pe[2])
        if reads == {field}:
            R.ok('c', 'R5', 'MKProof::%s exposes exactly the verified field %s' % (acc, field), '', af.loc())
        else:
            R.violation('c', 'R5', 'MKProof::%s exposes exactly the verified field %s' % (acc, field), 'mkproof:%s-field' % acc,
                        'fields read: %s' % sorted(reads), af.loc())

    # ---- (d)
    from props.shared import mkmap_verify_rules
    mkmap_verify_rules(ctx, 'd')

    # ---- (e)
    for entry, proof_verify, contains in (
            ('mithril_common::entities::mk_set_proof::MkSetProof::verify', [MKM + '::verify'], [MKM + '::contains']),
            ('mithril_common::entities::cardano_transactions_set_proof::CardanoTransactionsSetProof::verify', [MKM + '::verify'], [MKM + '::contains'])):
        ctx.r1('e', entry, Sink('proof.verify()', proof_verify, 'ok'))
        ctx.r1('e', entry, Sink('proof.contains(item) (each)', contains, 'ok', per_item=True))
        ef = ctx.try_fn('e', entry)
        if ef is not None:
            for c in ef.body.calls():
                if any(glob_match(contains[0], n) for n in c.names()):
                    og = fn_origins(ef, c.args[1], True)
                    field = 'items' if 'MkSetProof' in entry else 'transactions_hashes'
                    if has(og, 'pty:*.%s' % field):
                        R.ok('e', 'R5', '%s: the looked-up leaf derives from self.%s' % (fn_short(entry), field), '', ef.loc())
                    else:
                        R.violation('e', 'R5', '%s: the looked-up leaf derives from self.%s' % (fn_short(entry), field),
                                    'setproof:item-origin:%s' % fn_short(entry), 'origins %s' % sorted(og)[:8], ef.loc())
