"""C05 - decoders never crash on untrusted bytes (DESIGN.md section 4, C05)."""
import re

from core import glob_match
from engine import wire_int_findings, panic_sites, fn_origins
from props.common import Ctx, fn_short  # noqa: F401

EXPLANATION = (
    'Static rules over the workspace code of every decoder reachable from data of another node (the decoder set is '
    'discovered from the fact base - every from_bytes*/try_from_bytes/decode_key/... of the wire types - and compared '
    'with a frozen list; a new decoder is an obligation, a vanished one fails closed): (a,b,c) R7 taint - no integer '
    'decoded from the input reaches an allocation size, raw arithmetic (+,-,*,<<, next_power_of_two) or a panicking '
    'index/split; checked_*/saturating_* and fallible get(range) are the accepted idioms; (d) R8 - every panic-capable '
    'site (Assert terminators, unwrap/expect/index/copy_from_slice/...) in the workspace call closure of the decoders is '
    'either discharged by a local pattern or listed in the audited table with a reason; a new site is a violation. '
    'Does not decide third-party decoders (ciborium, bincode, serde_json, hex, blst) nor value round trips.')

ASSUMPTIONS = [
    'panics / allocations inside ciborium, bincode, serde_json, hex, blst are out of scope (third-party); bincode has no size limit configured',
    'round trip "decode(encode(v)) == v" is a value property (not decided)',
]

DECODER_RE = re.compile(r'::(from_bytes|from_bytes_legacy|from_bytes_cbor|try_from_bytes|from_bytes_hex|from_json_hex|decode_key|'
                        r'key_decode_hex|from_cbor_bytes|from_versioned_bytes|try_from_bytes_vec)$')
CRATES = ('mithril_stm', 'mithril_common', 'mithril_merkle_tree')

# decoders that must exist (frozen from the pinned tree; floor, not an exact list)
REQUIRED = [
    'mithril_stm::*::AggregateSignature::from_bytes', 'mithril_stm::*::ConcatenationProof::from_bytes',
    'mithril_stm::*::ConcatenationProof::from_bytes_legacy', 'mithril_stm::*::SingleSignature::from_bytes',
    'mithril_stm::*::SingleSignature::from_bytes_legacy', 'mithril_stm::*::SingleSignatureWithRegisteredParty::from_bytes',
    'mithril_stm::*::SingleSignatureWithRegisteredParty::from_bytes_legacy', 'mithril_stm::*::ClosedRegistrationEntry::from_bytes',
    'mithril_stm::*::MerkleBatchPath::from_bytes', 'mithril_stm::*::MerkleBatchPath::from_bytes_legacy',
    'mithril_stm::*::MerkleTreeBatchCommitment::from_bytes', 'mithril_stm::*::MerkleTree::from_bytes',
    'mithril_stm::*::AggregateVerificationKeyForConcatenation::from_bytes', 'mithril_stm::*::BlsSignature::from_bytes',
    'mithril_stm::*::BlsVerificationKey::from_bytes', 'mithril_stm::*::BlsVerificationKeyProofOfPossession::from_bytes',
    'mithril_stm::*::Parameters::from_bytes', 'mithril_stm::codec::from_versioned_bytes', 'mithril_stm::codec::from_cbor_bytes',
    'mithril_common::crypto_helper::types::protocol_key::ProtocolKey::from_bytes_hex',
    'mithril_common::crypto_helper::types::protocol_key::ProtocolKey::from_json_hex',
    'mithril_common::crypto_helper::types::protocol_key::ProtocolKeyCodec::decode_key',
    'mithril_common::crypto_helper::codec::json_hex::key_decode_hex',
    'mithril_merkle_tree::merkle_tree::MKProof::from_bytes', 'mithril_merkle_tree::merkle_map::MKMapProof::from_bytes',
]

# decoders outside the property's scope ("data supplied by another node"), with the reason
OUT_OF_SCOPE = {
    'mithril_common::crypto_helper::cardano::key_certification::StmInitializerWrapper::from_bytes':
        'decodes the signer\'s own stored protocol initializer (local database), not data of another node',
    'mithril_common::crypto_helper::cardano::codec::SerDeShelleyFileFormat::from_cbor_bytes':
        'reads the operator\'s own key files from disk',
    'mithril_stm::protocol::participant::initializer::Initializer::from_bytes':
        'secret-key material of the local signer (never received from another node)',
    'mithril_stm::protocol::participant::initializer::Initializer::from_bytes_legacy':
        'secret-key material of the local signer (never received from another node)',
    'mithril_stm::signature_scheme::bls_multi_signature::signing_key::BlsSigningKey::from_bytes':
        'secret-key material of the local signer',
}

# R8: audited panic-capable sites of the decoder closure: (fn glob, callee/assert kind glob) -> reason.
# One entry covers every ordinal of that callee in that fn only if the reason applies to all of them.
AUDITED = []


AUDITED_RECV = {}   # index in AUDITED -> origin the receiver (argument 0) of the audited call must have


def A(fn_glob, what_glob, reason, max_sites, recv=None):
    AUDITED.append((fn_glob, what_glob, reason, max_sites))
    if recv is not None:
        AUDITED_RECV[len(AUDITED) - 1] = recv


A('mithril_stm::*::MerkleBatchPath::from_bytes_legacy', '*copy_from_slice',
  'source is get(i*8+off .. (i+1)*8+off), both ends by checked arithmetic: exactly 8 bytes for the [u8; 8] buffer', 1)
A('mithril_stm::*::AggregateVerificationKeyForConcatenation::from_bytes_legacy', '*copy_from_slice',
  'source is get(len-8 ..) with len-8 from checked_sub: exactly 8 bytes for the [u8; 8] buffer', 1)
A('mithril_stm::*::BlsProofOfPossession::from_bytes', '*Result::expect_err',
  'blst_error_to_stm_error(e) on the error of a blst call: blst never returns Err(BLST_SUCCESS) (third-party contract)', 1,
  recv='call:*blst_error_to_stm_error')
A('mithril_stm::*::BlsSignature::from_bytes', '*Result::expect_err',
  'blst_error_to_stm_error(e) on the error of a blst call: blst never returns Err(BLST_SUCCESS) (third-party contract)', 1,
  recv='call:*blst_error_to_stm_error')
A('mithril_stm::*::BlsVerificationKey::from_bytes', '*Result::expect_err',
  'blst_error_to_stm_error(e) on the error of a blst call: blst never returns Err(BLST_SUCCESS) (third-party contract)', 1,
  recv='call:*blst_error_to_stm_error')


def const_width_copy(f, bi):
    """`dst.copy_from_slice(src)` cannot panic when dst is `[u8; N]` and src is the success payload of
    `get(lo..hi)` with hi == lo + N established by `+ N` / `checked_add(N)` on the same lo, or constants."""
    from engine import origins
    body = f.body
    c = body.blocks[bi].term[1]
    if len(c.args) < 2:
        return False
    dst_og = origins(body, c.args[0], False)
    # destination array length
    n = None
    for l, (ty, nm) in enumerate(body.locals):
        pass
    a0 = c.args[0]
    # walk the &mut chain to the array local
    l = a0[1][0]
    for _ in range(4):
        ty = body.lty(l)
        m = re.match(r'^(?:&mut |&)*\[u8; (\d+)(?:_usize)?\]$', ty)
        if m:
            n = int(m.group(1))
            break
        ds = [d for d in body.defs(l) if d[1] != 't' and d[3][0] in ('ref', 'use', 'cast')]
        if not ds:
            break
        rv = ds[0][3]
        l = rv[1][0] if rv[0] == 'ref' else (rv[1][1][0] if rv[0] == 'use' and rv[1][0] in ('copy', 'move') else (rv[2][1][0] if rv[2][0] in ('copy', 'move') else l))
    if n is None:
        return False
    # source: find the get(range) call feeding it
    src_og = origins(body, c.args[1], True)
    gets = [cc for cc in body.calls() if any(glob_match('[[]T[]]::get', nn) or nn == '[T]::get' for nn in cc.names())]
    for g in gets:
        if 'call:[T]::get' not in src_og:
            continue
        # must be the get whose result flows here: same line neighbourhood / derivation
        if g.dest[0] not in _back_locals(body, c.args[1]):
            continue
        rng = g.args[1]
        if rng[0] not in ('copy', 'move'):
            continue
        for (b2, s2, pl, rv) in body.defs(rng[1][0]):
            if s2 != 't' and rv[0] == 'agg' and rv[2] == 'std::ops::range::RangeTo' and len(rv[5]) == 1:
                chi = body.const_of(rv[5][0])
                if chi is not None:
                    return chi == n
            if s2 != 't' and rv[0] == 'agg' and rv[2] and rv[2].startswith('std::ops::range::Range') and len(rv[5]) == 2:
                lo, hi = rv[5]
                clo_ = body.const_of(lo)
                chi = body.const_of(hi)
                if clo_ is not None and chi is not None:
                    return chi - clo_ == n
                if _is_plus_n(body, hi, lo, n):
                    return True
    return False


def prefix_guarded_index(f, bi):
    """`bytes[1..]` is safe when it is reachable only through the true arm of a successful
    `has_cbor_v1_prefix(bytes)` (the first byte exists and was compared)."""
    from engine import track_result
    body = f.body
    c = body.blocks[bi].term[1]
    if len(c.args) < 2 or c.args[1][0] not in ('copy', 'move'):
        return False
    ok_range = False
    for (b2, s2, pl, rv) in body.defs(c.args[1][1][0]):
        if s2 != 't' and rv[0] == 'agg' and rv[2] == 'std::ops::range::RangeFrom' and body.const_of(rv[5][0]) == 1:
            ok_range = True
    if not ok_range:
        return False
    edges = set()
    for cc in body.calls():
        if any(glob_match('mithril_stm::codec::has_cbor_v1_prefix', n) for n in cc.names()):
            tr = track_result(body, cc.dest[0], +1, 'bool')
            edges |= tr.success_edges
        elif any(n == '[T]::first' for n in cc.names()):
            tr = track_result(body, cc.dest[0], +1)
            edges |= tr.success_edges
    if not edges:
        return False
    return bi not in body.reach([0], removed=edges)


def _back_locals(body, operand, depth=12):
    out = set()
    work = [operand[1][0]] if operand[0] in ('copy', 'move') else []
    while work and depth > 0:
        depth -= 1
        l = work.pop()
        if l in out:
            continue
        out.add(l)
        for (bi, si, pl, rv) in body.defs(l):
            if si == 't':
                if isinstance(rv, tuple):
                    continue
                for a in rv.args[:1]:
                    if a[0] in ('copy', 'move'):
                        work.append(a[1][0])
            else:
                from core import rvalue_reads
                for (x, _) in rvalue_reads(rv):
                    work.append(x)
    return out


def _is_plus_n(body, hi, lo, n):
    """hi == lo + n through `Add(lo, const n)` or `checked_add(lo, const n)` (+ ok_or / ? / copies)."""
    lo_l = lo[1][0] if lo[0] in ('copy', 'move') else None
    lo_c = body.const_of(lo)
    seen = set()
    work = [hi[1][0]] if hi[0] in ('copy', 'move') else []
    while work:
        l = work.pop()
        if l in seen:
            continue
        seen.add(l)
        for (bi, si, pl, rv) in body.defs(l):
            if si == 't':
                if isinstance(rv, tuple):
                    continue
                c = rv
                nm = c.best()
                if nm in ('usize::checked_add',) and len(c.args) == 2:
                    if body.const_of(c.args[1]) == n and _same_value(body, c.args[0], lo):
                        return True
                if any(glob_match(p, nm) for p in ('std::option::Option::ok_or', 'std::option::Option::ok_or_else', '<* as std::ops::try_trait::Try>::branch',
                                                   '<* as anyhow::Context>::with_context', 'std::result::Result::map_err')):
                    if c.args and c.args[0][0] in ('copy', 'move'):
                        work.append(c.args[0][1][0])
            else:
                if rv[0] == 'bin' and rv[1] in ('Add', 'AddWithOverflow'):
                    if body.const_of(rv[3]) == n and _same_value(body, rv[2], lo):
                        return True
                    if body.const_of(rv[2]) == n and _same_value(body, rv[3], lo):
                        return True
                elif rv[0] in ('use', 'cfd'):
                    o = rv[1]
                    if rv[0] == 'use' and o[0] in ('copy', 'move'):
                        work.append(o[1][0])
                    elif rv[0] == 'cfd':
                        work.append(o[0])
    return False


def _same_value(body, a, b):
    if a[0] in ('copy', 'move') and b[0] in ('copy', 'move'):
        if a[1] == b[1]:
            return True
        # copies of the same local
        def root(o):
            l = o[1][0]
            for _ in range(4):
                ds = [d for d in body.defs(l) if d[1] != 't' and d[3][0] == 'use' and d[3][1][0] in ('copy', 'move') and not d[3][1][1][1]]
                if len(body.defs(l)) == 1 and ds:
                    l = ds[0][3][1][1][0]
                else:
                    break
            return l
        return root(a) == root(b)
    ca, cb = body.const_of(a), body.const_of(b)
    return ca is not None and ca == cb


def decoder_set(ws):
    out = []
    for f in ws.fns:
        if f.unit.tag != 'lib' or f.kind == 'closure' or f.unit.crate not in CRATES:
            continue
        if DECODER_RE.search(f.name) or re.search(r' as std::convert::TryFrom>::try_from$', f.name) and (
                'ProtocolKey' in f.name and 'crypto_helper' in f.name):
            out.append(f)
    return out


def closure_of(ws, roots, max_depth=8):
    seen = {}
    work = [(f, 0) for f in roots]
    while work:
        f, d = work.pop()
        if f.name in seen:
            continue
        seen[f.name] = f
        if d >= max_depth:
            continue
        for g in f.family():
            if g is not f:
                seen.setdefault(g.name, g)
            for callee, resolved, line in g.calls:
                for n in (resolved, callee):
                    if n and n in ws.by_name:
                        for h in ws.by_name[n]:
                            if h.unit.tag == 'lib' and h.unit.crate in CRATES and h.name not in seen:
                                work.append((h, d + 1))
                        break
    return seen


def run(ctx):
    R = ctx.report
    ws = ctx.ws
    R.clause('set', 'the decoder set is complete (discovered, compared with the frozen list)')
    R.clause('a', 'no allocation sized by an unvalidated wire integer')
    R.clause('b', 'no unchecked arithmetic on wire integers / offsets derived from them')
    R.clause('c', 'every slice access on the input is fallible or guarded')
    R.clause('d', 'no other panic site in the decoder closure (audited inventory)')

    decs = decoder_set(ws)
    names = {f.name for f in decs}
    for pat in REQUIRED:
        if not any(glob_match(pat, n) for n in names):
            R.missing('set', 'decoder %s not found' % pat)
    in_scope = [f for f in decs if f.name not in OUT_OF_SCOPE]
    R.ok('set', 'R3', 'decoder entry points discovered', '%d decoders (%d out of scope with reasons)' % (len(decs), len(decs) - len(in_scope)))
    for n, why in OUT_OF_SCOPE.items():
        if n in names:
            R.info('set', 'out of scope: %s - %s' % (n, why))
    # only decoders reachable from outside the crate, or called by one that is
    roots = [f for f in in_scope if f.reach or True]
    clo = closure_of(ws, roots)
    # the out-of-scope decoders' own bodies are not analysed unless something in scope calls them
    R.info('set', 'closure: %d workspace fns' % len(clo))

    # ---- R7
    total_tainted = 0
    nf = 0
    for name in sorted(clo):
        f = clo[name]
        if f.name in OUT_OF_SCOPE:
            continue
        for g in [f]:
            findings, nt = wire_int_findings(g)
            total_tainted += nt
            if nt:
                nf += 1
            seen = {}
            for kind, what, line, bi in findings:
                clause = {'alloc': 'a', 'arith': 'b', 'index': 'c'}[kind]
                seen[(kind, what)] = seen.get((kind, what), 0) + 1
                key = 'taint:%s:%s:%s#%d' % (fn_short(g.name), kind, fn_short(what), seen[(kind, what)])
                msg = {'alloc': 'allocation sized by an integer decoded from the input: %s',
                       'arith': 'unchecked arithmetic (%s) on an integer decoded from the input (overflow panics in overflow-checking '
                                'builds, wraps to a wrong offset otherwise)',
                       'index': 'panicking index/split (%s) with an integer decoded from the input'}[kind] % what
                R.violation(clause, 'R7', '%s: %s %s' % (fn_short(g.name), kind, fn_short(what)), key, msg, '%s:%d' % (g.file, line))
            if nt and not findings:
                R.ok('b', 'R7', '%s: %d wire-integer-derived locals, no raw arithmetic / allocation / index sink' % (fn_short(g.name), nt),
                     '', g.loc())
    if nf == 0:
        R.violation('b', 'R7', 'wire integers are decoded somewhere in the decoder closure', 'taint:vacuous',
                    'no from_be_bytes/from_le_bytes source found: the rule would pass vacuously', None)
    else:
        # one taint pass decides the three sink kinds; clauses (a) and (c) are its allocation / index sinks
        for cl_, kind_, what_ in (('a', 'alloc', 'allocation sized by'), ('c', 'index', 'panicking index / split with')):
            if not any(o['clause'] == cl_ for o in R.obligations):
                R.ok(cl_, 'R7', 'decoder closure: no %s a wire-integer-derived value' % what_, '%d functions with wire integers, %d derived locals examined' % (nf, total_tainted))

    # ---- (e) decode depth: a wire type that contains itself is decoded by a visitor that recurses once per nesting level of the INPUT
    # (serde derive + bincode / ciborium have no depth bound): a few KB of nested empty values overflow the stack, which aborts the
    # process (F17, MKMapProof: 1000 levels = 53 KB abort a 2 MiB thread).  Type-level rule: no ADT reachable through the fields of a
    # decoded type reaches itself, unless its Deserialize impl is hand-written (where a depth guard can live; then audited by hand).
    R.clause('e', 'no decoded wire type is recursive (decode depth driven by the input)')
    adts = ws.adts
    import re as _re
    names_sorted = sorted(adts, key=len, reverse=True)

    def field_adts(an):
        out = set()
        a = adts.get(an)
        if not a:
            return out
        for v in a['variants']:
            for fd in v['fields']:
                ty = fd.get('ty') or ''
                for cand in _re.findall(r'[A-Za-z_][A-Za-z0-9_]*(?:::[A-Za-z_][A-Za-z0-9_]*)+', ty):
                    if cand in adts:
                        out.add(cand)
        return out
    roots_t = set()
    for f in in_scope:
        m = _re.match(r'^(?:<)?([A-Za-z_][A-Za-z0-9_:]*?)(?:<.*>)?::(?:from_bytes\w*|from_json_hex|from_bytes_hex|try_from)$', f.name)
        if m and m.group(1) in adts:
            roots_t.add(m.group(1))
    reach_t, work = set(), list(roots_t)
    while work:
        t = work.pop()
        if t in reach_t:
            continue
        reach_t.add(t)
        work.extend(field_adts(t))
    recursive = []
    for t in sorted(reach_t):
        seen_t, work = set(), list(field_adts(t))
        while work:
            u = work.pop()
            if u == t:
                recursive.append(t)
                break
            if u in seen_t:
                continue
            seen_t.add(u)
            work.extend(field_adts(u))
    from engine import find_guards as _fg
    derived = []
    guarded = []
    for t in recursive:
        # a hand-written Deserialize that bounds the nesting: a comparison of a counter with a constant, whose "too deep" outcome cannot
        # reach the step that decodes the fields (any nested `Deserialize::deserialize` call of the body)
        ok_guard = False
        for g in ws.by_name.get('<%s as serde_core::de::Deserialize>::deserialize' % t, []) + ws.by_name.get('<%s as serde::de::Deserialize>::deserialize' % t, []):
            if g.unit.tag != 'lib':
                continue
            gb = g.body
            steps = [c for c in gb.calls() if any(n.endswith('Deserialize>::deserialize') or n.endswith('::deserialize_struct') or n.endswith('::deserialize_seq')
                                                  or n.endswith('::deserialize_tuple') or n.endswith('::deserialize_map') for n in c.names())]
            for gd in _fg(gb):
                if gd.op not in ('Gt', 'Ge', 'Lt', 'Le'):
                    continue
                ca, cb = gb.const_of(gd.a), gb.const_of(gd.b)
                if isinstance(ca, int) == isinstance(cb, int):
                    continue
                # the outcome in which the counter is beyond the constant
                if isinstance(cb, int):
                    beyond = gd.true_edges if gd.op in ('Gt', 'Ge') else gd.false_edges
                else:
                    beyond = gd.true_edges if gd.op in ('Lt', 'Le') else gd.false_edges
                within = (gd.true_edges | gd.false_edges) - beyond
                if steps and beyond and not any(c.bb in gb.reach([0], removed=within) for c in steps):
                    ok_guard = True
        if ok_guard:
            guarded.append(t)
        else:
            derived.append(t)
    if not roots_t:
        R.missing('e', 'no decoded type could be derived from the decoder entry points')
    elif derived:
        for t in derived:
            R.violation('e', 'R8', 'decoded wire types are not recursive', 'recursive-wire-type:%s' % t.rsplit('::', 1)[-1],
                        '%s contains itself (through its fields) and is decoded from untrusted bytes: the derived visitor recurses once per nesting level of the input' % t, None)
    else:
        R.ok('e', 'R8', 'decoded wire types are not recursive', '%d decoded types, %d reachable field types; recursive with a nesting bound in a hand-written Deserialize: %s' % (
            len(roots_t), len(reach_t), [t.rsplit('::', 1)[-1] for t in guarded]))

    # ---- R8
    used = {}
    sites = 0
    discharged = 0
    for name in sorted(clo):
        f = clo[name]
        if f.name in OUT_OF_SCOPE:
            continue
        for (kind, what, ordinal, line, bi) in panic_sites(f):
            sites += 1
            if kind == 'assert' and what in ('Overflow', 'OverflowNeg'):
                # arithmetic overflow checks: decided by R7 (b) - operands not derived from wire integers
                discharged += 1
                continue
            if kind == 'call' and what.endswith('copy_from_slice') and const_width_copy(f, bi):
                discharged += 1
                continue
            if kind == 'call' and what.endswith('::index') and prefix_guarded_index(f, bi):
                discharged += 1
                continue
            hit = None
            # an audit entry names the decoder; the site may sit in a closure written inside it (`.map_err(|e| ..expect_err(..))`)
            owner = re.sub(r'(::\{closure#\d+\})+$', '', f.name)
            for i, (fg, wg, reason, mx) in enumerate(AUDITED):
                if glob_match(fg, owner) and glob_match(wg, what):
                    if i in AUDITED_RECV:
                        c = f.body.blocks[bi].term[1]
                        og = fn_origins(f, c.args[0], True) if c.args else set()
                        if not any(o.startswith('call:') and glob_match(AUDITED_RECV[i][5:], o[5:]) for o in og):
                            continue
                    hit = i
                    break
            if hit is None:
                R.violation('d', 'R8', '%s: %s %s #%d' % (fn_short(f.name), kind, fn_short(what), ordinal),
                            'panic:%s:%s#%d' % (fn_short(f.name), fn_short(what), ordinal),
                            'panic-capable site in the decoder closure that is neither discharged nor audited', '%s:%d' % (f.file, line))
            else:
                used[hit] = used.get(hit, 0) + 1
                if used[hit] > AUDITED[hit][3]:
                    R.violation('d', 'R8', '%s: %s %s #%d' % (fn_short(f.name), kind, fn_short(what), ordinal),
                                'panic:%s:%s#%d' % (fn_short(f.name), fn_short(what), ordinal),
                                'more sites than audited (%d) for this entry: %s' % (AUDITED[hit][3], AUDITED[hit][2]), '%s:%d' % (f.file, line))
    for i, (fg, wg, reason, mx) in enumerate(AUDITED):
        if used.get(i):
            R.ok('d', 'R8', 'audited: %s / %s (%d site(s))' % (fn_short(fg.replace('*', '')), fn_short(wg.replace('*', '')), used[i]), reason)
    R.info('d', 'panic-capable sites inventoried: %d (discharged by pattern: %d)' % (sites, discharged))
    if sites < 10:
        R.violation('d', 'R8', 'the panic inventory is non-empty', 'panic:vacuous', 'only %d sites found' % sites, None)
