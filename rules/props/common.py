"""Helpers shared by the per-property rule tables."""
import re

from core import AnchorMissing, glob_match, match_any
from engine import (MPT, Sink, fn_origins, find_guards, operand_shifted, accepted_relation, origins, success_reachable,
                    CMP_REL, ALL3, who_calls, who_constructs, track_result, flows_forward,
                    return_assigns, ok_payload_variant, ty_class, loop_body_entry)


def short(name, n=70):
    return name if len(name) <= n else '…' + name[-n:]


def fn_short(name):
    """Readable, line-free identification of a fn for keys."""
    m = re.match(r'^<(.+) as (.+)>::(.+)$', name)
    if m:
        return '<%s as %s>::%s' % (m.group(1).rsplit('::', 1)[-1], m.group(2).rsplit('::', 1)[-1], m.group(3))
    parts = name.split('::')
    return '::'.join(parts[-2:]) if len(parts) >= 2 else name


def type_head_matches(body, local, adt_name):
    from engine import strip_refs
    t = strip_refs(body.lty(local)).split('<', 1)[0]
    return t == adt_name


def refers_to_adt(body, local, adt_name):
    """local = &(*x) / copy x chains where x has the ADT type."""
    seen = set()
    work = [local]
    while work:
        l = work.pop()
        if l in seen:
            continue
        seen.add(l)
        if type_head_matches(body, l, adt_name):
            return True
    return False


def field_keys(place, adt_name, is_enum):
    """(variant, field) keys of the fields of `adt_name` read by a place."""
    out = []
    cur = None
    for pe in place[1]:
        if isinstance(pe, tuple) and pe[0] == 'd':
            cur = pe[2]
        elif isinstance(pe, tuple) and pe[0] == 'f':
            if pe[3] == adt_name:
                out.append((cur if is_enum else None, pe[2] if pe[2] else str(pe[1])))
            cur = None
    return out


def ret_ok_some(body, sp):
    return ok_payload_variant(body, sp) == 'Some'


def ret_ok_none(body, sp):
    return ok_payload_variant(body, sp) == 'None'


_FLIP = {'lt': 'gt', 'gt': 'lt', 'eq': 'eq'}


def _hasp(og, pats):
    return any(glob_match(p, o) or (p[-1] != '*' and glob_match(p + '.*', o)) for p in ([pats] if isinstance(pats, str) else pats) for o in og)


def between(pa, pb):
    """Guard predicate for a relation between quantity A (origins matching any of `pa`) and quantity B (`pb`), whichever way round
    the comparison is written: returns True for (A ? B), 'swap' for (B ? A) - guard_gate then flips the relation."""
    def pred(g):
        a_is_a, a_is_b = _hasp(g.a_orig, pa), _hasp(g.a_orig, pb)
        b_is_a, b_is_b = _hasp(g.b_orig, pa), _hasp(g.b_orig, pb)
        if a_is_a and b_is_b and not (a_is_b and b_is_a):
            return True
        if a_is_b and b_is_a and not (a_is_a and b_is_b):
            return 'swap'
        if a_is_a and b_is_b and not a_is_b:
            return True
        if b_is_a and a_is_b and not b_is_b:
            return 'swap'
        return False
    return pred


def _log_pats(*groups):
    import core
    if core.PATTERN_LOG is None:
        return
    for g in groups:
        if g is None:
            continue
        if isinstance(g, str):
            core.PATTERN_LOG.add(g)
        else:
            for x in g:
                if isinstance(x, str):
                    core.PATTERN_LOG.add(x)
                elif isinstance(x, (list, tuple)):
                    _log_pats(x)


class Ctx:
    def __init__(self, ws, report, tier):
        self.ws = ws
        self.report = report
        self.tier = tier
        self.mpt = MPT(ws, max_depth=8 if tier == 'quick' else 16)
        # virtual inlining of same-crate helpers (rules/inline.py): on by default for anchors; `keep` = the
        # module's named sinks (never spliced, so that their call sites stay visible)
        self.inline = True
        self.keep = ()

    # ---- anchors
    def view(self, f):
        if f is None or not self.inline:
            return f
        from inline import inlined
        return inlined(f, self.ws, tuple(self.keep))

    def fn(self, pat):
        return self.view(self.ws.find(pat))

    def try_fn(self, clause, pat):
        try:
            return self.view(self.ws.find(pat))
        except AnchorMissing as e:
            self.report.missing(clause, e)
            return None

    def require_def(self, clause, pats):
        """The sink definition must exist somewhere in the workspace (else: missing anchor)."""
        if isinstance(pats, str):
            pats = [pats]
        for p in pats:
            if self.ws.find_all(p):
                return True
        # a sink may be a third-party fn: then it must at least be called somewhere
        if self.ws.callers_of(pats):
            return True
        self.report.missing(clause, 'sink definition %s not found in the workspace' % pats)
        return False

    # ---- R1
    def r1(self, clause, entry_pat, sink, success=None, ret_filter=None, label=None):
        _log_pats(getattr(sink, 'pats', None), getattr(sink, 'patterns', None))
        f = self.try_fn(clause, entry_pat)
        if f is None:
            return None
        if not self.require_def(clause, sink.callee):
            return None
        r = self.mpt.enforces(f, sink, success, ret_filter=ret_filter)
        inst = '%s => %s=%s%s' % (fn_short(f.name), sink.name, sink.want, (' [' + label + ']') if label else '')
        if r.holds:
            sites = ['%s:%s%s' % (fn_short(s['fn']), s['line'], (' via ' + fn_short(s['via'])) if s['via'] else '')
                     for s in r.sites[:4]]
            self.report.ok(clause, 'R1', inst, 'sites: ' + '; '.join(sites), f.loc())
        else:
            self.report.violation(clause, 'R1', inst, '%s=>%s%s' % (fn_short(f.name), sink.name, ('/' + label) if label else ''),
                                  ' | '.join(r.problems)[:1500], f.loc())
        return r

    # ---- guards as sinks
    def guard_gate(self, clause, fn_or_pat, desc, pred, required, success=None, ret_filter=None, key=None,
                   through_calls=True, per_item=False, allow_shift=False):
        """Some comparison guard matching `pred(guard)` must gate success such that on every
        success path the relation (a vs b) lies inside `required` (subset of {lt,eq,gt})."""
        f = fn_or_pat if not isinstance(fn_or_pat, str) else self.try_fn(clause, fn_or_pat)
        if f is None:
            return None
        lf = f.logic()
        body = lf.body
        if success is None:
            success = {'result': 'ok', 'option': 'some', 'bool': 'true'}.get(ty_class(lf.ret), 'any')
        gs = [g for g in find_guards(body, through_calls) if pred(g)]
        inst = '%s: %s' % (fn_short(f.name), desc)
        k = key or ('%s:%s' % (fn_short(f.name), desc))
        if not gs:
            # the guard may sit in a closure applied to every item (`xs.iter().try_for_each(|x| check(x))`, `.all(..)`)
            r = self._guard_in_item_closure(clause, lf, pred, required, through_calls, allow_shift, inst, k, success, ret_filter)
            if r is not None:
                return r
        if not gs:
            self.report.violation(clause, 'R6', inst, k, 'no comparison guard matching the rule instance '
                                  'exists in %s' % lf.name, f.loc())
            return None
        # a guard whose operand is shifted by a constant (`x + 1 < y`) does not establish the stated relation
        shifted = [(g, operand_shifted(body, g.a) or operand_shifted(body, g.b)) for g in gs]
        shifted = [(g, s) for g, s in shifted if s]
        if shifted and len(shifted) == len(gs) and allow_shift is False:
            self.report.violation(clause, 'R6', inst, k, 'the compared value is shifted: %s, so the guard does not establish the '
                                  'stated relation between the two quantities' % '; '.join('%s@L%d: %s' % (g.op, g.line, s) for g, s in shifted),
                                  '%s:%d' % (lf.file, gs[0].line))
            return False
        gs = [g for g in gs if allow_shift or not (operand_shifted(body, g.a) or operand_shifted(body, g.b))]
        removed = set()
        used = []
        for g in gs:
            rel_t = CMP_REL[g.op]
            if pred(g) == 'swap':        # the guard compares (b, a): state its relation on (a, b)
                rel_t = {_FLIP[r] for r in rel_t}
            rel_f = ALL3 - rel_t
            if rel_t <= required:
                removed |= g.true_edges
                used.append((g, 'true'))
            if rel_f <= required:
                removed |= g.false_edges
                used.append((g, 'false'))
        starts = [0]
        if per_item:
            # the guard sits in a loop over the checked items: every iteration must pass it
            starts = [h for h in (loop_body_entry(body, g.bb) for g in gs) if h is not None]
            if not starts:
                self.report.violation(clause, 'R6', inst, k, 'the per-item guard is not inside a loop over the '
                                      'items in %s' % lf.name, '%s:%d' % (lf.file, gs[0].line))
                return False
        hits = success_reachable(body, removed, success, starts=starts, ret_filter=ret_filter)
        if hits:
            acc = set()
            for g in gs:
                acc |= accepted_relation(body, g, success)
            self.report.violation(clause, 'R6', inst, k,
                                  'a success return (bb%s) is reachable although the guard only establishes '
                                  '(a vs b) in %s, required %s; guards: %s' % (
                                      hits, sorted(acc), sorted(required),
                                      ['%s@%d' % (g.op, g.line) for g in gs]),
                                  '%s:%d' % (lf.file, gs[0].line))
            return False
        self.report.ok(clause, 'R6', inst, 'guards %s; success implies (a vs b) in %s' % (
            ['%s@L%d' % (g.op, g.line) for g in gs], sorted(required)), '%s:%d' % (lf.file, gs[0].line))
        return True

    # ---- layout-independent variants: sites are searched in the whole callee closure of a public entry point and
    #      arguments are traced through helper parameters up to the callers (deep_origins)
    def closure_fns(self, entry, depth=6, crates=None):
        """Views of the workspace functions reachable from `entry` through calls (same crate unless `crates`), entry first.
        Named sinks are part of the closure (they are functions too); every member is an inlined view."""
        f0 = entry if not isinstance(entry, str) else self.ws.find(entry)
        f0 = getattr(f0, '_orig', f0).root()
        crates = crates or {f0.unit.crate}
        memo = self.__dict__.setdefault('_cf_memo', {})
        mk = (id(f0), depth, tuple(sorted(crates)))
        if mk in memo:
            return memo[mk]
        seen = {}
        work = [(f0, 0)]
        while work:
            g, d = work.pop()
            if id(g) in seen:
                continue
            seen[id(g)] = g
            if d >= depth:
                continue
            for h in g.family():
                for callee, resolved, line in h.calls:
                    names = [resolved or callee]
                    # trait calls: every workspace impl
                    if resolved is None and callee in self.ws.by_name:
                        names = [callee]
                    for n in names:
                        for k in self.ws.by_name.get(n, []):
                            if k.unit.crate in crates and k.unit.tag == f0.unit.tag and id(k.root()) not in seen:
                                work.append((k.root(), d + 1))
                    if resolved is None:
                        m = callee.rsplit('::', 1)
                        if len(m) == 2:
                            for k in self.ws.impls_of_trait_method(m[0], m[1]):
                                if k.unit.crate in crates and id(k.root()) not in seen:
                                    work.append((k.root(), d + 1))
        memo[mk] = list(seen.values())
        return memo[mk]

    def via_sink(self, og, sink_pats, depth=3):
        """Does a value with origins `og` come out of (a helper that calls) the sink?  True if og names the sink itself or a
        workspace function under which the sink is called."""
        _log_pats(sink_pats)
        pats = [sink_pats] if isinstance(sink_pats, str) else list(sink_pats)
        for o in og:
            if not o.startswith('call:'):
                continue
            n = o[5:]
            if any(glob_match(p, n) for p in pats):
                return True
        for o in og:
            if not o.startswith('call:'):
                continue
            n = o[5:]
            for g in self.ws.by_name.get(n, []):
                if g.unit.tag in ('lib', 'bin') and g.kind in ('fn', 'assoc_fn'):
                    try:
                        if self.closure_sites(g, pats, depth, crates=None):
                            return True
                    except Exception:  # noqa
                        pass
        return False

    def within(self, entry, depth=6, crates=None):
        """ids of the root functions under `entry` (to restrict deep_origins to callers on the way from the entry)"""
        return {id(g) for g in self.closure_fns(entry, depth, crates)}

    def closure_sites(self, entry, callee_pats, depth=6, crates=None):
        """[(view, call)] for every call matching callee_pats anywhere under `entry`."""
        _log_pats(callee_pats)
        key = ('cs', getattr(entry, 'name', entry), tuple([callee_pats] if isinstance(callee_pats, str) else callee_pats), depth)
        memo = self.__dict__.setdefault('_cs_memo', {})
        if key in memo:
            return memo[key]
        out = []
        seen = set()
        for raw in self.closure_fns(entry, depth, crates):
            # the call index answers "does this function (family) contain such a call" without loading bodies
            if not any(match_any(callee_pats, n) for h in raw.family() for (cal, res, _l) in h.calls for n in (cal, res) if n):
                continue
            v = self.view(raw)
            for g in v.family():
                for c in g.body.calls():
                    if any(match_any(callee_pats, n) for n in c.names()):
                        k = (getattr(g, '_orig', g).name, c.line, c.bb)
                        if k not in seen:
                            seen.add(k)
                            out.append((g, c))
        memo[key] = out
        return out

    def closure_aggs(self, entry, adt_name, depth=6, crates=None):
        """[(view, rvalue, line)] for every construction of the ADT anywhere under `entry`."""
        out = []
        seen = set()
        for raw in self.closure_fns(entry, depth, crates):
            if not any(a == adt_name for h in raw.family() for (a, _v) in h.aggs):
                continue
            v = self.view(raw)
            for g in v.family():
                for bi, b in enumerate(g.body.blocks):
                    if b.cleanup:
                        continue
                    for (ln, pl, rv) in b.stmts:
                        if rv[0] == 'agg' and rv[2] == adt_name:
                            k = (getattr(g, '_orig', g).name, ln, bi)
                            if k not in seen:
                                seen.add(k)
                                out.append((g, rv, ln))
        return out

    def deep(self, entry, g, operand, mode=True, up=4, depth=6, crates=None):
        """deep_origins restricted to callers under `entry`"""
        return deep_origins(self.ws, g, operand, mode, depth=up, within=self.within(entry, depth, crates))

    def sink_arg(self, clause, entry, callee_pats, argi, require=(), forbid=(), desc='', key=None, mode=True, up=4, min_sites=1, depth=6, crates=None,
                 require_via=(), forbid_via=()):
        """Every call of the sink anywhere under `entry`: argument `argi`, traced through helper parameters up to the callers,
        has all `require` origins and none of the `forbid` origins.  Independent of how the code under `entry` is split."""
        _log_pats(callee_pats, require, forbid)
        try:
            sites = self.closure_sites(entry, callee_pats, depth, crates)
        except AnchorMissing as e:
            self.report.missing(clause, e)
            return None
        f0 = entry if not isinstance(entry, str) else self.ws.find(entry)
        cname = callee_pats if isinstance(callee_pats, str) else callee_pats[0]
        inst = '%s ..> arg%d of %s %s' % (fn_short(f0.name), argi, fn_short(cname.replace('*', '')), desc)
        k = key or ('%s..%s#%d:%s' % (fn_short(f0.name), fn_short(cname.replace('*', '')), argi, desc))
        sites = [(g, c) for g, c in sites if argi < len(c.args)]
        if len(sites) < min_sites:
            self.report.violation(clause, 'R5', inst, k, 'no call of %s anywhere under %s' % (cname, f0.name), f0.loc())
            return False
        bad = []
        within = self.within(entry, depth, crates)
        for g, c in sites:
            og = deep_origins(self.ws, g, c.args[argi], mode, depth=up, within=within)
            miss = [r for r in require if not _hasp(og, r)]
            hit = sorted(o for o in og if any(glob_match(x, o) for x in forbid))
            miss += ['via ' + r for r in require_via if not self.via_sink(og, r)]
            hit += ['via ' + r for r in forbid_via if self.via_sink(og, r)]
            if miss or hit:
                bad.append('%s line %d: missing %s forbidden %s (origins: %s)' % (fn_short(g.name), c.line, miss, hit[:3], sorted(o for o in og if o.startswith(('pty:', 'lty:', 'call:mithril')))[:10]))
        if bad:
            self.report.violation(clause, 'R5', inst, k, '; '.join(bad)[:1400], sites[0][0].loc())
            return False
        self.report.ok(clause, 'R5', inst, '%d site(s): require %s forbid %s' % (len(sites), list(require), list(forbid)), sites[0][0].loc())
        return True

    def _guard_in_item_closure(self, clause, lf, pred, required, through_calls, allow_shift, inst, k, success, ret_filter):
        from engine import closure_args
        for g in lf.family():
            if g is lf or g.kind != 'closure' or g.cor or g.parent is not lf:
                continue
            cb = g.body
            gs = [x for x in find_guards(cb, through_calls) if pred(x)]
            gs = [x for x in gs if allow_shift or not (operand_shifted(cb, x.a) or operand_shifted(cb, x.b))]
            if not gs:
                continue
            removed = set()
            for x in gs:
                rel_t = CMP_REL[x.op]
                if pred(x) == 'swap':
                    rel_t = {_FLIP[r] for r in rel_t}
                if rel_t <= required:
                    removed |= x.true_edges
                if (ALL3 - rel_t) <= required:
                    removed |= x.false_edges
            csucc = {'result': 'ok', 'option': 'some', 'bool': 'true'}.get(ty_class(g.ret), 'any')
            # `|x| a <= x`: the comparison IS the closure's value - true exactly when the relation holds
            returned_ok = False
            if csucc == 'true':
                for x in gs:
                    rel_t = CMP_REL[x.op]
                    if pred(x) == 'swap':
                        rel_t = {_FLIP[r] for r in rel_t}
                    if getattr(x, 'returned', False) and rel_t <= required and not x.true_edges and not x.false_edges:
                        returned_ok = True
            if not returned_ok and success_reachable(cb, removed, csucc):
                self.report.violation(clause, 'R6', inst, k, 'the per-item closure %s can succeed although the guard only establishes part of the required relation %s'
                                      % (fn_short(g.name), sorted(required)), '%s:%d' % (lf.file, gs[0].line))
                return False
            # the enclosing function succeeds only if the element-wise call did
            body = lf.body
            edges = set()
            sites = 0
            for c in body.calls():
                if g.name in closure_args(body, c) and any(n.endswith(('::try_for_each', '::all', '::is_some_and', '::is_ok_and')) for n in c.names()):
                    sites += 1
                    from engine import gating_edges
                    edges |= gating_edges(body, c.dest[0], +1, success)[0]
            if not sites:
                continue
            if success_reachable(body, edges, success, ret_filter=ret_filter):
                self.report.violation(clause, 'R6', inst, k, 'the result of the element-wise check (closure %s) does not gate success' % fn_short(g.name),
                                      '%s:%d' % (lf.file, gs[0].line))
                return False
            self.report.ok(clause, 'R6', inst, 'guards %s in the per-item closure; the element-wise call gates success' % ['%s@L%d' % (x.op, x.line) for x in gs],
                           '%s:%d' % (lf.file, gs[0].line))
            return True
        return None

    # ---- R5
    def arg_origin(self, clause, fn_or_pat, callee_pats, argi, require=(), forbid=(), desc='', key=None,
                   through_calls=True, min_sites=1, all_sites=True, require_any=()):
        """Every call to `callee` in fn: argument `argi` has all `require` origins (globs) and none of
        the `forbid` origins."""
        _log_pats(callee_pats, require, forbid, require_any)
        f = fn_or_pat if not isinstance(fn_or_pat, str) else self.try_fn(clause, fn_or_pat)
        if f is None:
            return None
        ok_all = True
        nsites = 0
        details = []
        for g in f.family():
            body = g.body
            for c in body.calls():
                if not any(match_any(callee_pats, n) for n in c.names()):
                    continue
                if argi >= len(c.args):
                    continue
                nsites += 1
                og = fn_origins(g, c.args[argi], through_calls)
                # a required origin is also satisfied by a field path under it (a getter spliced by the inliner turns
                # `param:x` into `param:x.field`)
                miss = [r for r in require if not any(glob_match(r, o) or (not r.endswith('*') and glob_match(r + '.*', o)) for o in og)]
                bad = [o for o in og if any(glob_match(x, o) for x in forbid)]
                if require_any and not any(_hasp(og, r) for r in require_any):
                    miss = miss + ['any of %s' % list(require_any)]
                if miss or bad:
                    ok_all = False
                    details.append('line %d: missing %s forbidden %s (origins: %s)' % (
                        c.line, miss, bad, sorted(og)[:12]))
                else:
                    details.append('line %d ok' % c.line)
        cname = callee_pats if isinstance(callee_pats, str) else callee_pats[0]
        inst = '%s: arg%d of %s %s' % (fn_short(f.name), argi, fn_short(cname.replace('*', '')), desc)
        k = key or ('%s:%s#%d:%s' % (fn_short(f.name), fn_short(cname.replace('*', '')), argi, desc))
        if nsites < min_sites:
            self.report.violation(clause, 'R5', inst, k, 'no call site of %s in %s (expected >= %d)' % (
                cname, f.name, min_sites), f.loc())
            return False
        if not ok_all:
            self.report.violation(clause, 'R5', inst, k, '; '.join(d for d in details if not d.endswith('ok'))[:1200], f.loc())
            return False
        self.report.ok(clause, 'R5', inst, '%d site(s): require %s forbid %s' % (nsites, list(require), list(forbid)), f.loc())
        return True

    # ---- R3
    def only_callers(self, clause, callee_pats, allow, desc, min_allowed=1, key=None):
        if not self.require_def(clause, callee_pats):
            return None
        allowed, offenders = who_calls(self.ws, callee_pats, allow)
        cname = callee_pats if isinstance(callee_pats, str) else callee_pats[0]
        inst = 'callers of %s: %s' % (fn_short(cname.replace('*', '')), desc)
        k = key or ('callers:%s' % fn_short(cname.replace('*', '')))
        if offenders:
            names = sorted({fn_short(f.root().name) for f, _ in offenders})
            for f, l in offenders[:8]:
                self.report.violation(clause, 'R3', inst, '%s<-%s' % (k, fn_short(f.root().name)),
                                      'call from %s (%s:%d) is not in the allow-list' % (f.root().name, f.file, l),
                                      '%s:%d' % (f.file, l))
            return False
        if len(allowed) < min_allowed:
            self.report.violation(clause, 'R3', inst, k + ':vacuous', 'only %d allowed call sites found (need >= %d): '
                                  'the rule would pass vacuously' % (len(allowed), min_allowed), None)
            return False
        self.report.ok(clause, 'R3', inst, '%d call site(s), all in the allow-list: %s' % (
            len(allowed), sorted({fn_short(f.root().name) for f, _ in allowed})[:10]))
        return True

    def only_constructors(self, clause, adt_pat, allow, desc, variant=None, min_allowed=1, key=None):
        try:
            self.ws.adt(adt_pat)
        except AnchorMissing as e:
            self.report.missing(clause, e)
            return None
        allowed, offenders = who_constructs(self.ws, adt_pat, allow, variant)
        inst = 'constructors of %s%s: %s' % (fn_short(adt_pat.replace('*', '')), '' if variant is None else '#%s' % variant, desc)
        k = key or ('constructs:%s%s' % (fn_short(adt_pat.replace('*', '')), '' if variant is None else '#%s' % variant))
        if offenders:
            for f in offenders[:8]:
                self.report.violation(clause, 'R3', inst, '%s<-%s' % (k, fn_short(f.root().name)),
                                      '%s builds the value outside the allow-list' % f.root().name, f.loc())
            return False
        if len(allowed) < min_allowed:
            self.report.violation(clause, 'R3', inst, k + ':vacuous', 'only %d constructor sites (need >= %d)' % (
                len(allowed), min_allowed), None)
            return False
        self.report.ok(clause, 'R3', inst, '%d constructing fn(s): %s' % (
            len(allowed), sorted({fn_short(f.root().name) for f in allowed})[:10]))
        return True


    # ---- a relation that some function in scope establishes, and the entry must pass through
    def quiet_gate(self, f, pred, required, success=None, per_item=False, through_calls=True):
        """guard_gate without reporting: (holds, guards)."""
        lf = f.logic()
        body = lf.body
        if success is None:
            success = {'result': 'ok', 'option': 'some', 'bool': 'true'}.get(ty_class(lf.ret))
            if success is None:
                return False, []
        try:
            gs = [g for g in find_guards(body, through_calls) if pred(g)]
            gs = [g for g in gs if not (operand_shifted(body, g.a) or operand_shifted(body, g.b))]
        except RecursionError:
            return False, []
        if not gs:
            return False, []
        removed = set()
        for g in gs:
            rel_t = CMP_REL[g.op]
            if pred(g) == 'swap':
                rel_t = {_FLIP[r] for r in rel_t}
            rel_f = ALL3 - rel_t
            if rel_t <= required:
                removed |= g.true_edges
            if rel_f <= required:
                removed |= g.false_edges
        starts = [0]
        if per_item:
            starts = [h for h in (loop_body_entry(body, g.bb) for g in gs) if h is not None]
            if not starts:
                return False, gs
        return (not success_reachable(body, removed, success, starts=starts)), gs

    def establishers(self, scope_glob, pred, required, per_item=False):
        """Fns in scope whose success implies the relation (cached per pred identity)."""
        key = (scope_glob, getattr(pred, '__name__', id(pred)), tuple(sorted(required)))
        cache = getattr(self, '_est_cache', None)
        if cache is None:
            cache = self._est_cache = {}
        if key in cache:
            return cache[key]
        out = []
        for f in self.ws.find_all(scope_glob):
            if f.kind == 'closure' or f.unit.tag != 'lib':
                continue
            ok, gs = self.quiet_gate(self.view(f), pred, required, per_item=per_item)
            if ok:
                out.append(f)
        cache[key] = out
        return out

    def relation_gate(self, clause, entry_pat, desc, scope_glob, pred, required, ret_filter=None, success=None,
                      key=None):
        """Success of the entry implies relation `required` on a comparison matching `pred`, established
        either in the entry itself or in a helper (any name) of `scope_glob` that the entry must pass."""
        f = self.try_fn(clause, entry_pat)
        if f is None:
            return None
        inst = '%s => %s' % (fn_short(f.name), desc)
        k = key or ('%s=>%s' % (fn_short(f.name), desc))
        ests = self.establishers(scope_glob, pred, required)
        if not ests:
            self.report.violation(clause, 'R6', inst, k, 'no function in %s establishes the relation %s %s on success'
                                  % (scope_glob, desc, sorted(required)), f.loc())
            return False
        if any(e.name == f.name for e in ests) and ret_filter is None:
            self.report.ok(clause, 'R6', inst, 'established in the entry itself', f.loc())
            return True
        sink = Sink(desc, [e.name for e in ests], 'ok')
        r = self.mpt.enforces(f, sink, success, ret_filter=ret_filter)
        if r.holds:
            self.report.ok(clause, 'R1+R6', inst, 'established by %s; passed at %s' % (
                [fn_short(e.name) for e in ests],
                ['%s:%s' % (fn_short(s['fn']), s['line']) for s in r.sites[:3]]), f.loc())
            return True
        self.report.violation(clause, 'R1+R6', inst, k, 'relation is established by %s but: %s' % (
            [fn_short(e.name) for e in ests], ' | '.join(r.problems)[:1200]), f.loc())
        return False


    def _fields_read(self, fn, adt_name, is_enum):
        cache = getattr(self, '_fr_cache', None)
        if cache is None:
            cache = self._fr_cache = {}
        k = (fn.name, adt_name)
        if k in cache:
            return cache[k]
        out = set()
        for g in fn.family():
            body = g.body
            reads = {}
            for b in body.blocks:
                if b.cleanup:
                    continue
                for (_, pl, rv) in b.stmts:
                    for (l, place) in __import__('core').rvalue_reads(rv):
                        for fk in field_keys(place, adt_name, is_enum):
                            reads.setdefault(fk, set()).add(pl[0])
                if b.term[0] == 'call':
                    for a in b.term[1].args:
                        if a[0] in ('copy', 'move'):
                            for fk in field_keys(a[1], adt_name, is_enum):
                                reads.setdefault(fk, set()).add(b.term[1].dest[0])
            # a value-returning function only "reads" a field for its caller if the value read can reach what the caller gets back:
            # the return value, a `&mut` parameter, or a branch condition (a field read into a dead local does not count)
            exact = g is fn and g.kind != 'closure' and (g.ret or '()') not in ('()', '!')
            if not exact:
                out.update(reads)
                continue
            outs = set(body.ret_carriers())
            for l in range(1, body.argc + 1):
                if body.lty(l).startswith('&mut'):
                    outs.add(l)
            for b in body.blocks:
                if not b.cleanup and b.term[0] == 'sw' and b.term[1][0] in ('copy', 'move'):
                    outs.add(b.term[1][1][0])
            for fk, starts in reads.items():
                if flows_forward(body, set(starts), True) & outs:
                    out.add(fk)
        cache[k] = out
        return out

    # ---- R4 field coverage
    def field_cover(self, clause, adt_pat, fn_or_pat, consumers=(), agg_consumers=(), exempt=None, desc='', variant=None,
                    key=None, ret_consumer=False):
        """Every field of the ADT (of `variant`, default: all variants) that is not exempted is read in
        the fn's body family and the value read flows into an argument of a consumer call / an operand of
        a consumer aggregate / (ret_consumer) the return value."""
        exempt = exempt or {}
        try:
            adt = self.ws.adt(adt_pat)
        except AnchorMissing as e:
            self.report.missing(clause, e)
            return None
        f = fn_or_pat if not isinstance(fn_or_pat, str) else self.try_fn(clause, fn_or_pat)
        if f is None:
            return None
        adt_name = adt['n']
        is_enum = adt['kind'] == 'enum'
        fields = []
        for vi, v in enumerate(adt['variants']):
            if variant is not None and v['n'] != variant:
                continue
            for fd in v['fields']:
                fields.append((v['n'], fd['n']))
        covered = {}
        lossy_only = set()
        ftypes = {}
        for v in adt['variants']:
            for fd in v['fields']:
                ftypes[(v['n'] if is_enum else None, fd['n'])] = fd['ty']
        for g in f.family():
            body = g.body
            # consumer sinks of this body
            sink_locals = set()
            sink_desc = []
            for c in body.calls():
                if consumers and any(match_any(list(consumers), n) for n in c.names()):
                    for a in c.args:
                        if a[0] in ('copy', 'move'):
                            sink_locals.add(a[1][0])
                    sink_desc.append(c)
            for b in body.blocks:
                if b.cleanup:
                    continue
                for (_, pl, rv) in b.stmts:
                    if agg_consumers and rv[0] == 'agg' and rv[1] == 'adt' and rv[2] and match_any(list(agg_consumers), rv[2]):
                        for o in rv[5]:
                            if o[0] in ('copy', 'move'):
                                sink_locals.add(o[1][0])
            if ret_consumer:
                sink_locals |= body.ret_carriers()
                # short-circuit comparisons decide the returned constant through control flow
                for b in body.blocks:
                    if not b.cleanup and b.term[0] == 'sw' and b.term[1][0] in ('copy', 'move'):
                        sink_locals.add(b.term[1][1][0])
            if not sink_locals:
                continue
            # reads of each field
            reads = {}
            for bi, b in enumerate(body.blocks):
                if b.cleanup:
                    continue
                for (_, pl, rv) in b.stmts:
                    for (l, place) in __import__('core').rvalue_reads(rv):
                        for fk in field_keys(place, adt_name, is_enum):
                            reads.setdefault(fk, set()).add(pl[0])
                t = b.term
                if t[0] == 'call':
                    # the object itself handed to a workspace method: the fields that method reads
                    # count as read here (one level), e.g. self.phi_f_fixed()
                    for a in t[1].args:
                        if a[0] in ('copy', 'move') and not [pe for pe in a[1][1] if isinstance(pe, tuple)]:
                            if type_head_matches(body, a[1][0], adt_name) or refers_to_adt(body, a[1][0], adt_name):
                                for gname in t[1].names():
                                    for callee in self.ws.by_name.get(gname, []):
                                        for fk in self._fields_read(callee, adt_name, is_enum):
                                            reads.setdefault(fk, set()).add(t[1].dest[0])
                                            if any(match_any(list(consumers), n) for n in t[1].names()):
                                                covered[fk] = '%s:%d (object passed to consumer)' % (fn_short(g.name), t[1].line)
                    for a in t[1].args:
                        if a[0] in ('copy', 'move'):
                            for fk in field_keys(a[1], adt_name, is_enum):
                                reads.setdefault(fk, set()).add(t[1].dest[0])
                                if any(match_any(list(consumers), n) for n in t[1].names()):
                                    covered[fk] = '%s:%d (direct argument)' % (fn_short(g.name), t[1].line)
                elif t[0] == 'sw' and t[1][0] in ('copy', 'move'):
                    pass
            for fname, starts in reads.items():
                if fname in covered and fname not in lossy_only:
                    continue
                seq = ftypes.get(fname, '').startswith(('std::vec::Vec<', 'std::collections::vec_deque::VecDeque<', '[', '&['))
                from engine import LOSSY_COLLECTIONS
                starts_ok = set(starts)
                if seq:
                    starts_ok = {l for l in starts if not any(x in body.lty(l) for x in LOSSY_COLLECTIONS)}
                derived = flows_forward(body, starts_ok, True, avoid_types=LOSSY_COLLECTIONS if seq else None) if starts_ok else set()
                if derived & sink_locals:
                    covered[fname] = fn_short(g.name)
                    lossy_only.discard(fname)
                elif seq and flows_forward(body, starts, True) & sink_locals and fname not in covered:
                    lossy_only.add(fname)
        ok_all = True
        for (vn, fname0) in fields:
            fname = (vn, fname0) if is_enum else (None, fname0)
            inst = '%s.%s%s covered by %s %s' % (fn_short(adt_name), (vn + '.') if is_enum else '', fname0, fn_short(f.name), desc)
            fq = ('%s.%s' % (vn, fname0)) if is_enum else fname0
            k = 'cover:%s.%s:%s' % (fn_short(adt_name), fq, fn_short(f.name))
            if key:
                k = '%s:%s' % (key, fq)
            if fname0 in exempt or fq in exempt:
                self.report.info(clause, '%s.%s exempt in %s: %s' % (fn_short(adt_name), fq, fn_short(f.name), exempt.get(fq, exempt.get(fname0))))
                continue
            if fname in lossy_only and not str(covered.get(fname, '')).endswith('consumer)'):
                ok_all = False
                self.report.violation(clause, 'R4', inst, k + ':order', 'the sequence field `%s` reaches the consumer only through an order / '
                                      'multiplicity normalising collection (map / set): permuted or duplicated elements are not distinguished' % fq, f.loc())
            elif fname in covered:
                self.report.ok(clause, 'R4', inst, 'via %s' % covered[fname], f.loc())
            else:
                ok_all = False
                self.report.violation(clause, 'R4', inst, k, 'field `%s` of %s is not read-and-consumed in %s' % (
                    fq, adt_name, f.name), f.loc())
        if not fields:
            self.report.violation(clause, 'R4', '%s has fields' % adt_name, 'cover:%s:vacuous' % fn_short(adt_name), 'no fields found', f.loc())
        return ok_all


    # ---- same-name field mapping of a conversion
    def field_mapping(self, clause, src_adt_pat, dst_adt_pat, fn_or_pat, exempt=None, desc='', src_prefix=None):
        """In a conversion fn, every field name common to source and target ADT: the operand building
        target.field derives (through moves / clone / into / try_into / map / transpose / with_context / ?) from
        source.field - not from another field or a recomputed value."""
        exempt = exempt or {}
        try:
            src = self.ws.adt(src_adt_pat)
            dst = self.ws.adt(dst_adt_pat)
        except AnchorMissing as e:
            self.report.missing(clause, e)
            return None
        f = fn_or_pat if not isinstance(fn_or_pat, str) else self.try_fn(clause, fn_or_pat)
        if f is None:
            return None
        sname = src['n'].rsplit('::', 1)[-1]
        sfields = {fd['n'] for fd in src['variants'][0]['fields']}
        dfields = [fd['n'] for fd in dst['variants'][0]['fields']]
        body = f.body
        agg = None
        for b in body.blocks:
            if b.cleanup:
                continue
            for (line, pl, rv) in b.stmts:
                if rv[0] == 'agg' and rv[1] == 'adt' and rv[2] == dst['n']:
                    agg = (line, rv)
        if agg is None:
            self.report.violation(clause, 'R4', '%s builds %s' % (fn_short(f.name), fn_short(dst['n'])), 'mapping:%s:agg' % fn_short(f.name),
                                  'no aggregate of the target type in the conversion', f.loc())
            return False
        line, rv = agg
        ok_all = True
        for i, fname in enumerate(dfields):
            if fname not in sfields:
                continue
            inst = '%s: %s.%s <- %s.%s %s' % (fn_short(f.name), fn_short(dst['n']), fname, sname, fname, desc)
            if fname in exempt:
                self.report.info(clause, '%s exempt: %s' % (inst, exempt[fname]))
                continue
            og = fn_origins(f, rv[5][i], 'adapters')
            want = '%s.%s' % (src_prefix or ('pty:' + sname), fname)
            if any(o == want or o.startswith(want + '.') for o in og):
                self.report.ok(clause, 'R5', inst, '', '%s:%d' % (f.file, line))
            else:
                ok_all = False
                self.report.violation(clause, 'R5', inst, 'mapping:%s:%s' % (fn_short(f.name), fname),
                                      'the target field is not built from the same-named source field (origins: %s)' % sorted(
                                          o for o in og if o.startswith(('pty:', 'call:mithril')))[:5], '%s:%d' % (f.file, line))
        return ok_all


    # ---- R2 ordering helpers
    def call_sites(self, body, pats):
        _log_pats(pats)
        return [c for c in body.calls() if any(match_any(pats, n) for n in c.names())]

    def success_edges_of(self, lf, pats, want=+1):
        _log_pats(pats)
        """(sites, success edges) of the calls matching pats in lf's body: edges on which the call succeeded."""
        body = lf.body
        sites = self.call_sites(body, pats)
        edges = set()
        for c in sites:
            tr = track_result(body, c.dest[0], want)
            if tr.success_edges:
                edges |= tr.success_edges
            elif tr.returned and c.target is not None:
                edges.add((c.bb, c.target))
        return sites, edges

    def order(self, clause, fn_or_pat, first, then, desc=None, key=None, first_want=+1, _inst=None, _depth=0):
        _log_pats(first, then)
        """R2: every path to a call of `then` has passed a successful call of `first`."""
        f = fn_or_pat if not isinstance(fn_or_pat, str) else self.try_fn(clause, fn_or_pat)
        if f is None:
            return None
        lf = f.logic()
        body = lf.body
        fname, fp = first
        tname, tp = then
        inst = '%s: %s (success) precedes %s' % (fn_short(f.name), fname, tname)
        k = key or ('order:%s:%s<%s' % (fn_short(f.name), fname, tname))
        if _inst is not None:
            inst, k = _inst
        # both steps moved into one helper under the entry: the order is decided inside that helper
        if _depth < 2 and not self.call_sites(body, tp):
            tpl = [tp] if isinstance(tp, str) else list(tp)
            fpl0 = [fp] if isinstance(fp, str) else list(fp)
            root0 = getattr(f, '_orig', f).root()
            both = []
            for h in self.closure_fns(f, depth=3):
                if h is root0:
                    continue
                try:
                    if self.closure_sites(h, tpl, depth=2) and self.closure_sites(h, fpl0, depth=2) and not self.call_sites(body, fp):
                        both.append(h)
                except Exception:  # noqa
                    pass
            if both:
                return self.order(clause, self.view(both[0]), first, then, desc, key, first_want, _inst=(inst, k), _depth=_depth + 1)
        fs, edges = self.success_edges_of(lf, fp, first_want)
        ts = self.call_sites(body, tp)
        if not fs and first_want == +1:
            # `first` may have moved into a helper (sync helpers are spliced; async ones are not): helpers under the entry whose own
            # success requires a successful `first` stand for it
            fpl = [fp] if isinstance(fp, str) else list(fp)
            helpers = []
            for h in self.closure_fns(f, depth=3):
                if h is getattr(f, '_orig', f).root() or any(match_any(fpl, h.name) for _ in [0]):
                    continue
                try:
                    if self.mpt.enforces(h, Sink(fname, fpl, 'ok')).holds:
                        helpers.append(h.name)
                except Exception:  # noqa
                    pass
            if helpers:
                fs, edges = self.success_edges_of(lf, helpers, +1)
        if not ts:
            # ... and `then` likewise: a call of a helper under which `then` happens counts as the `then` step
            tpl = [tp] if isinstance(tp, str) else list(tp)
            root0 = getattr(f, '_orig', f).root()
            hs = []
            for h in self.closure_fns(f, depth=3):
                if h is root0:
                    continue
                try:
                    if self.closure_sites(h, tpl, depth=2):
                        hs.append(h.name)
                except Exception:  # noqa
                    pass
            if hs:
                ts = self.call_sites(body, hs)
        if not fs or not ts:
            self.report.violation(clause, 'R2', inst, k, '%s sites: %d, %s sites: %d' % (fname, len(fs), tname, len(ts)), f.loc())
            return False
        if not edges:
            self.report.violation(clause, 'R2', inst, k, 'the result of %s is not branched on (it cannot gate %s)' % (fname, tname), f.loc())
            return False
        reach = body.reach([0], removed=edges)
        bad = [c for c in ts if c.bb in reach]
        if bad:
            self.report.violation(clause, 'R2', inst, k, '%s (line %s) is reachable without a successful %s' % (tname, [c.line for c in bad], fname),
                                  '%s:%d' % (lf.file, bad[0].line))
            return False
        self.report.ok(clause, 'R2', inst, '', f.loc())
        return True

    def flag_gate(self, clause, fn_or_pat, field_origin, want_false=True, desc='', ret_filter=None, success=None, key=None):
        """A boolean read from `field_origin` (origin glob, adapters mode) is tested and success requires it to be
        false (want_false) / true."""
        f = fn_or_pat if not isinstance(fn_or_pat, str) else self.try_fn(clause, fn_or_pat)
        if f is None:
            return None
        lf = f.logic()
        body = lf.body
        if success is None:
            success = {'result': 'ok', 'option': 'some', 'bool': 'true'}.get(ty_class(lf.ret), 'any')
        # reads of the flag: either a parameter origin (pty:Type.field) or a direct field projection Type.field
        tyname, fld = field_origin.split(':', 1)[-1].rsplit('.', 1)
        edges = set()
        n = 0
        flag_locals = set()
        for bi, b in enumerate(body.blocks):
            if b.cleanup:
                continue
            for (_, pl, rv) in b.stmts:
                for (l, place) in __import__('core').rvalue_reads(rv):
                    for pe in place[1]:
                        if isinstance(pe, tuple) and pe[0] == 'f' and pe[2] == fld and pe[3] and glob_match(tyname, pe[3].rsplit('::', 1)[-1]) and not pl[1]:
                            flag_locals.add(pl[0])
        for l in flag_locals:
            tr = track_result(body, l, -1 if want_false else +1, 'bool')
            if tr.success_edges:
                n += 1
                edges |= tr.success_edges
        inst = '%s: success requires %s == %s %s' % (fn_short(f.name), field_origin.split(':', 1)[-1], 'false' if want_false else 'true', desc)
        k = key or ('flag:%s:%s' % (fn_short(f.name), field_origin.split(':', 1)[-1]))
        if not n:
            # the test may have been moved into a helper (possibly async): helpers under the entry whose own success requires the
            # flag value, and which the entry must pass successfully
            ests = []
            for h in self.closure_fns(f, depth=3):
                if h is getattr(f, '_orig', f).root():
                    continue
                hv = self.view(h)
                ok_h = self._flag_gate_quiet(hv, tyname, fld, want_false)
                if ok_h:
                    ests.append(h)
            if ests:
                r = self.mpt.enforces(f, Sink('%s test' % fld, [e.name for e in ests], 'ok'), success, ret_filter=ret_filter)
                if r.holds:
                    self.report.ok(clause, 'R1', inst, 'tested in %s, which the entry passes successfully' % [fn_short(e.name) for e in ests], f.loc())
                    return True
                self.report.violation(clause, 'R1', inst, k, 'the flag is tested in %s but: %s' % ([fn_short(e.name) for e in ests], ' | '.join(r.problems)[:600]), f.loc())
                return False
            self.report.violation(clause, 'R1', inst, k, 'the flag is never tested', f.loc())
            return False
        if success_reachable(body, edges, success, ret_filter=ret_filter):
            self.report.violation(clause, 'R1', inst, k, 'a success return is reachable without the %s arm of the test' % ('false' if want_false else 'true'), f.loc())
            return False
        self.report.ok(clause, 'R1', inst, '%d test(s)' % n, f.loc())
        return True


    def _flag_gate_quiet(self, f, tyname, fld, want_false):
        lf = f.logic()
        body = lf.body
        success = {'result': 'ok', 'option': 'some', 'bool': 'true'}.get(ty_class(lf.ret))
        if success is None:
            return False
        flag_locals = set()
        for b in body.blocks:
            if b.cleanup:
                continue
            for (_, pl, rv) in b.stmts:
                for (l, place) in __import__('core').rvalue_reads(rv):
                    for pe in place[1]:
                        if isinstance(pe, tuple) and pe[0] == 'f' and pe[2] == fld and pe[3] and glob_match(tyname, pe[3].rsplit('::', 1)[-1]) and not pl[1]:
                            flag_locals.add(pl[0])
        edges = set()
        for l in flag_locals:
            edges |= track_result(body, l, -1 if want_false else +1, 'bool').success_edges
        return bool(edges) and not success_reachable(body, edges, success)

    # ---- embedded SQL conditions (string constants handed to WhereCondition::new)
    def sql_conditions(self, f):
        """[(text, line)] of the condition strings a query-builder fn hands to WhereCondition::new."""
        out = []
        for g in f.family():
            for c in g.body.calls():
                if any(glob_match('*::WhereCondition::new', n) for n in c.names()) and c.args:
                    a = c.args[0]
                    if a[0] == 'const':
                        out.append((a[1].strip().strip('"'), c.line))
                    else:
                        for o in fn_origins(g, a, 'adapters'):
                            if o.startswith('const:'):
                                out.append((o[6:].strip().strip('"'), c.line))
        return out


def deep_origins(ws, fn, operand, mode=True, depth=3, _seen=None, within=None):
    """fn_origins, with parameter origins (`p#k[.path]`) replaced by the origins of the corresponding argument at
    every workspace call site of fn (up to `depth` callers up).  Lets a rule state where a value comes from without
    naming the helper functions it travels through."""
    import re as _re
    _seen = _seen if _seen is not None else set()
    og = fn_origins(fn, operand, mode)
    root = fn.root()
    if depth == 0 or id(root) in _seen:
        return og
    _seen = _seen | {id(root)}
    out = set(og)
    params = {}
    for o in og:
        m = _re.match(r'^p#(\d+)(\..*)?$', o)
        if m:
            params.setdefault(int(m.group(1)), set()).add(m.group(2) or '')
    if not params:
        return out
    names = [root.name]
    mt = _re.match(r'^<.* as (.*)>::([A-Za-z0-9_]+)$', root.name)
    if mt:
        names.append(mt.group(1) + '::' + mt.group(2))     # calls through the trait (dyn / generic dispatch)
    callers = []
    for nm in names:
        callers.extend(ws.callers_of(nm))
    for caller, _line in callers:
        if caller.unit.tag not in ('lib', 'bin'):
            continue
        if within is not None and id(caller.root()) not in within:
            continue        # only callers under the stated entry point
        for c in caller.body.calls():
            if not any(nm in c.names() for nm in names):
                continue
            for k, suffixes in params.items():
                if 0 < k <= len(c.args):
                    sub = deep_origins(ws, caller, c.args[k - 1], mode, depth - 1, _seen, within)
                    for x in sub:
                        out.add(x)
                        for suf in suffixes:
                            if suf and x.startswith(('param:', 'p#', 'pty:')):
                                out.add(x + suf)
    return out


def parse_sql_comparison(text):
    """`col op ?` / `? op col` -> (col, op) with op normalised to col-on-the-left; None if not a single comparison."""
    import re as _re
    m = _re.match(r'^\s*([A-Za-z_][A-Za-z0-9_.]*)\s*(<=|>=|<>|!=|==|=|<|>)\s*\?\*?\d*\s*$', text)
    if m:
        return m.group(1), m.group(2)
    m = _re.match(r'^\s*\?\*?\d*\s*(<=|>=|<>|!=|==|=|<|>)\s*([A-Za-z_][A-Za-z0-9_.]*)\s*$', text)
    if m:
        flip = {'<': '>', '>': '<', '<=': '>=', '>=': '<=', '=': '=', '==': '==', '<>': '<>', '!=': '!='}
        return m.group(2), flip[m.group(1)]
    return None
